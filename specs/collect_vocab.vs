// ---- vocabulary for collect_removable_ranges (inside `mod remover`, after Remover and remover_vocab) ----
pub open spec fn is_skip_spec(el: crate::element_parser::Element) -> bool { has_attr(el.attrs@, "skip"@) }

pub open spec fn status_after_eval(r: Remover, el: crate::parser::Element, ready: bool, pending: bool) -> Option<(RemovableRange, bool)> {
    if !ready && !pending { None } else {
        match create_spec(r.remove_strategies@, el) { Some(rng) => Some((rng, ready)), None => None }
    }
}
pub open spec fn filter_empty(x: Option<(RemovableRange, bool)>) -> Option<(RemovableRange, bool)> {
    match x { Some(st) => if st.0.0.start < st.0.0.end { Some(st) } else { None }, None => None }
}
/// what collect_removable_ranges decides for ONE element: Some((extent, is_ready)) or None.
/// skip wins; the tag name must be registered; a condition that does not hold gives a pending entry only when
/// pending entries are collected; an empty extent (unwrap-block that cannot be unwrapped) gives nothing.
pub open spec fn elem_status(r: Remover, el: crate::parser::Element, pending: bool) -> Option<(RemovableRange, bool)> {
    if is_skip_spec(el.start_element) { None } else {
        match str_lookup(r.removal_evaluators@, el.start_element.name@) {
            None => None,
            Some(ev) => filter_empty(status_after_eval(r, el, ev.spec_is_removal(el.start_element), pending)),
        }
    }
}

pub open spec fn part_lo(c: crate::parser::ContentPart) -> int {
    match c { crate::parser::ContentPart::Element(el) => el.start_token.byte_start as int, crate::parser::ContentPart::Text(t) => t.token.byte_start as int }
}
pub open spec fn part_hi(c: crate::parser::ContentPart) -> int {
    match c { crate::parser::ContentPart::Element(el) => el.end_token.byte_end as int, crate::parser::ContentPart::Text(t) => t.token.byte_end as int }
}
/// the shape parser::parse promises (ASSUMED, C10 is not decided): parts lie in [a, b], in order, elements
/// have non-empty ordered tags and their children lie between the tags
pub open spec fn parts_wf(parts: Seq<crate::parser::ContentPart>, a: int, b: int) -> bool
    decreases parts,
{
    &&& forall|i: int| 0 <= i < parts.len() ==> a <= part_lo(#[trigger] parts[i]) <= part_hi(parts[i]) <= b
    &&& forall|i: int, j: int| 0 <= i < j < parts.len() ==> part_hi(#[trigger] parts[i]) <= part_lo(#[trigger] parts[j])
    &&& forall|i: int| 0 <= i < parts.len() ==> (#[trigger] parts[i] matches crate::parser::ContentPart::Element(el) ==>
            el_wf(el) && parts_wf(el.children@, el.start_token.byte_end as int, el.end_token.byte_start as int))
}

/// byte p lies in the removable extent of an element (any depth) whose status is Some((_, want_ready))
pub open spec fn parts_covered(r: Remover, parts: Seq<crate::parser::ContentPart>, pending: bool, want_ready: bool, p: int) -> bool
    decreases parts,
{
    exists|i: int| 0 <= i < parts.len() && (#[trigger] parts[i] matches crate::parser::ContentPart::Element(el) && (
        (elem_status(r, el, pending) matches Some(st) && st.1 == want_ready
            && (rcontains_i(st.0.0, p) || (st.0.1 matches Some(e) && rcontains_i(e, p))))
        || parts_covered(r, el.children@, pending, want_ready, p)))
}

/// every element (any depth) has non-empty, ordered tags
pub open spec fn all_el_wf(parts: Seq<crate::parser::ContentPart>) -> bool
    decreases parts,
{
    forall|i: int| 0 <= i < parts.len() ==> (#[trigger] parts[i] matches crate::parser::ContentPart::Element(el) ==> el_wf(el) && all_el_wf(el.children@))
}

/// the two forests collect_removable_ranges builds, as a spec function that mirrors the fold
pub open spec fn collect_spec(r: Remover, parts: Seq<crate::parser::ContentPart>, pending: bool) -> (Seq<GTree>, Seq<GTree>)
    decreases parts,
{
    if parts.len() == 0 { (Seq::empty(), Seq::empty()) } else {
        let prev = collect_spec(r, parts.drop_last(), pending);
        match parts.last() {
            crate::parser::ContentPart::Text(_) => prev,
            crate::parser::ContentPart::Element(el) => {
                let ch = collect_spec(r, el.children@, pending);
                match elem_status(r, el, pending) {
                    Some(st) => if st.1 {
                        (prev.0.push(GTree { range: st.0, children: ch.0 }), prev.1 + ch.1)
                    } else {
                        (prev.0 + ch.0, prev.1.push(GTree { range: st.0, children: ch.1 }))
                    },
                    None => (prev.0 + ch.0, prev.1 + ch.1),
                }
            },
        }
    }
}
