//@unit utils
// L0: the three finders and their `check` helpers (DESIGN 5, L0).

pub mod line_break_pos_finder {
use super::*;

//@item file=code/utils/line_break_pos_finder.rs kind=enum name=CheckResult

//@fn id=lb_check file=code/utils/line_break_pos_finder.rs name=check props=C01,C02,C11,C12,C13,C14
//@ret r
//@requires
    bytes@ == content.spec_bytes(),
    *cursor < bytes@.len(),
//@ensures label=check_exact
    (r is Found) <==> is_lf(bytes@[*cursor as int]),
    (r is Skip) <==> skippable(bytes@, *cursor as int),
//@at body-start
    proof {
        lemma_bytes_valid(content);
        if !cb(bytes@, *cursor as int) { lemma_nonboundary_not_ascii(bytes@, *cursor as int); }
        else if bytes@[*cursor as int] < 0x80u8 { }
        if bytes@[*cursor as int] < 0x80u8 { lemma_ascii_is_boundary(bytes@, *cursor as int); }
    }
//@end

//@fn id=find_next_lb file=code/utils/line_break_pos_finder.rs name=find_next_line_break_pos props=C01,C02,C11,C12,C13,C14
//@ret r
//@requires
    bytes@ == content.spec_bytes(),
    pause_on_char && byte_pos < bytes@.len() ==> cb(bytes@, byte_pos as int),
//@ensures label=next_exact
    match r {
        Some(q) => next_ok(bytes@, byte_pos as int, q as int, pause_on_char),
        None => forall|q: int| !next_ok(bytes@, byte_pos as int, q, pause_on_char),
    },
//@ensures label=next_is_next_lb
    r matches Some(q) ==> (next_ok(bytes@, byte_pos as int, q as int, pause_on_char) ==> next_lb(bytes@, byte_pos as int, pause_on_char) == Some(q as int)),
    r is None ==> next_lb(bytes@, byte_pos as int, pause_on_char) is None,
//@at body-start
    proof { lemma_next_lb(bytes@, byte_pos as int, pause_on_char); }
//@loop 1
//@invariant
    bytes@ == content.spec_bytes(),
    byte_pos <= cursor,
    cursor > 0 ==> byte_pos > 0,
    cursor <= bytes@.len() || cursor == byte_pos,
    pause_on_char ==> all_blank(bytes@, byte_pos as int, cursor as int),
    pause_on_char && cursor < bytes@.len() ==> cb(bytes@, cursor as int),
    no_lf(bytes@, byte_pos as int, cursor as int),
//@decreases
    bytes@.len() - cursor
//@at loop 1 start
    proof { lemma_bytes_valid(content); }
//@at before "cursor += 1;"
    proof {
        if pause_on_char {
            assert(is_blank(bytes@[cursor as int]));
            lemma_ascii_next_boundary(bytes@, cursor as int);
        }
    }
//@end

//@fn id=find_prev_lb file=code/utils/line_break_pos_finder.rs name=find_prev_line_break_pos props=C01,C02,C11,C12,C13,C14
//@ret r
//@requires
    bytes@ == content.spec_bytes(),
//@ensures label=prev_exact
    match r {
        Some(q) => prev_ok(bytes@, byte_pos as int, q as int, pause_on_char),
        None => forall|q: int| !prev_ok(bytes@, byte_pos as int, q, pause_on_char),
    },
//@ensures label=prev_is_prev_lb
    r matches Some(q) ==> (prev_ok(bytes@, byte_pos as int, q as int, pause_on_char) ==> prev_lb(bytes@, byte_pos as int, pause_on_char) == Some(q as int)),
    r is None ==> prev_lb(bytes@, byte_pos as int, pause_on_char) is None,
//@at body-start
    proof { lemma_prev_lb(bytes@, byte_pos as int, pause_on_char); }
//@loop 1
//@invariant
    bytes@ == content.spec_bytes(),
    0 < cursor <= byte_pos,
    byte_pos <= bytes@.len() || cursor == byte_pos,
    no_lf(bytes@, cursor as int, byte_pos as int),
    pause_on_char ==> (forall|k: int| cursor <= k < byte_pos && k < bytes@.len() ==> skippable(bytes@, k)),
    pause_on_char && cursor < bytes@.len() ==> (!cb(bytes@, cursor as int) || all_blank(bytes@, cursor as int, byte_pos as int)),
//@decreases
    cursor
//@at loop 1 start
    proof { lemma_bytes_valid(content); }
//@at before "match check("
    proof {
        if is_lf(bytes@[cursor as int]) {
            lemma_ascii_is_boundary(bytes@, cursor as int);
            lemma_ascii_next_boundary(bytes@, cursor as int);
        }
    }
//@at loop 1 end
    proof {
        // only reached through the Skip arm or the non-pausing None arm
        if pause_on_char {
            if cb(bytes@, cursor as int) {
                assert(is_blank(bytes@[cursor as int]));
                lemma_ascii_next_boundary(bytes@, cursor as int);
            }
        }
    }
//@end

} // mod line_break_pos_finder

pub mod char_pos_finder {
use super::*;

//@item file=code/utils/char_pos_finder.rs kind=enum name=CheckResult

//@fn id=cp_check file=code/utils/char_pos_finder.rs name=check props=C01,C02,C12,C14
//@ret r
//@requires
    bytes@ == content.spec_bytes(),
    *cursor < bytes@.len(),
//@ensures label=check_exact
    (r is Skip) <==> skippable(bytes@, *cursor as int),
    (r is Found) <==> !skippable(bytes@, *cursor as int),
//@end

//@fn id=find_next_char file=code/utils/char_pos_finder.rs name=find_next_char_pos props=C01,C02,C12,C14
//@ret r
//@requires
    bytes@ == content.spec_bytes(),
//@ensures label=charpos_exact
    match r {
        Some(q) => charpos_ok(bytes@, byte_pos as int, q as int),
        None => forall|q: int| !charpos_ok(bytes@, byte_pos as int, q),
    },
//@ensures label=charpos_is_char_pos
    r matches Some(q) ==> (charpos_ok(bytes@, byte_pos as int, q as int) ==> char_pos(bytes@, byte_pos as int) == Some(q as int)),
    r is None ==> char_pos(bytes@, byte_pos as int) is None,
//@at body-start
    proof { lemma_char_pos(bytes@, byte_pos as int); }
//@loop 1
//@invariant
    bytes@ == content.spec_bytes(),
    byte_pos <= cursor,
    cursor > 0 ==> byte_pos > 0,
    cursor <= bytes@.len() || cursor == byte_pos,
    forall|k: int| byte_pos <= k < cursor ==> skippable(bytes@, k),
//@decreases
    bytes@.len() - cursor
//@at loop 1 start
    proof {
        assert forall|q: int| byte_pos <= q < cursor implies !charpos_ok(bytes@, byte_pos as int, q) by {
            assert(skippable(bytes@, q));
        }
    }
//@end

} // mod char_pos_finder
