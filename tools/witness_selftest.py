#!/usr/bin/env python3
"""Run every witness generator on the UNCHANGED crate for several seeds and both tiers: any hit is a false alarm of the
corpus (or a genuine defect) and must be looked at before the corpus is committed. usage: witness_selftest.py [nseeds]"""
import os, sys, json, subprocess, os
ROOT = os.path.dirname(os.path.dirname(os.path.abspath(__file__)))
sys.path.insert(0, os.path.join(ROOT, 'witness'))
import witness
D = os.path.join(ROOT, '.build/driver/debug/chiritori-verif-driver')
def drive(reqs):
    groups = {}
    for k, r in enumerate(reqs):
        groups.setdefault(json.dumps(r.get('env') or {}, sort_keys=True), []).append(k)
    outs = [None] * len(reqs)
    for ekey, idx in groups.items():
        p = subprocess.run([D], input='\n'.join(json.dumps({k: v for k, v in reqs[i].items() if k != 'env'}) for i in idx) + '\n',
                           capture_output=True, text=True, env=dict(os.environ, **json.loads(ekey)))
        for i, l in zip(idx, [x for x in p.stdout.split('\n') if x]):
            outs[i] = json.loads(l)
    return outs
bad = 0
for prop in sorted(witness.GENERATORS):
    for big in (False, True):
        for seed in range(int(sys.argv[1]) if len(sys.argv) > 1 else 4):
            n, hits = witness.run(prop, drive, seed=seed, big=big)
            if hits:
                bad += 1
                print('HIT', prop, 'seed', seed, 'big', big, hits[0]['why'][:300])
    print(prop, 'ok' if not bad else '', flush=True)
print('false alarms:', bad)
sys.exit(1 if bad else 0)
