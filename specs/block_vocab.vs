// ---- exact result of BlockIndentRemover ----
pub open spec fn imin(a: int, b: int) -> int { if a <= b { a } else { b } }

/// indentation (in bytes) of the line that contains `p`, as get_indent_len computes it
pub open spec fn indent_len_spec(b: Seq<u8>, p: int) -> int {
    match prev_lb(b, p, false) {
        Some(lf) => match char_pos(b, lf + 1) { Some(e) => e - lf - 1, None => 0 },
        None => 0,
    }
}

/// the blanks BlockIndentRemover deletes on the line that starts at `ls`
pub open spec fn line_range(b: Seq<u8>, ls: int, ofs: int, len: int) -> Option<(int, int)> {
    match char_pos(b, ls) {
        Some(ip) => {
            let st = imin(ls + ofs, ip);
            let en = imin(st + len, ip);
            if st != en { Some((st, en)) } else { None }
        },
        None => None,
    }
}

/// ranges for all complete lines from `cur` that end at or before `e`
pub open spec fn block_ranges(b: Seq<u8>, cur: int, e: int, ofs: int, len: int) -> Seq<(int, int)>
    decreases b.len() - cur,
{
    if e > cur {
        match next_lb(b, cur, false) {
            Some(lf) => if lf + 1 > e || lf < cur { Seq::empty() } else {
                (match line_range(b, cur, ofs, len) { Some(r) => seq![r], None => Seq::empty() })
                    + block_ranges(b, lf + 1, e, ofs, len)
            },
            None => Seq::empty(),
        }
    } else { Seq::empty() }
}

pub open spec fn block_spec(b: Seq<u8>, s: int, e: int) -> Seq<(int, int)> {
    let ofs = match prev_lb(b, s, true) { Some(q) => s - q - 1, None => 0 };
    match next_lb(b, s, false) {
        Some(lf) => {
            let first = indent_len_spec(b, lf + 1);
            let len = if first >= ofs { first - ofs } else { 0 };
            block_ranges(b, lf + 1, e, ofs, len)
        },
        None => Seq::empty(),
    }
}


