//@unit block_formatter
// L2: BlockFormatter trait contract, BlockIndentRemover::format, get_indent_len (DESIGN 5, L2).

//@import find_next_lb
//@import find_prev_lb
//@import find_next_char

pub open spec fn imin(a: int, b: int) -> int { if a <= b { a } else { b } }

/// indentation (in bytes) of the line that contains `p`, as get_indent_len computes it
pub open spec fn indent_len_spec(b: Seq<u8>, p: int) -> int {
    match prev_lb(b, p, false) {
        Some(lf) => match char_pos(b, lf + 1) { Some(e) => e - lf - 1, None => 0 },
        None => 0,
    }
}

/// the blanks BlockIndentRemover deletes on the line that starts at `ls`
pub open spec fn line_range(b: Seq<u8>, ls: int, ofs: int, len: int) -> Option<(int, int)> {
    match char_pos(b, ls) {
        Some(ip) => {
            let st = imin(ls + ofs, ip);
            let en = imin(st + len, ip);
            if st != en { Some((st, en)) } else { None }
        },
        None => None,
    }
}

/// ranges for all complete lines from `cur` that end at or before `e`
pub open spec fn block_ranges(b: Seq<u8>, cur: int, e: int, ofs: int, len: int) -> Seq<(int, int)>
    decreases b.len() - cur,
{
    if e > cur {
        match next_lb(b, cur, false) {
            Some(lf) => if lf + 1 > e || lf < cur { Seq::empty() } else {
                (match line_range(b, cur, ofs, len) { Some(r) => seq![r], None => Seq::empty() })
                    + block_ranges(b, lf + 1, e, ofs, len)
            },
            None => Seq::empty(),
        }
    } else { Seq::empty() }
}

pub open spec fn block_spec(b: Seq<u8>, s: int, e: int) -> Seq<(int, int)> {
    let ofs = match prev_lb(b, s, true) { Some(q) => s - q - 1, None => 0 };
    match next_lb(b, s, false) {
        Some(lf) => {
            let first = indent_len_spec(b, lf + 1);
            let len = if first >= ofs { first - ofs } else { 0 };
            block_ranges(b, lf + 1, e, ofs, len)
        },
        None => Seq::empty(),
    }
}

pub open spec fn ranges_view(v: Seq<Range<usize>>) -> Seq<(int, int)> {
    Seq::new(v.len(), |i: int| (v[i].start as int, v[i].end as int))
}

//@fn id=trait_block_formatter file=code/formatter.rs name=format in="trait BlockFormatter" props=C01,C02,C12,C14
//@ret r
//@requires
    start_byte_pos <= end_byte_pos <= content.spec_bytes().len(),
//@ensures label=block_safe props=C01,C02,C14
    block_safe(content.spec_bytes(), start_byte_pos as int, end_byte_pos as int, r@),
//@end

//@fn id=get_indent_len file=code/formatter/block_indent_remover.rs name=get_indent_len props=C01,C12
//@ret r
//@ensures label=indent_len_exact props=C12
    r as int == indent_len_spec(content.spec_bytes(), byte_pos as int),
//@closure 1 params="p: usize" ret="ret: Option<usize>"
//@closure-requires
    bytes@ == content.spec_bytes(), p < bytes.len(), bytes.len() == bytes@.len(),
//@closure-ensures
    ret matches Some(v) ==> char_pos(bytes@, p + 1) matches Some(e) && v == e - p - 1,
    ret is None ==> char_pos(bytes@, p + 1) is None,
//@closure 2 params="e: usize" ret="ret: usize"
//@closure-requires
    e > p,
//@closure-ensures
    ret == e - p - 1,
//@at before "find_prev_line_break_pos(content, bytes, byte_pos, false)"
    proof {
        assert(bytes.len() == bytes@.len());
        lemma_prev_lb(bytes@, byte_pos as int, false);
    }
//@end

//@item file=code/formatter/block_indent_remover.rs kind=struct name=BlockIndentRemover
//@fn id=block_indent_remover file=code/formatter/block_indent_remover.rs name=format in="impl BlockFormatter for BlockIndentRemover" props=C01,C02,C12,C14
//@ret r
//@ensures label=block_exact props=C12
    ranges_view(r@) == block_spec(content.spec_bytes(), start_byte_pos as int, end_byte_pos as int),
//@loop 1
//@invariant
    bytes@ == content.spec_bytes(),
    valid_utf8(bytes@),
    bytes@.len() <= isize::MAX,
    start_byte_pos < current_pos <= bytes@.len(),
    cb(bytes@, current_pos as int),
    current_pos > 0 && is_lf(bytes@[current_pos - 1]),
    indent_ofs <= start_byte_pos,
    indent_len <= bytes@.len(),
    end_byte_pos <= bytes@.len(),
    forall|i: int| 0 <= i < positions@.len() ==> start_byte_pos < (#[trigger] positions@[i]).start < positions@[i].end < current_pos
        && positions@[i].end <= end_byte_pos,
    forall|i: int| 0 <= i < positions@.len() ==> all_blank(bytes@, (#[trigger] positions@[i]).start as int, positions@[i].end as int),
    forall|i: int, j: int| 0 <= i < j < positions@.len() ==> (#[trigger] positions@[i]).end < (#[trigger] positions@[j]).start,
    ranges_view(positions@) + block_ranges(bytes@, current_pos as int, end_byte_pos as int, indent_ofs as int, indent_len as int)
        == block_ranges(bytes@, __first as int, end_byte_pos as int, indent_ofs as int, indent_len as int),
//@loop-ensures
    block_ranges(bytes@, current_pos as int, end_byte_pos as int, indent_ofs as int, indent_len as int) =~= Seq::<(int, int)>::empty(),
//@decreases
    bytes@.len() - current_pos
//@at loop 1 start
    broadcast use axiom_cmp_min_usize;
    let ghost __pos0 = positions@;
    proof {
        lemma_next_lb(bytes@, current_pos as int, false);
        lemma_char_pos(bytes@, current_pos as int);
    }
//@at before "if pos > end_byte_pos {"
    proof {
        lemma_ascii_is_boundary(bytes@, pos - 1);
        lemma_ascii_next_boundary(bytes@, pos - 1);
    }
//@at before "if let Some(indent_pos) = indent_pos {"
    proof {
        if indent_pos is Some {
            lemma_skippable_run_blank(bytes@, current_pos as int, indent_pos->0 as int);
        }
    }
//@at before "current_pos = pos;"
    proof {
        let lr = line_range(bytes@, current_pos as int, indent_ofs as int, indent_len as int);
        let l = match lr { Some(r) => seq![r], None => Seq::<(int, int)>::empty() };
        assert(ranges_view(positions@) =~= ranges_view(__pos0) + l);
        assert(block_ranges(bytes@, current_pos as int, end_byte_pos as int, indent_ofs as int, indent_len as int)
            == l + block_ranges(bytes@, pos as int, end_byte_pos as int, indent_ofs as int, indent_len as int));
        assert(ranges_view(positions@) + block_ranges(bytes@, pos as int, end_byte_pos as int, indent_ofs as int, indent_len as int)
            =~= ranges_view(__pos0) + block_ranges(bytes@, current_pos as int, end_byte_pos as int, indent_ofs as int, indent_len as int));
    }
//@at body-start
    broadcast use axiom_cmp_min_usize;
    proof {
        lemma_bytes_valid(content);
        axiom_str_len_isize(content);
    }
//@at before "let indent_ofs"
    proof {
        assert(bytes.len() == bytes@.len());
        lemma_prev_lb(bytes@, start_byte_pos as int, true);
        lemma_next_lb(bytes@, start_byte_pos as int, false);
    }
//@at before "let mut positions"
    proof {
        assert(ranges_view(Seq::<Range<usize>>::empty()) =~= Seq::<(int, int)>::empty());
    }
//@at before "let first_indent_len"
    let ghost __first = current_pos;
    proof {
        lemma_ascii_is_boundary(bytes@, current_pos - 1);
        lemma_ascii_next_boundary(bytes@, current_pos - 1);
    }
//@lettype positions type="Vec<Range<usize>>"
//@closure 1 params="v: usize" ret="ret: usize"
//@closure-requires
    v < usize::MAX,
//@closure-ensures
    ret == v + 1,
//@end
