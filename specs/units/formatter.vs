//@unit formatter
// L3 (second half): format_block and format of code/formatter.rs.

//@include formatter_vocab.vs
//@import trait_formatter
//@import trait_block_formatter
//@import merge_ranges
//@import merge_overlapped_ranges
//@include format_exact_vocab.vs

pub proof fn lemma_seam_boundaries(b: Seq<u8>, pos: int, lo: int, hi: int)
    requires valid_utf8(b), 0 <= lo <= pos <= hi <= b.len(), cb(b, pos), all_ws(b, lo, hi),
    ensures cb(b, lo), cb(b, hi),
{
    if lo < pos { assert(is_ws(b[lo])); lemma_ascii_is_boundary(b, lo); }
    if pos < hi { assert(is_ws(b[hi - 1])); lemma_ascii_is_boundary(b, hi - 1); lemma_ascii_next_boundary(b, hi - 1); }
}

//@fn id=format_block file=code/formatter.rs name=format_block props=C01,C02,C13,C14
//@ret r
//@requires
    pos <= content.spec_bytes().len(),
    cb(content.spec_bytes(), pos as int),
//@ensures label=format_block_hull props=C01,C02,C14
    seam_ok(content.spec_bytes(), pos as int, r),
//@ensures label=format_block_exact props=C13
    (r.start as int, r.end as int) == hull_spec(formatters@, content.spec_bytes(), pos as int, formatters@.len() as int),
//@fold 1 type="Range<usize>"
//@loop 1 iter=it
//@invariant
    pos <= content.spec_bytes().len(),
    cb(content.spec_bytes(), pos as int),
    __acc1.start <= pos <= __acc1.end <= content.spec_bytes().len(),
    all_ws(content.spec_bytes(), __acc1.start as int, __acc1.end as int),
    it.seq() == formatters@.as_ref(),
    (__acc1.start as int, __acc1.end as int) == hull_spec(formatters@, content.spec_bytes(), pos as int, it.index@),
//@at after-loop 1
    proof {
        lemma_bytes_valid(content);
        lemma_seam_boundaries(content.spec_bytes(), pos as int, __acc1.start as int, __acc1.end as int);
    }
//@end

pub proof fn lemma_elem_deleted(b: Seq<u8>, rp: Seq<RemovedMarker>, x: Range<usize>, p: int)
    requires elem_ok(b, rp, x), x.start <= p < x.end,
    ensures deleted_ok(b, rp, p),
{
    if exists|i: int| 0 <= i < rp.len() && seam_ok(b, (#[trigger] rp[i]).0 as int, x) {
        let i = choose|i: int| 0 <= i < rp.len() && seam_ok(b, (#[trigger] rp[i]).0 as int, x);
        assert(ws_connected(b, p, rp[i].0 as int));
    } else {
        let (i, j) = choose|i: int, j: int| #[trigger] is_pair(rp, i, j) && block_ok(b, rp[i].0 as int, rp[j].0 as int, x);
        assert(is_pair(rp, i, j) && rp[i].0 < p < rp[j].0 && 0 <= p < b.len() && is_blank(b[p]));
    }
}

pub open spec fn all_elem_ok(b: Seq<u8>, rp: Seq<RemovedMarker>, v: Seq<Range<usize>>) -> bool {
    forall|k: int| 0 <= k < v.len() ==> elem_ok(b, rp, #[trigger] v[k])
}

/// from the merged list m (all elements allowed) and its overlap-merged image w to the postcondition of format
pub proof fn lemma_format_post(b: Seq<u8>, rp: Seq<RemovedMarker>, m: Seq<Range<usize>>, w: Seq<Range<usize>>)
    requires
        valid_utf8(b), all_elem_ok(b, rp, m),
        rvalid(w), separated(w), ends_from(m, w),
        forall|p: int| covered(w, p) ==> covered(m, p),
    ensures
        wf_ranges(w, b),
        forall|p: int| #[trigger] covered(w, p) ==> deleted_ok(b, rp, p),
{
    assert forall|k: int| 0 <= k < m.len() implies (#[trigger] m[k]).start <= m[k].end <= b.len() && cb(b, m[k].start as int) && cb(b, m[k].end as int) by {
        assert(elem_ok(b, rp, m[k]));
    }
    assert forall|i: int| 0 <= i < w.len() implies (#[trigger] w[i]).start <= w[i].end <= b.len()
        && is_char_boundary(b, w[i].start as int) && is_char_boundary(b, w[i].end as int) by {
        let j = lemma_start_elim(m, m.len() as int, w[i].start);
        let k = lemma_end_elim(m, m.len() as int, w[i].end);
        assert(m[j].start <= m[j].end <= b.len());
        assert(m[k].start <= m[k].end <= b.len());
    }
    assert forall|p: int| #[trigger] covered(w, p) implies deleted_ok(b, rp, p) by {
        assert(covered(m, p));
        let k = choose|k: int| 0 <= k < m.len() && (#[trigger] m[k]).start <= p < m[k].end;
        lemma_elem_deleted(b, rp, m[k], p);
    }
}

pub proof fn lemma_rvalid_from_elems(b: Seq<u8>, rp: Seq<RemovedMarker>, m: Seq<Range<usize>>)
    requires all_elem_ok(b, rp, m),
    ensures rvalid(m),
{
    assert forall|k: int| 0 <= k < m.len() implies (#[trigger] m[k]).start <= m[k].end by {
        assert(elem_ok(b, rp, m[k]));
    }
}

//@fn id=format file=code/formatter.rs name=format props=C01,C02,C04,C12,C13,C14
//@ret out
//@requires
    forall|i: int| 0 <= i < removed_pos@.len() ==> (#[trigger] removed_pos@[i]).0 <= content.spec_bytes().len() && cb(content.spec_bytes(), removed_pos@[i].0 as int),
    forall|i: int| 0 <= i < removed_pos@.len() ==> ((#[trigger] removed_pos@[i]).1 matches Some(j) ==> j < removed_pos@.len()),
//@ensures label=format_identity props=C04
    removed_pos@.len() == 0 ==> out@ == content@,
//@ensures label=format_deletes_only_whitespace props=C01,C02,C14
    exists|w: Seq<Range<usize>>| format_post(content.spec_bytes(), removed_pos@, w, encode_utf8(out@)),
//@ensures label=format_deletes_exactly_seams_and_blocks props=C12,C13,C14
    exists|w: Seq<Range<usize>>| #[trigger] format_post(content.spec_bytes(), removed_pos@, w, encode_utf8(out@))
        && format_exact(formatters@, structure_formatters@, content.spec_bytes(), removed_pos@, w),
//@fold 1 type="Vec<Range<usize>>"
//@fold 2 type="String"
//@loop 1 iter=it
//@invariant
    forall|i: int| 0 <= i < removed_pos@.len() ==> (#[trigger] removed_pos@[i]).0 <= content.spec_bytes().len() && cb(content.spec_bytes(), removed_pos@[i].0 as int),
    forall|i: int| 0 <= i < removed_pos@.len() ==> ((#[trigger] removed_pos@[i]).1 matches Some(j) ==> j < removed_pos@.len()),
    it.seq() == removed_pos@.as_ref(),
    ranges@.len() == it.index@,
    all_elem_ok(content.spec_bytes(), removed_pos@, ranges@),
    all_elem_ok(content.spec_bytes(), removed_pos@, open_structure_remove_range@),
    ranges_view(ranges@) == seams(formatters@, content.spec_bytes(), removed_pos@, it.index@),
    ranges_view(open_structure_remove_range@) == all_blocks(structure_formatters@, content.spec_bytes(), removed_pos@, it.index@),
//@loop 2 iter=it2
//@invariant
    it2.seq() == structure_formatters@.as_ref(),
    ranges_view(__acc1@) == blocks_of(structure_formatters@, content.spec_bytes(), *pos as int, pair_start_pos as int, it2.index@),
    0 <= __i < removed_pos@.len() && 0 <= *pair_idx < removed_pos@.len(),
    removed_pos@[__i] == (*pos, Some(*pair_idx)),
    removed_pos@[*pair_idx as int].0 == pair_start_pos,
    *pos < pair_start_pos <= content.spec_bytes().len(),
    valid_utf8(content.spec_bytes()),
    forall|k: int| 0 <= k < __acc1@.len() ==> block_ok(content.spec_bytes(), *pos as int, pair_start_pos as int, #[trigger] __acc1@[k]),
//@loop 3 iter=it3
//@invariant
    wf_ranges(__w, content.spec_bytes()),
    it3.seq() == __w.reverse(),
    encode_utf8(__acc2@) == del_from(content.spec_bytes(), __w, __w.len() - it3.index@),
    __w.len() == 0 ==> __acc2@ == content@,
//@at loop 1 start
    let ghost __i = it.index@;
    proof { lemma_bytes_valid(content); }
//@at before "ranges.push(range);"
    let ghost __r0 = ranges@;
    let ghost __o0 = open_structure_remove_range@;
    proof {
        assert(seam_ok(content.spec_bytes(), removed_pos@[__i].0 as int, range));
        assert((range.start as int, range.end as int) == seam_rng(formatters@, content.spec_bytes(), removed_pos@, __i));
    }
//@at after "ranges.push(range);"
    proof {
        assert(ranges@ =~= __r0.push(range));
        assert forall|k: int| 0 <= k < __i + 1 implies ranges_view(ranges@)[k] == seams(formatters@, content.spec_bytes(), removed_pos@, __i + 1)[k] by {
            if k < __i { assert(ranges_view(__r0)[k] == seams(formatters@, content.spec_bytes(), removed_pos@, __i)[k]); }
        }
        assert(ranges_view(ranges@) =~= seams(formatters@, content.spec_bytes(), removed_pos@, __i + 1));
    }
//@at loop 1 end
    proof {
        let b = content.spec_bytes();
        assert(all_blocks(structure_formatters@, b, removed_pos@, __i + 1)
            == all_blocks(structure_formatters@, b, removed_pos@, __i) + pair_blocks(structure_formatters@, b, removed_pos@, __i));
        assert(removed_pos@[__i] == (*pos, *pair_idx));
        assert(ranges_view(open_structure_remove_range@) =~= all_blocks(structure_formatters@, b, removed_pos@, __i + 1));
    }
//@at loop 2 start
    broadcast use axiom_into_seq_vec;
    let ghost __v0 = __acc1@;
//@at loop 2 end
    proof {
        let b = content.spec_bytes();
        let k2 = it2.index@;
        assert(ranges_view(__acc1@) =~= ranges_view(__v0) + structure_formatters@[k2].spec_format(b, *pos as int, pair_start_pos as int));
        assert forall|k: int| 0 <= k < __acc1@.len() implies block_ok(b, *pos as int, pair_start_pos as int, #[trigger] __acc1@[k]) by {
            if k >= __v0.len() {
                let x = __acc1@[k];
                assert(is_blank(b[x.start as int]));
                lemma_ascii_is_boundary(b, x.start as int);
                assert(is_blank(b[x.end - 1]));
                lemma_ascii_is_boundary(b, x.end - 1);
                lemma_ascii_next_boundary(b, x.end - 1);
            }
        }
    }
//@at before "open_structure_remove_range.extend(ranges);"
    broadcast use axiom_into_seq_vec;
    proof {
        assert forall|k: int| 0 <= k < ranges@.len() implies elem_ok(content.spec_bytes(), removed_pos@, #[trigger] ranges@[k]) by {
            assert(is_pair(removed_pos@, __i, *pair_idx as int));
        }
    }
//@at after "open_structure_remove_range.extend(ranges);"
    proof {
        let b = content.spec_bytes();
        assert(ranges_view(open_structure_remove_range@) =~= ranges_view(__o0) + pair_blocks(structure_formatters@, b, removed_pos@, __i));
    }
//@at before "merge_ranges(&mut ranges, open_structure_remove_range);"
    let ghost __pre = ranges@;
    let ghost __open = open_structure_remove_range@;
//@at before "merge_overlapped_ranges(&mut ranges);"
    let ghost __m = ranges@;
    proof {
        let b = content.spec_bytes();
        assert(all_elem_ok(b, removed_pos@, __m)) by {
            if __pre.len() > 0 {
                assert forall|k: int| 0 <= k < __m.len() implies elem_ok(b, removed_pos@, #[trigger] __m[k]) by {
                    assert(__m.contains(__m[k]));
                    if __pre.contains(__m[k]) {
                        let q = choose|q: int| 0 <= q < __pre.len() && __pre[q] == __m[k];
                        assert(elem_ok(b, removed_pos@, __pre[q]));
                    } else {
                        let q = choose|q: int| 0 <= q < __open.len() && __open[q] == __m[k];
                        assert(elem_ok(b, removed_pos@, __open[q]));
                    }
                }
            }
        }
        lemma_rvalid_from_elems(b, removed_pos@, __m);
    }
//@at after "merge_overlapped_ranges(&mut ranges);"
    let ghost __w = ranges@;
    proof {
        lemma_bytes_valid(content);
        lemma_format_post(content.spec_bytes(), removed_pos@, __m, __w);
        lemma_del(content.spec_bytes(), __w, __w.len() as int);
        // exact deletion set, given sorted seam intervals
        let b = content.spec_bytes();
        let n = removed_pos@.len() as int;
        if seams_sorted(formatters@, b, removed_pos@) {
            assert(sorted_by_start(__pre)) by {
                assert forall|i: int, j: int| 0 <= i < j < __pre.len() implies (#[trigger] __pre[i]).start <= (#[trigger] __pre[j]).start by {
                    assert(ranges_view(__pre)[i] == seam_rng(formatters@, b, removed_pos@, i));
                    assert(ranges_view(__pre)[j] == seam_rng(formatters@, b, removed_pos@, j));
                }
            }
            assert forall|p: int| #[trigger] covered(__w, p) <==>
                (cov_pairs(seams(formatters@, b, removed_pos@, n), p) || cov_pairs(all_blocks(structure_formatters@, b, removed_pos@, n), p)) by {
                lemma_cov_view(__pre, p);
                lemma_cov_view(__open, p);
                if __pre.len() > 0 {
                    lemma_cov_members(__m, __pre, __open, p);
                } else {
                    assert(n == 0);
                    assert(__open.len() == 0);
                }
            }
        }
        assert(format_exact(formatters@, structure_formatters@, b, removed_pos@, __w));
    }
//@at loop 3 start
    broadcast use {axiom_rb_range_start, axiom_rb_range_end};
    let ghost __k = __w.len() - 1 - it3.index@;
    let ghost __before = encode_utf8(__acc2@);
    proof {
        lemma_bytes_valid(content);
        lemma_del(content.spec_bytes(), __w, __k + 1);
    }
//@at loop 3 end
    proof {
        reveal_strlit("");
        assert("".spec_bytes() =~= Seq::<u8>::empty());
        assert(encode_utf8(__acc2@) =~= __before.subrange(0, __w[__k].start as int) + __before.subrange(__w[__k].end as int, __before.len() as int));
    }
//@at after-loop 3
    proof {
        assert(format_post(content.spec_bytes(), removed_pos@, __w, encode_utf8(__acc2@)));
        assert(format_exact(formatters@, structure_formatters@, content.spec_bytes(), removed_pos@, __w));
    }
//@end
