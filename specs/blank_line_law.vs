// ---- C13: the a + b - 1 law for one block seam, over the exact results of the four seam formatters ----
pub open spec fn count_lf(b: Seq<u8>, lo: int, hi: int) -> nat
    decreases hi - lo,
{
    if hi <= lo { 0 } else { count_lf(b, lo, hi - 1) + (if is_lf(b[hi - 1]) { 1nat } else { 0nat }) }
}
/// hull of the four formatters' exact results at seam p (what format_block computes for the configured formatters)
pub open spec fn hull4(b: Seq<u8>, p: int) -> (int, int) {
    let r0 = indent_spec(b, p); let r1 = empty_line_spec(b, p); let r2 = prev_remover_spec(b, p); let r3 = next_remover_spec(b, p);
    let s0 = if r0.0 <= p { r0.0 } else { p }; let e0 = if r0.1 >= p { r0.1 } else { p };
    let s1 = if r1.0 <= s0 { r1.0 } else { s0 }; let e1 = if r1.1 >= e0 { r1.1 } else { e0 };
    let s2 = if r2.0 <= s1 { r2.0 } else { s1 }; let e2 = if r2.1 >= e1 { r2.1 } else { e1 };
    let s3 = if r3.0 <= s2 { r3.0 } else { s2 }; let e3 = if r3.1 >= e2 { r3.1 } else { e2 };
    (s3, e3)
}
/// the seam p is where a whole block whose tags stood alone on their lines was taken out: the line [ls, p] holds
/// indentation only and ends with the line break at p (ls >= 2: the line is not the first one, cf. known finding K2)
pub open spec fn block_seam(b: Seq<u8>, p: int, ls: int) -> bool {
    &&& 2 <= ls <= p < b.len()
    &&& is_lf(b[p]) && is_lf(b[ls - 1])
    &&& all_blank(b, ls, p)
}
/// a blank line stands directly before the seam line / directly after it
pub open spec fn blank_before(b: Seq<u8>, ls: int) -> bool { exists|q: int| #[trigger] prev_ok(b, ls - 1, q, true) }
pub open spec fn blank_after(b: Seq<u8>, p: int) -> bool { exists|r: int| #[trigger] next_ok(b, p + 1, r, true) }

pub proof fn lemma_count_lf_split(b: Seq<u8>, lo: int, mid: int, hi: int)
    requires lo <= mid <= hi,
    ensures count_lf(b, lo, hi) == count_lf(b, lo, mid) + count_lf(b, mid, hi),
    decreases hi - mid,
{
    if hi > mid { lemma_count_lf_split(b, lo, mid, hi - 1); }
}
pub proof fn lemma_count_lf_blank(b: Seq<u8>, lo: int, hi: int)
    requires 0 <= lo, hi <= b.len(), all_blank(b, lo, hi),
    ensures count_lf(b, lo, hi) == 0,
    decreases hi - lo,
{
    if hi > lo { lemma_count_lf_blank(b, lo, hi - 1); assert(is_blank(b[hi - 1])); }
}
pub proof fn lemma_count_lf_one(b: Seq<u8>, q: int)
    requires 0 <= q < b.len(), is_lf(b[q]),
    ensures count_lf(b, q, q + 1) == 1,
{
    assert(count_lf(b, q, q) == 0);
}
/// C13: with b blank lines directly before and a directly after the block, the whitespace pass takes out exactly
/// one line break - two if there are blank lines on both sides - and otherwise only blanks; each blank line and
/// the seam line hold one line break, so a + b - (1 if a > 0 and b > 0 else 0) blank lines remain.
pub proof fn lemma_blank_line_law(b: Seq<u8>, p: int, ls: int)
    requires block_seam(b, p, ls),
    ensures ({
        let h = hull4(b, p);
        &&& 0 <= h.0 <= p <= h.1 <= b.len()
        &&& count_lf(b, h.0, h.1) == (if blank_before(b, ls) && blank_after(b, p) { 2nat } else { 1nat })
        &&& forall|k: int| h.0 <= k < h.1 ==> is_ws(#[trigger] b[k])
        &&& (prev2(b, p) is Some) == blank_before(b, ls)
        &&& (next2(b, p) is Some) == blank_after(b, p)
    }),
{
    lemma_prev_lb(b, p, true);
    assert(prev_ok(b, p, ls - 1, true));
    assert(prev_lb(b, p, true) == Some(ls - 1));
    lemma_prev_lb(b, ls - 1, true);
    lemma_next_lb(b, p, true);
    assert(next_ok(b, p, p, true));
    assert(next_lb(b, p, true) == Some(p));
    lemma_next_lb(b, p + 1, true);
    assert(indent_ok(b, p, ls));
    let lsc = choose|l: int| indent_ok(b, p, l);
    lemma_indent_unique(b, p, ls, lsc);
    assert(indent_spec(b, p) == (ls, p));
    let h = hull4(b, p);
    lemma_count_lf_blank(b, ls, p);
    lemma_count_lf_one(b, p);
    lemma_count_lf_one(b, ls - 1);
    match (prev2(b, p), next2(b, p)) {
        (Some(q2), Some(r1)) => {
            assert(prev_ok(b, ls - 1, q2, true) && next_ok(b, p + 1, r1, true));
            assert(h == (q2 + 1, r1));
            lemma_count_lf_blank(b, q2 + 1, ls - 1);
            lemma_count_lf_blank(b, p + 1, r1);
            lemma_count_lf_split(b, q2 + 1, ls - 1, r1);
            lemma_count_lf_split(b, ls - 1, ls, r1);
            lemma_count_lf_split(b, ls, p, r1);
            lemma_count_lf_split(b, p, p + 1, r1);
        },
        (Some(q2), None) => {
            assert(prev_ok(b, ls - 1, q2, true));
            assert(h == (q2 + 1, p));
            lemma_count_lf_blank(b, q2 + 1, ls - 1);
            lemma_count_lf_split(b, q2 + 1, ls - 1, p);
            lemma_count_lf_split(b, ls - 1, ls, p);
        },
        (None, Some(r1)) => {
            assert(next_ok(b, p + 1, r1, true));
            assert(h == (ls, r1));
            lemma_count_lf_blank(b, p + 1, r1);
            lemma_count_lf_split(b, ls, p, r1);
            lemma_count_lf_split(b, p, p + 1, r1);
        },
        (None, None) => {
            assert(h == (ls, p + 1));
            lemma_count_lf_split(b, ls, p, p + 1);
        },
    }
    assert forall|k: int| h.0 <= k < h.1 implies is_ws(#[trigger] b[k]) by {
        if k == p || k == ls - 1 { } else if ls <= k < p { assert(is_blank(b[k])); }
        else if k < ls - 1 { let q2 = prev2(b, p)->0; assert(is_blank(b[k])); }
        else { let r1 = next2(b, p)->0; assert(is_blank(b[k])); }
    }
}
