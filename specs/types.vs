// ---- the crate's own data types, copied verbatim from /repo (module layout mirrors the crate) ----
pub mod tokenizer {
use super::*;
//@item file=tokenizer.rs kind=enum name=TokenKind
//@item file=tokenizer.rs kind=struct name=ElementToken
//@item file=tokenizer.rs kind=struct name=Token
}
pub mod element_parser {
use super::*;
use crate::tokenizer;
//@item file=element_parser.rs kind=struct name=Element
//@item file=element_parser.rs kind=struct name=Attribute
}
pub mod parser {
use super::*;
use crate::element_parser;
use crate::tokenizer;
//@item file=parser.rs kind=enum name=ContentPart
//@item file=parser.rs kind=struct name=Element
//@item file=parser.rs kind=struct name=Text
}
