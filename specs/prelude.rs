// ---- shared prelude of every generated Verus unit (DESIGN 3.3 / 3.4) ----
#![allow(unused_imports, unused_variables, unused_mut, dead_code, unused_parens, unused_braces, unreachable_code, unused_assignments)]
#![feature(allocator_api)]
use vstd::prelude::*;
use vstd::string::*;
use vstd::utf8::*;
use vstd::std_specs::iter::*;
use std::ops::Range;

verus! {

// ------------------------------------------------------------------ byte classes
pub open spec fn is_blank(b: u8) -> bool { b == 0x20u8 || b == 0x09u8 }
pub open spec fn is_lf(b: u8) -> bool { b == 0x0Au8 }
pub open spec fn is_ws(b: u8) -> bool { is_blank(b) || is_lf(b) }
pub open spec fn cb(b: Seq<u8>, p: int) -> bool { is_char_boundary(b, p) }

/// every byte of b[lo..hi) is a blank or a UTF-8 continuation position (the finders skip both)
pub open spec fn all_blank(b: Seq<u8>, lo: int, hi: int) -> bool {
    forall|k: int| lo <= k < hi && 0 <= k < b.len() ==> is_blank(#[trigger] b[k])
}
pub open spec fn all_ws(b: Seq<u8>, lo: int, hi: int) -> bool {
    forall|k: int| lo <= k < hi && 0 <= k < b.len() ==> is_ws(#[trigger] b[k])
}
pub open spec fn no_lf(b: Seq<u8>, lo: int, hi: int) -> bool {
    forall|k: int| lo <= k < hi && 0 <= k < b.len() ==> !is_lf(#[trigger] b[k])
}

// ------------------------------------------------------------------ UTF-8 facts (proved from vstd's definitions)
pub proof fn lemma_ascii_is_boundary(bytes: Seq<u8>, i: int)
    requires valid_utf8(bytes), 0 <= i < bytes.len(), bytes[i] < 0x80u8,
    ensures is_char_boundary(bytes, i),
{
    is_char_boundary_iff_not_is_continuation_byte(bytes, i);
}

pub proof fn lemma_ascii_next_boundary(bytes: Seq<u8>, i: int)
    requires valid_utf8(bytes), 0 <= i < bytes.len(), is_char_boundary(bytes, i), bytes[i] < 0x80u8,
    ensures is_char_boundary(bytes, i + 1),
{
    valid_utf8_split(bytes, i);
    let suffix = bytes.subrange(i, bytes.len() as int);
    assert(suffix[0] == bytes[i]);
    if i + 1 == bytes.len() {
        is_char_boundary_start_end_of_seq(bytes);
    } else {
        assert(is_leading_byte_width_1(suffix[0]));
        assert(is_char_boundary(pop_first_scalar(suffix), 0));
        assert(is_char_boundary(suffix, 1)) by { reveal_with_fuel(is_char_boundary, 3); }
        is_char_boundary_iff_not_is_continuation_byte(suffix, 1);
        assert(suffix[1] == bytes[i + 1]);
        is_char_boundary_iff_not_is_continuation_byte(bytes, i + 1);
    }
}

/// a non-boundary position holds a continuation byte (>= 0x80), hence neither blank nor line break
pub proof fn lemma_nonboundary_not_ascii(bytes: Seq<u8>, i: int)
    requires valid_utf8(bytes), 0 <= i < bytes.len(), !is_char_boundary(bytes, i),
    ensures bytes[i] >= 0x80u8,
{
    if bytes[i] < 0x80u8 { lemma_ascii_is_boundary(bytes, i); }
}

} // verus!
