// ---- shared prelude of every generated Verus unit (DESIGN 3.3 / 3.4) ----
#![allow(non_snake_case, unused_imports, unused_variables, unused_mut, dead_code, unused_parens, unused_braces, unreachable_code, unused_assignments)]
#![feature(allocator_api)]
use vstd::prelude::*;
use vstd::string::*;
use vstd::utf8::*;
use vstd::std_specs::iter::*;
use std::ops::Range;

verus! {

// ------------------------------------------------------------------ byte classes
pub open spec fn is_blank(b: u8) -> bool { b == 0x20u8 || b == 0x09u8 }
pub open spec fn is_lf(b: u8) -> bool { b == 0x0Au8 }
pub open spec fn is_ws(b: u8) -> bool { is_blank(b) || is_lf(b) }
pub open spec fn cb(b: Seq<u8>, p: int) -> bool { is_char_boundary(b, p) }

/// every byte of b[lo..hi) is a blank or a UTF-8 continuation position (the finders skip both)
pub open spec fn all_blank(b: Seq<u8>, lo: int, hi: int) -> bool {
    forall|k: int| lo <= k < hi && 0 <= k < b.len() ==> is_blank(#[trigger] b[k])
}
pub open spec fn all_ws(b: Seq<u8>, lo: int, hi: int) -> bool {
    forall|k: int| lo <= k < hi && 0 <= k < b.len() ==> is_ws(#[trigger] b[k])
}
pub open spec fn no_lf(b: Seq<u8>, lo: int, hi: int) -> bool {
    forall|k: int| lo <= k < hi && 0 <= k < b.len() ==> !is_lf(#[trigger] b[k])
}

// ------------------------------------------------------------------ UTF-8 facts (proved from vstd's definitions)
pub proof fn lemma_ascii_is_boundary(bytes: Seq<u8>, i: int)
    requires valid_utf8(bytes), 0 <= i < bytes.len(), bytes[i] < 0x80u8,
    ensures is_char_boundary(bytes, i),
{
    is_char_boundary_iff_not_is_continuation_byte(bytes, i);
}

pub proof fn lemma_ascii_next_boundary(bytes: Seq<u8>, i: int)
    requires valid_utf8(bytes), 0 <= i < bytes.len(), is_char_boundary(bytes, i), bytes[i] < 0x80u8,
    ensures is_char_boundary(bytes, i + 1),
{
    valid_utf8_split(bytes, i);
    let suffix = bytes.subrange(i, bytes.len() as int);
    assert(suffix[0] == bytes[i]);
    if i + 1 == bytes.len() {
        is_char_boundary_start_end_of_seq(bytes);
    } else {
        assert(is_leading_byte_width_1(suffix[0]));
        assert(is_char_boundary(pop_first_scalar(suffix), 0));
        assert(is_char_boundary(suffix, 1)) by { reveal_with_fuel(is_char_boundary, 3); }
        is_char_boundary_iff_not_is_continuation_byte(suffix, 1);
        assert(suffix[1] == bytes[i + 1]);
        is_char_boundary_iff_not_is_continuation_byte(bytes, i + 1);
    }
}

/// a non-boundary position holds a continuation byte (>= 0x80), hence neither blank nor line break
pub proof fn lemma_nonboundary_not_ascii(bytes: Seq<u8>, i: int)
    requires valid_utf8(bytes), 0 <= i < bytes.len(), !is_char_boundary(bytes, i),
    ensures bytes[i] >= 0x80u8,
{
    if bytes[i] < 0x80u8 { lemma_ascii_is_boundary(bytes, i); }
}

// ------------------------------------------------------------------ finder vocabulary (L0)
/// q is the line break `find_next_line_break_pos(.., p, pause)` must return
pub open spec fn next_ok(b: Seq<u8>, p: int, q: int, pause: bool) -> bool {
    &&& 0 < p <= q < b.len()
    &&& is_lf(b[q])
    &&& if pause { all_blank(b, p, q) } else { no_lf(b, p, q) }
}

/// q is the line break `find_prev_line_break_pos(.., p, pause)` must return (byte 0 is never examined)
pub open spec fn prev_ok(b: Seq<u8>, p: int, q: int, pause: bool) -> bool {
    &&& 0 < q < p <= b.len()
    &&& is_lf(b[q])
    &&& if pause { all_blank(b, q + 1, p) } else { no_lf(b, q + 1, p) }
}

/// a byte the finders step over: blank, or not the first byte of a character
pub open spec fn skippable(b: Seq<u8>, k: int) -> bool { is_blank(b[k]) || !cb(b, k) }

/// q is the position `find_next_char_pos(.., p)` must return
pub open spec fn charpos_ok(b: Seq<u8>, p: int, q: int) -> bool {
    &&& 0 < p <= q < b.len()
    &&& cb(b, q) && !is_blank(b[q])
    &&& forall|k: int| p <= k < q ==> skippable(b, k)
}

pub proof fn lemma_bytes_valid(content: &str)
    ensures valid_utf8(content.spec_bytes()),
{
    encode_utf8_valid_utf8(content@);
}


pub proof fn lemma_next_unique(b: Seq<u8>, p: int, q1: int, q2: int, pause: bool)
    requires next_ok(b, p, q1, pause), next_ok(b, p, q2, pause),
    ensures q1 == q2,
{
    if q1 < q2 { assert(is_lf(b[q1])); } else if q2 < q1 { assert(is_lf(b[q2])); }
}
pub proof fn lemma_prev_unique(b: Seq<u8>, p: int, q1: int, q2: int, pause: bool)
    requires prev_ok(b, p, q1, pause), prev_ok(b, p, q2, pause),
    ensures q1 == q2,
{
    if q1 < q2 { assert(is_lf(b[q2])); } else if q2 < q1 { assert(is_lf(b[q1])); }
}

/// the finders as spec functions (well defined because the witnesses are unique)
pub open spec fn next_lb(b: Seq<u8>, p: int, pause: bool) -> Option<int> {
    if exists|q: int| next_ok(b, p, q, pause) { Some(choose|q: int| next_ok(b, p, q, pause)) } else { None }
}
pub open spec fn prev_lb(b: Seq<u8>, p: int, pause: bool) -> Option<int> {
    if exists|q: int| prev_ok(b, p, q, pause) { Some(choose|q: int| prev_ok(b, p, q, pause)) } else { None }
}
pub proof fn lemma_next_lb(b: Seq<u8>, p: int, pause: bool)
    ensures
        match next_lb(b, p, pause) { Some(q) => next_ok(b, p, q, pause), None => forall|q: int| !next_ok(b, p, q, pause) },
        forall|q: int| #[trigger] next_ok(b, p, q, pause) ==> next_lb(b, p, pause) == Some(q),
{
    assert forall|q: int| #[trigger] next_ok(b, p, q, pause) implies next_lb(b, p, pause) == Some(q) by {
        lemma_next_unique(b, p, q, choose|q: int| next_ok(b, p, q, pause), pause);
    }
}
pub proof fn lemma_prev_lb(b: Seq<u8>, p: int, pause: bool)
    ensures
        match prev_lb(b, p, pause) { Some(q) => prev_ok(b, p, q, pause), None => forall|q: int| !prev_ok(b, p, q, pause) },
        forall|q: int| #[trigger] prev_ok(b, p, q, pause) ==> prev_lb(b, p, pause) == Some(q),
{
    assert forall|q: int| #[trigger] prev_ok(b, p, q, pause) implies prev_lb(b, p, pause) == Some(q) by {
        lemma_prev_unique(b, p, q, choose|q: int| prev_ok(b, p, q, pause), pause);
    }
}
} // verus!
verus! {
// ------------------------------------------------------------------ more L0 vocabulary
pub proof fn lemma_charpos_unique(b: Seq<u8>, p: int, q1: int, q2: int)
    requires charpos_ok(b, p, q1), charpos_ok(b, p, q2),
    ensures q1 == q2,
{
    if q1 < q2 { assert(skippable(b, q1)); } else if q2 < q1 { assert(skippable(b, q2)); }
}
pub open spec fn char_pos(b: Seq<u8>, p: int) -> Option<int> {
    if exists|q: int| charpos_ok(b, p, q) { Some(choose|q: int| charpos_ok(b, p, q)) } else { None }
}
pub proof fn lemma_char_pos(b: Seq<u8>, p: int)
    ensures
        match char_pos(b, p) { Some(q) => charpos_ok(b, p, q), None => forall|q: int| !charpos_ok(b, p, q) },
        forall|q: int| #[trigger] charpos_ok(b, p, q) ==> char_pos(b, p) == Some(q),
{
    assert forall|q: int| #[trigger] charpos_ok(b, p, q) implies char_pos(b, p) == Some(q) by {
        lemma_charpos_unique(b, p, q, choose|q: int| charpos_ok(b, p, q));
    }
}

/// starting on a character boundary, a run of skippable bytes consists of blanks only
pub proof fn lemma_skippable_run_blank(b: Seq<u8>, p: int, q: int)
    requires valid_utf8(b), 0 <= p <= q <= b.len(), cb(b, p), forall|k: int| p <= k < q ==> skippable(b, k),
    ensures all_blank(b, p, q), cb(b, q),
    decreases q - p,
{
    if p < q {
        assert(skippable(b, p));
        assert(is_blank(b[p]));
        lemma_ascii_next_boundary(b, p);
        lemma_skippable_run_blank(b, p + 1, q);
    }
}

/// Rust never allocates more than isize::MAX bytes (std guarantee for str / slices / Vec)
#[verifier::external_body]
pub proof fn axiom_str_len_isize(s: &str)
    ensures s.spec_bytes().len() <= isize::MAX,
{}
/// ASSUMED std contract (core::str, `Index<Range<usize>>`), target of extraction rule R14: `&s[a..b]` does not panic
/// when a <= b <= len and both ends are character boundaries (vstd's own precondition), and its bytes are bytes a..b of s
/// (vstd leaves the result unconstrained). The body is the operation itself.
#[verifier::external_body]
pub fn str_slice<'a>(s: &'a str, a: usize, b: usize) -> (r: &'a str)
    requires a <= b <= s.spec_bytes().len(), cb(s.spec_bytes(), a as int), cb(s.spec_bytes(), b as int),
    ensures r.spec_bytes() == s.spec_bytes().subrange(a as int, b as int),
{ &s[a..b] }
/// ASSUMED std contract (core::str, `Index<RangeFrom<usize>>`), target of R14: `&s[a..]`
#[verifier::external_body]
pub fn str_slice_from<'a>(s: &'a str, a: usize) -> (r: &'a str)
    requires a <= s.spec_bytes().len(), cb(s.spec_bytes(), a as int), cb(s.spec_bytes(), s.spec_bytes().len() as int),
    ensures r.spec_bytes() == s.spec_bytes().subrange(a as int, s.spec_bytes().len() as int),
{ &s[a..] }
} // verus!
verus! {
// ------------------------------------------------------------------ assumed std contracts (DESIGN 3.3)
pub uninterp spec fn spec_cmp_min<T>(a: T, b: T) -> T;
#[verifier::allow(undeclared_external_trait)]
pub assume_specification<T> [std::cmp::min] (_0: T, _1: T) -> (r: T)
    where T: std::cmp::Ord + std::marker::Destruct,
    ensures r == spec_cmp_min(_0, _1),
;
#[verifier::external_body]
pub broadcast proof fn axiom_cmp_min_usize(a: usize, b: usize)
    ensures #[trigger] spec_cmp_min(a, b) == (if a <= b { a } else { b }),
{}
} // verus!
verus! {
// ------------------------------------------------------------------ range-list vocabulary (DESIGN 3.4)
pub open spec fn rvalid(r: Seq<Range<usize>>) -> bool {
    forall|i: int| 0 <= i < r.len() ==> (#[trigger] r[i]).start <= r[i].end
}
/// strictly separated, ascending: no two ranges touch
pub open spec fn separated(r: Seq<Range<usize>>) -> bool {
    forall|i: int, j: int| 0 <= i < j < r.len() ==> (#[trigger] r[i]).end < (#[trigger] r[j]).start
}
pub open spec fn sorted_by_start(r: Seq<Range<usize>>) -> bool {
    forall|i: int, j: int| 0 <= i < j < r.len() ==> (#[trigger] r[i]).start <= (#[trigger] r[j]).start
}
pub open spec fn covered(r: Seq<Range<usize>>, p: int) -> bool {
    exists|i: int| 0 <= i < r.len() && (#[trigger] r[i]).start <= p < r[i].end
}
pub open spec fn covered_n(r: Seq<Range<usize>>, n: int, p: int) -> bool {
    exists|i: int| 0 <= i < n && i < r.len() && (#[trigger] r[i]).start <= p < r[i].end
}
pub open spec fn has_start_n(r: Seq<Range<usize>>, n: int, x: usize) -> bool {
    exists|j: int| 0 <= j < n && j < r.len() && (#[trigger] r[j]).start == x
}
pub open spec fn has_end_n(r: Seq<Range<usize>>, n: int, x: usize) -> bool {
    exists|j: int| 0 <= j < n && j < r.len() && (#[trigger] r[j]).end == x
}

pub proof fn lemma_cov_intro(r: Seq<Range<usize>>, n: int, i: int, p: int)
    requires 0 <= i < n, i < r.len(), r[i].start <= p < r[i].end,
    ensures covered_n(r, n, p),
{}
pub proof fn lemma_cov_elim(r: Seq<Range<usize>>, n: int, p: int) -> (i: int)
    requires covered_n(r, n, p),
    ensures 0 <= i < n, i < r.len(), r[i].start <= p < r[i].end,
{
    choose|i: int| 0 <= i < n && i < r.len() && (#[trigger] r[i]).start <= p < r[i].end
}
pub proof fn lemma_start_intro(r: Seq<Range<usize>>, n: int, j: int, x: usize)
    requires 0 <= j < n, j < r.len(), r[j].start == x,
    ensures has_start_n(r, n, x),
{}
pub proof fn lemma_start_elim(r: Seq<Range<usize>>, n: int, x: usize) -> (j: int)
    requires has_start_n(r, n, x),
    ensures 0 <= j < n, j < r.len(), r[j].start == x,
{
    choose|j: int| 0 <= j < n && j < r.len() && (#[trigger] r[j]).start == x
}
pub proof fn lemma_end_intro(r: Seq<Range<usize>>, n: int, j: int, x: usize)
    requires 0 <= j < n, j < r.len(), r[j].end == x,
    ensures has_end_n(r, n, x),
{}
pub proof fn lemma_end_elim(r: Seq<Range<usize>>, n: int, x: usize) -> (j: int)
    requires has_end_n(r, n, x),
    ensures 0 <= j < n, j < r.len(), r[j].end == x,
{
    choose|j: int| 0 <= j < n && j < r.len() && (#[trigger] r[j]).end == x
}

/// every start (end) of `out` is the start (end) of some range of `inp`
pub open spec fn ends_from(inp: Seq<Range<usize>>, out: Seq<Range<usize>>) -> bool {
    forall|i: int| 0 <= i < out.len() ==>
        has_start_n(inp, inp.len() as int, (#[trigger] out[i]).start) && has_end_n(inp, inp.len() as int, out[i].end)
}

pub assume_specification<Idx: Clone> [<Range<Idx> as Clone>::clone] (r: &Range<Idx>) -> (c: Range<Idx>)
    ensures c == *r;
} // verus!
verus! {
// ------------------------------------------------------------------ String::replace_range, Vec::extend (assumed std contracts)
pub uninterp spec fn rb_start<R>(r: R) -> int;
pub uninterp spec fn rb_end<R>(r: R) -> int;
#[verifier::external_body]
pub broadcast proof fn axiom_rb_range_start(r: Range<usize>)
    ensures #[trigger] rb_start(r) == r.start as int {}
#[verifier::external_body]
pub broadcast proof fn axiom_rb_range_end(r: Range<usize>)
    ensures #[trigger] rb_end(r) == r.end as int {}

pub assume_specification<R: std::ops::RangeBounds<usize>> [String::replace_range::<R>] (s: &mut String, range: R, replace_with: &str)
    requires
        0 <= rb_start(range) <= rb_end(range) <= encode_utf8(old(s)@).len(),
        is_char_boundary(encode_utf8(old(s)@), rb_start(range)),
        is_char_boundary(encode_utf8(old(s)@), rb_end(range)),
    ensures
        encode_utf8(final(s)@) == encode_utf8(old(s)@).subrange(0, rb_start(range)) + replace_with.spec_bytes() + encode_utf8(old(s)@).subrange(rb_end(range), encode_utf8(old(s)@).len() as int),
;

pub uninterp spec fn into_seq<I, T>(i: I) -> Seq<T>;
#[verifier::external_body]
pub broadcast proof fn axiom_into_seq_vec<T>(v: Vec<T>)
    ensures #[trigger] into_seq::<Vec<T>, T>(v) == v@ {}
pub assume_specification<T, A: std::alloc::Allocator, I: IntoIterator<Item = T>> [<Vec<T, A> as Extend<T>>::extend::<I>] (v: &mut Vec<T, A>, iter: I)
    ensures final(v)@ == old(v)@ + into_seq::<I, T>(iter),
;

// ------------------------------------------------------------------ deleting ranges from a byte string
/// ranges that String::replace_range may delete one by one from the back: in bounds, on character
/// boundaries, ascending and non-overlapping
pub open spec fn wf_ranges(r: Seq<Range<usize>>, b: Seq<u8>) -> bool {
    &&& forall|i: int| 0 <= i < r.len() ==> (#[trigger] r[i]).start <= r[i].end <= b.len()
    &&& forall|i: int| 0 <= i < r.len() ==> is_char_boundary(b, (#[trigger] r[i]).start as int) && is_char_boundary(b, r[i].end as int)
    &&& forall|i: int, j: int| 0 <= i < j < r.len() ==> (#[trigger] r[i]).end <= (#[trigger] r[j]).start
}

/// bytes left after deleting ranges k.. (from the back, exactly as the reverse replace_range loops do)
pub open spec fn del_from(b: Seq<u8>, r: Seq<Range<usize>>, k: int) -> Seq<u8>
    decreases r.len() - k
{
    if k >= r.len() || k < 0 { b } else {
        let rest = del_from(b, r, k + 1);
        rest.subrange(0, r[k].start as int) + rest.subrange(r[k].end as int, rest.len() as int)
    }
}

/// Deleting a boundary-delimited slice of valid UTF-8 leaves valid UTF-8, and positions <= lo keep their boundary status.
pub proof fn lemma_cut_valid(r: Seq<u8>, lo: int, hi: int)
    requires valid_utf8(r), 0 <= lo <= hi <= r.len(), cb(r, lo), cb(r, hi),
    ensures
        valid_utf8(r.subrange(0, lo) + r.subrange(hi, r.len() as int)),
        forall|p: int| 0 <= p <= lo && cb(r, p) ==> #[trigger] cb(r.subrange(0, lo) + r.subrange(hi, r.len() as int), p),
{
    let a = r.subrange(0, lo);
    let c = r.subrange(hi, r.len() as int);
    valid_utf8_split(r, lo);
    valid_utf8_split(r, hi);
    valid_utf8_concat(a, c);
    let out = a + c;
    assert forall|p: int| 0 <= p <= lo && cb(r, p) implies #[trigger] cb(out, p) by {
        if p == out.len() {
            is_char_boundary_start_end_of_seq(out);
        } else if p == 0 {
            is_char_boundary_start_end_of_seq(out);
        } else if p < lo {
            is_char_boundary_iff_not_is_continuation_byte(r, p);
            assert(out[p] == r[p]);
            is_char_boundary_iff_not_is_continuation_byte(out, p);
        } else {
            assert(out[p] == r[hi]);
            is_char_boundary_iff_not_is_continuation_byte(r, hi);
            is_char_boundary_iff_not_is_continuation_byte(out, p);
        }
    }
}

pub proof fn lemma_del(b: Seq<u8>, m: Seq<Range<usize>>, k: int)
    requires valid_utf8(b), wf_ranges(m, b), 0 <= k <= m.len(),
    ensures
        valid_utf8(del_from(b, m, k)),
        k < m.len() ==> del_from(b, m, k).len() >= m[k].start,
        k == m.len() ==> del_from(b, m, k) == b,
        k > 0 ==> del_from(b, m, k).len() >= m[k - 1].end && cb(del_from(b, m, k), m[k - 1].start as int) && cb(del_from(b, m, k), m[k - 1].end as int),
        forall|p: int| 0 <= p && (k < m.len() ==> p < m[k].start) && (k == m.len() ==> p < b.len())
            ==> p < del_from(b, m, k).len() && #[trigger] del_from(b, m, k)[p] == b[p],
        forall|p: int| 0 <= p && (k < m.len() ==> p <= m[k].start) && (k == m.len() ==> p <= b.len()) && cb(b, p)
            ==> #[trigger] cb(del_from(b, m, k), p),
    decreases m.len() - k
{
    if k < m.len() {
        lemma_del(b, m, k + 1);
        let rest = del_from(b, m, k + 1);
        if k + 1 < m.len() {
            assert(m[k].end <= m[k + 1].start);
        }
        assert(cb(rest, m[k].start as int));
        assert(cb(rest, m[k].end as int));
        assert(rest.len() >= m[k].end) by {
            if k + 1 < m.len() { } else { }
        }
        lemma_cut_valid(rest, m[k].start as int, m[k].end as int);
        if k > 0 {
            assert(m[k - 1].end <= m[k].start);
        }
    } else {
        if k > 0 { }
    }
}
} // verus!
verus! {
/// what the whitespace pass may rely on: ascending, separated, blank-only ranges strictly inside (s, e)
pub open spec fn ranges_view(v: Seq<Range<usize>>) -> Seq<(int, int)> {
    Seq::new(v.len(), |i: int| (v[i].start as int, v[i].end as int))
}
pub open spec fn block_safe(b: Seq<u8>, s: int, e: int, v: Seq<Range<usize>>) -> bool {
    &&& forall|i: int| 0 <= i < v.len() ==> s < (#[trigger] v[i]).start < v[i].end <= e && v[i].end <= b.len()
    &&& forall|i: int| 0 <= i < v.len() ==> all_blank(b, (#[trigger] v[i]).start as int, v[i].end as int)
    &&& forall|i: int, j: int| 0 <= i < j < v.len() ==> (#[trigger] v[i]).end < (#[trigger] v[j]).start
}

} // verus!
verus! {
// ------------------------------------------------------------------ marker vocabulary (L4)
/// total length of the first k marker ranges
pub open spec fn removed_before(m: Seq<(Range<usize>, Option<usize>)>, k: int) -> int
    decreases k
{
    if k <= 0 { 0 } else { removed_before(m, k - 1) + (m[k - 1].0.end - m[k - 1].0.start) }
}
} // verus!
verus! {
pub open spec fn rcontains(m: Range<usize>, x: usize) -> bool { m.start <= x < m.end }
/// merge_child_markers' test: the child's start or end lies in the (half-open) marker
pub open spec fn touches(m: Range<usize>, c: Range<usize>) -> bool { rcontains(m, c.start) || rcontains(m, c.end) }
pub open spec fn hull(m: Range<usize>, c: Range<usize>) -> Range<usize> {
    Range { start: if m.start <= c.start { m.start } else { c.start }, end: if m.end >= c.end { m.end } else { c.end } }
}
/// (number of leading items merged, resulting marker) of merge_child_markers
pub open spec fn mcm(s: Seq<Range<usize>>, m: Range<usize>) -> (int, Range<usize>)
    decreases s.len()
{
    if s.len() == 0 { (0, m) }
    else if touches(m, s[0]) { let r = mcm(s.drop_first(), hull(m, s[0])); (r.0 + 1, r.1) }
    else { (0, m) }
}
pub open spec fn marker_ranges(m: Seq<(Range<usize>, Option<usize>)>) -> Seq<Range<usize>> {
    Seq::new(m.len(), |i: int| m[i].0)
}
pub open spec fn marker_ref_ranges(m: Seq<&(Range<usize>, Option<usize>)>) -> Seq<Range<usize>> {
    Seq::new(m.len(), |i: int| (*m[i]).0)
}
} // verus!
verus! {
pub assume_specification [String::as_bytes] (s: &String) -> (r: &[u8])
    ensures r@ == encode_utf8(s@);
pub assume_specification<T: ?Sized, A: std::alloc::Allocator> [<std::rc::Rc<T, A> as AsRef<T>>::as_ref] (s: &std::rc::Rc<T, A>) -> (r: &T)
    ensures r == &**s;
pub open spec fn next2f(b: Seq<u8>, p: int) -> Option<int> {
    match next_lb(b, p, false) { Some(q1) => next_lb(b, q1 + 1, false), None => None }
}
pub open spec fn prev2f(b: Seq<u8>, p: int) -> Option<int> {
    match prev_lb(b, p, false) { Some(q1) => prev_lb(b, q1, false), None => None }
}
} // verus!
verus! {
// unambiguous access to vstd's prophetic iterator model
#[verifier::prophetic]
pub open spec fn it_rem<I: Iterator>(it: I) -> Seq<I::Item> { IteratorSpec::remaining(&it) }
#[verifier::prophetic]
pub open spec fn it_ok<I: Iterator>(it: I) -> bool { IteratorSpec::obeys_prophetic_iter_laws(&it) && IteratorSpec::decrease(&it) is Some }
} // verus!
verus! {
// ------------------------------------------------------------------ HashSet<String> looked up by &str (assumed std semantics)
#[verifier::external_body]
pub broadcast proof fn axiom_string_key_model()
    ensures #[trigger] vstd::std_specs::hash::obeys_key_model::<String>() {}
#[verifier::external_body]
pub broadcast proof fn axiom_set_contains_str(m: Set<String>, k: &str)
    ensures #[trigger] vstd::std_specs::hash::set_contains_borrowed_key::<String, str>(m, k) <==> (exists|s: String| #[trigger] m.contains(s) && s@ == k@) {}
pub open spec fn set_has_str(m: Set<String>, k: Seq<char>) -> bool { exists|s: String| #[trigger] m.contains(s) && s@ == k }
} // verus!
verus! {
// ------------------------------------------------------------------ HashMap<String, V> looked up by &str (assumed std semantics)
pub uninterp spec fn str_lookup<V>(m: Map<String, V>, k: Seq<char>) -> Option<V>;
#[verifier::external_body]
pub broadcast proof fn axiom_map_contains_str<V>(m: Map<String, V>, k: &str)
    ensures #[trigger] vstd::std_specs::hash::contains_borrowed_key::<String, V, str>(m, k) <==> str_lookup(m, k@) is Some {}
#[verifier::external_body]
pub broadcast proof fn axiom_map_maps_str<V>(m: Map<String, V>, k: &str, v: V)
    ensures #[trigger] vstd::std_specs::hash::maps_borrowed_key_to_value::<String, V, str>(m, k, v) <==> str_lookup(m, k@) == Some(v) {}
} // verus!
verus! {
pub uninterp spec fn spec_range_is_empty<Idx>(r: Range<Idx>) -> bool;
pub assume_specification<Idx> [std::ops::Range::<Idx>::is_empty] (_0: &std::ops::Range<Idx>) -> (r: bool)
    where Idx: std::cmp::PartialOrd + std::cmp::PartialOrd,
    ensures r == spec_range_is_empty(*_0),
;
#[verifier::external_body]
pub broadcast proof fn axiom_range_is_empty_usize(r: Range<usize>)
    ensures #[trigger] spec_range_is_empty(r) == !(r.start < r.end),
{}
} // verus!
verus! {
// ------------------------------------------------------------------ str::char_indices (assumed std contract)
#[verifier::external_type_specification]
#[verifier::external_body]
pub struct ExCharIndices<'a>(std::str::CharIndices<'a>);

/// byte offset of the i-th character
pub open spec fn char_byte_pos(c: Seq<char>, i: int) -> int { encode_utf8(c.take(i)).len() as int }
pub open spec fn char_index_seq(c: Seq<char>) -> Seq<(usize, char)> {
    Seq::new(c.len(), |i: int| (char_byte_pos(c, i) as usize, c[i]))
}
pub assume_specification<'a> [str::char_indices] (s: &'a str) -> (r: std::str::CharIndices<'a>)
    ensures
        IteratorSpec::remaining(&r) == char_index_seq(s@),
        IteratorSpec::obeys_prophetic_iter_laws(&r),
        IteratorSpec::decrease(&r) is Some,
;
} // verus!
verus! {
// ------------------------------------------------------------------ character offsets (proved from vstd::utf8)
pub proof fn lemma_char_pos_mono(c: Seq<char>, i: int, j: int)
    requires 0 <= i <= j <= c.len(),
    ensures char_byte_pos(c, i) <= char_byte_pos(c, j) <= encode_utf8(c).len(),
            char_byte_pos(c, c.len() as int) == encode_utf8(c).len(), char_byte_pos(c, 0) == 0,
            i < j ==> char_byte_pos(c, i) < char_byte_pos(c, j),
{
    assert(c.take(j) =~= c.take(i) + c.subrange(i, j));
    encode_utf8_concat(c.take(i), c.subrange(i, j));
    assert(c =~= c.take(j) + c.subrange(j, c.len() as int));
    encode_utf8_concat(c.take(j), c.subrange(j, c.len() as int));
    assert(c.take(c.len() as int) =~= c);
    assert(c.take(0) =~= Seq::<char>::empty());
    assert(encode_utf8(Seq::<char>::empty()).len() == 0) by { reveal_with_fuel(encode_utf8, 2); }
    if i < j {
        lemma_encode_nonempty(c.subrange(i, j));
    }
}
/// the bytes between two character positions are the encoding of the characters between them
pub proof fn lemma_bytes_of_chars(c: Seq<char>, i: int, j: int)
    requires 0 <= i <= j <= c.len(),
    ensures encode_utf8(c).subrange(char_byte_pos(c, i), char_byte_pos(c, j)) == encode_utf8(c.subrange(i, j)),
{
    lemma_char_pos_mono(c, i, j);
    assert(c.take(j) =~= c.take(i) + c.subrange(i, j));
    encode_utf8_concat(c.take(i), c.subrange(i, j));
    assert(c =~= c.take(j) + c.subrange(j, c.len() as int));
    encode_utf8_concat(c.take(j), c.subrange(j, c.len() as int));
    assert(encode_utf8(c).subrange(char_byte_pos(c, i), char_byte_pos(c, j)) =~= encode_utf8(c.subrange(i, j)));
}
/// UTF-8 encoding is injective (vstd: decode_utf8 inverts encode_utf8)
pub proof fn lemma_encode_inj(x: Seq<char>, y: Seq<char>)
    requires encode_utf8(x) == encode_utf8(y),
    ensures x == y,
{
    encode_utf8_decode_utf8(x);
    encode_utf8_decode_utf8(y);
}
/// every character encodes to at least one byte
pub proof fn lemma_chars_le_bytes(cs: Seq<char>, n: int)
    requires 0 <= n <= cs.len(),
    ensures n <= char_byte_pos(cs, n),
    decreases n,
{
    if n > 0 {
        lemma_chars_le_bytes(cs, n - 1);
        lemma_char_pos_mono(cs, n - 1, n);
    } else {
        lemma_char_pos_mono(cs, 0, 0);
    }
}
pub proof fn lemma_encode_nonempty(c: Seq<char>)
    requires c.len() > 0,
    ensures encode_utf8(c).len() >= c.len(),
    decreases c.len(),
{
    assert(c =~= seq![c[0]] + c.drop_first());
    encode_utf8_concat(seq![c[0]], c.drop_first());
    lemma_encode_one(c[0]);
    if c.len() > 1 { lemma_encode_nonempty(c.drop_first()); }
    else {
        assert(c.drop_first() =~= Seq::<char>::empty());
    }
}
pub proof fn lemma_encode_one(ch: char)
    ensures encode_utf8(seq![ch]).len() >= 1,
{
    reveal_with_fuel(encode_utf8, 3);
    assert(seq![ch].drop_first() =~= Seq::<char>::empty());
}
/// the byte offset of every character (and the end) is a character boundary
pub proof fn lemma_char_pos_boundary(c: Seq<char>, i: int)
    requires 0 <= i <= c.len(),
    ensures is_char_boundary(encode_utf8(c), char_byte_pos(c, i)),
{
    let a = c.take(i);
    let b = c.subrange(i, c.len() as int);
    assert(c =~= a + b);
    encode_utf8_concat(a, b);
    encode_utf8_valid_utf8(c);
    encode_utf8_valid_utf8(b);
    let bytes = encode_utf8(c);
    let n = encode_utf8(a).len() as int;
    if n == bytes.len() || n == 0 {
        is_char_boundary_start_end_of_seq(bytes);
    } else {
        let eb = encode_utf8(b);
        is_char_boundary_start_end_of_seq(eb);
        is_char_boundary_iff_not_is_continuation_byte(eb, 0);
        assert(bytes[n] == eb[0]);
        is_char_boundary_iff_not_is_continuation_byte(bytes, n);
    }
}
} // verus!
verus! {
// ------------------------------------------------------------------ str::trim_start_matches / trim_end_matches (assumed std contracts)
pub uninterp spec fn spec_trim_start<P>(s: Seq<char>, p: P) -> Seq<char>;
pub uninterp spec fn spec_trim_end<P>(s: Seq<char>, p: P) -> Seq<char>;
#[verifier::allow(undeclared_external_trait)]
pub assume_specification<'a, P: std::str::pattern::Pattern> [str::trim_start_matches::<P>] (s: &'a str, pat: P) -> (r: &'a str)
    ensures r@ == spec_trim_start(s@, pat);
#[verifier::allow(undeclared_external_trait)]
pub assume_specification<'a, P: std::str::pattern::Pattern> [str::trim_end_matches::<P>] (s: &'a str, pat: P) -> (r: &'a str)
    where for<'b> <P as std::str::pattern::Pattern>::Searcher<'b>: std::str::pattern::ReverseSearcher<'b>,
    ensures r@ == spec_trim_end(s@, pat);
/// repeated removal of a non-empty prefix / suffix
pub open spec fn strip_prefixes(s: Seq<char>, p: Seq<char>) -> Seq<char>
    decreases s.len(),
{
    if p.len() > 0 && s.len() >= p.len() && s.take(p.len() as int) == p { strip_prefixes(s.skip(p.len() as int), p) } else { s }
}
pub open spec fn strip_suffixes(s: Seq<char>, p: Seq<char>) -> Seq<char>
    decreases s.len(),
{
    if p.len() > 0 && s.len() >= p.len() && s.skip(s.len() - p.len()) == p { strip_suffixes(s.take(s.len() - p.len()), p) } else { s }
}
#[verifier::external_body]
pub broadcast proof fn axiom_trim_start_str(s: Seq<char>, p: &str)
    ensures #[trigger] spec_trim_start(s, p) == strip_prefixes(s, p@) {}
#[verifier::external_body]
pub broadcast proof fn axiom_trim_end_str(s: Seq<char>, p: &str)
    ensures #[trigger] spec_trim_end(s, p) == strip_suffixes(s, p@) {}
} // verus!
verus! {
// ------------------------------------------------------------------ seam positions in the string after deletion
// (cutting a boundary-delimited slice out of valid UTF-8 moves later boundaries left and keeps them boundaries;
//  seam k then sits at m[k].start - (total length of the ranges before it))
pub open spec fn len_between(m: Seq<Range<usize>>, j: int, k: int) -> int
    decreases k - j
{
    if j >= k { 0 } else { (m[j].end - m[j].start) + len_between(m, j + 1, k) }
}
pub proof fn lemma_cut_shift(r: Seq<u8>, lo: int, hi: int)
    requires valid_utf8(r), 0 <= lo <= hi <= r.len(), cb(r, lo), cb(r, hi),
    ensures
        valid_utf8(r.subrange(0, lo) + r.subrange(hi, r.len() as int)),
        forall|p: int| hi <= p <= r.len() && cb(r, p) ==> #[trigger] cb(r.subrange(0, lo) + r.subrange(hi, r.len() as int), p - (hi - lo)),
{
    let a = r.subrange(0, lo);
    let c = r.subrange(hi, r.len() as int);
    valid_utf8_split(r, lo);
    valid_utf8_split(r, hi);
    valid_utf8_concat(a, c);
    let out = a + c;
    assert forall|p: int| hi <= p <= r.len() && cb(r, p) implies #[trigger] cb(out, p - (hi - lo)) by {
        let q = p - (hi - lo);
        if q == out.len() || q == 0 {
            is_char_boundary_start_end_of_seq(out);
        } else {
            assert(out[q] == r[p]);
            is_char_boundary_iff_not_is_continuation_byte(r, p);
            is_char_boundary_iff_not_is_continuation_byte(out, q);
        }
    }
}
pub proof fn lemma_len_between_bound(m: Seq<Range<usize>>, b: Seq<u8>, j: int, k: int)
    requires wf_ranges(m, b), 0 <= j <= k < m.len(),
    ensures m[j].start + len_between(m, j, k) <= m[k].start, len_between(m, j, k) >= 0,
    decreases k - j,
{
    if j < k {
        lemma_len_between_bound(m, b, j + 1, k);
        assert(m[j].end <= m[j + 1].start);
    }
}
pub proof fn lemma_seam_pos(b: Seq<u8>, m: Seq<Range<usize>>, j: int, k: int)
    requires valid_utf8(b), wf_ranges(m, b), 0 <= j <= k < m.len(),
    ensures
        0 <= m[k].start - len_between(m, j, k) <= del_from(b, m, j).len(),
        cb(del_from(b, m, j), m[k].start - len_between(m, j, k)),
    decreases k - j,
{
    lemma_len_between_bound(m, b, j, k);
    if j == k {
        lemma_del(b, m, k);
        assert(cb(b, m[k].start as int));
        assert(len_between(m, k, k) == 0);
        assert(cb(del_from(b, m, k), m[k].start as int));
    } else {
        lemma_seam_pos(b, m, j + 1, k);
        lemma_del(b, m, j + 1);
        let d = del_from(b, m, j + 1);
        let lo = m[j].start as int; let hi = m[j].end as int;
        let p = m[k].start - len_between(m, j + 1, k);
        lemma_len_between_bound(m, b, j + 1, k);
        assert(m[j].end <= m[j + 1].start);
        assert(hi <= p);
        lemma_cut_shift(d, lo, hi);
        let out = d.subrange(0, lo) + d.subrange(hi, d.len() as int);
        assert(del_from(b, m, j) == out);
        assert(cb(d, p) && hi <= p <= d.len());
        assert(cb(out, p - (hi - lo)));
        assert(len_between(m, j, k) == (hi - lo) + len_between(m, j + 1, k));
    }
}
pub proof fn lemma_len_between_last(m: Seq<Range<usize>>, j: int, k: int)
    requires 0 <= j <= k < m.len(),
    ensures len_between(m, j, k + 1) == len_between(m, j, k) + (m[k].end - m[k].start),
    decreases k - j,
{
    if j < k { lemma_len_between_last(m, j + 1, k); }
    else { assert(len_between(m, k + 1, k + 1) == 0); }
}
pub proof fn lemma_removed_before_is_len_between(m: Seq<(Range<usize>, Option<usize>)>, k: int)
    requires 0 <= k <= m.len(),
    ensures removed_before(m, k) == len_between(marker_ranges(m), 0, k),
    decreases k,
{
    if k > 0 {
        lemma_removed_before_is_len_between(m, k - 1);
        lemma_len_between_last(marker_ranges(m), 0, k - 1);
        assert(marker_ranges(m)[k - 1] == m[k - 1].0);
    }
}
} // verus!
verus! {
// ------------------------------------------------------------------ HashMap<String, V> built by insert (assumed std semantics, cf. str_lookup)
#[verifier::external_body]
pub broadcast proof fn axiom_str_lookup_empty<V>(k: Seq<char>)
    ensures #[trigger] str_lookup(Map::<String, V>::empty(), k) == None::<V> {}
#[verifier::external_body]
pub broadcast proof fn axiom_str_lookup_insert<V>(m: Map<String, V>, key: String, v: V, k: Seq<char>)
    ensures #[trigger] str_lookup(m.insert(key, v), k) == (if key@ == k { Some(v) } else { str_lookup(m, k) }) {}
} // verus!
verus! {
#[verifier::external_body]
pub proof fn axiom_string_len_isize(s: &String)
    ensures encode_utf8(s@).len() <= isize::MAX,
{}
/// Rust never allocates more than isize::MAX bytes (the String behind an Rc is such an allocation)
#[verifier::external_body]
pub proof fn axiom_rc_string_len_isize(s: std::rc::Rc<String>)
    ensures encode_utf8(s@).len() <= isize::MAX,
{}
} // verus!
verus! {
pub uninterp spec fn spec_starts_with<P>(s: Seq<char>, p: P) -> bool;
#[verifier::allow(undeclared_external_trait)]
pub assume_specification<P: std::str::pattern::Pattern> [str::starts_with::<P>] (s: &str, pat: P) -> (r: bool)
    ensures r == spec_starts_with(s@, pat);
#[verifier::external_body]
pub broadcast proof fn axiom_starts_with_str(s: Seq<char>, p: &str)
    ensures #[trigger] spec_starts_with(s, p) == (s.len() >= p@.len() && s.take(p@.len() as int) == p@) {}
} // verus!
