// ---- shared prelude of every generated Verus unit (DESIGN 3.3 / 3.4) ----
#![allow(unused_imports, unused_variables, unused_mut, dead_code, unused_parens, unused_braces, unreachable_code, unused_assignments)]
#![feature(allocator_api)]
use vstd::prelude::*;
use vstd::string::*;
use vstd::utf8::*;
use vstd::std_specs::iter::*;
use std::ops::Range;

verus! {

// ------------------------------------------------------------------ byte classes
pub open spec fn is_blank(b: u8) -> bool { b == 0x20u8 || b == 0x09u8 }
pub open spec fn is_lf(b: u8) -> bool { b == 0x0Au8 }
pub open spec fn is_ws(b: u8) -> bool { is_blank(b) || is_lf(b) }
pub open spec fn cb(b: Seq<u8>, p: int) -> bool { is_char_boundary(b, p) }

/// every byte of b[lo..hi) is a blank or a UTF-8 continuation position (the finders skip both)
pub open spec fn all_blank(b: Seq<u8>, lo: int, hi: int) -> bool {
    forall|k: int| lo <= k < hi && 0 <= k < b.len() ==> is_blank(#[trigger] b[k])
}
pub open spec fn all_ws(b: Seq<u8>, lo: int, hi: int) -> bool {
    forall|k: int| lo <= k < hi && 0 <= k < b.len() ==> is_ws(#[trigger] b[k])
}
pub open spec fn no_lf(b: Seq<u8>, lo: int, hi: int) -> bool {
    forall|k: int| lo <= k < hi && 0 <= k < b.len() ==> !is_lf(#[trigger] b[k])
}

// ------------------------------------------------------------------ UTF-8 facts (proved from vstd's definitions)
pub proof fn lemma_ascii_is_boundary(bytes: Seq<u8>, i: int)
    requires valid_utf8(bytes), 0 <= i < bytes.len(), bytes[i] < 0x80u8,
    ensures is_char_boundary(bytes, i),
{
    is_char_boundary_iff_not_is_continuation_byte(bytes, i);
}

pub proof fn lemma_ascii_next_boundary(bytes: Seq<u8>, i: int)
    requires valid_utf8(bytes), 0 <= i < bytes.len(), is_char_boundary(bytes, i), bytes[i] < 0x80u8,
    ensures is_char_boundary(bytes, i + 1),
{
    valid_utf8_split(bytes, i);
    let suffix = bytes.subrange(i, bytes.len() as int);
    assert(suffix[0] == bytes[i]);
    if i + 1 == bytes.len() {
        is_char_boundary_start_end_of_seq(bytes);
    } else {
        assert(is_leading_byte_width_1(suffix[0]));
        assert(is_char_boundary(pop_first_scalar(suffix), 0));
        assert(is_char_boundary(suffix, 1)) by { reveal_with_fuel(is_char_boundary, 3); }
        is_char_boundary_iff_not_is_continuation_byte(suffix, 1);
        assert(suffix[1] == bytes[i + 1]);
        is_char_boundary_iff_not_is_continuation_byte(bytes, i + 1);
    }
}

/// a non-boundary position holds a continuation byte (>= 0x80), hence neither blank nor line break
pub proof fn lemma_nonboundary_not_ascii(bytes: Seq<u8>, i: int)
    requires valid_utf8(bytes), 0 <= i < bytes.len(), !is_char_boundary(bytes, i),
    ensures bytes[i] >= 0x80u8,
{
    if bytes[i] < 0x80u8 { lemma_ascii_is_boundary(bytes, i); }
}

// ------------------------------------------------------------------ finder vocabulary (L0)
/// q is the line break `find_next_line_break_pos(.., p, pause)` must return
pub open spec fn next_ok(b: Seq<u8>, p: int, q: int, pause: bool) -> bool {
    &&& 0 < p <= q < b.len()
    &&& is_lf(b[q])
    &&& if pause { all_blank(b, p, q) } else { no_lf(b, p, q) }
}

/// q is the line break `find_prev_line_break_pos(.., p, pause)` must return (byte 0 is never examined)
pub open spec fn prev_ok(b: Seq<u8>, p: int, q: int, pause: bool) -> bool {
    &&& 0 < q < p <= b.len()
    &&& is_lf(b[q])
    &&& if pause { all_blank(b, q + 1, p) } else { no_lf(b, q + 1, p) }
}

/// a byte the finders step over: blank, or not the first byte of a character
pub open spec fn skippable(b: Seq<u8>, k: int) -> bool { is_blank(b[k]) || !cb(b, k) }

/// q is the position `find_next_char_pos(.., p)` must return
pub open spec fn charpos_ok(b: Seq<u8>, p: int, q: int) -> bool {
    &&& 0 < p <= q < b.len()
    &&& cb(b, q) && !is_blank(b[q])
    &&& forall|k: int| p <= k < q ==> skippable(b, k)
}

pub proof fn lemma_bytes_valid(content: &str)
    ensures valid_utf8(content.spec_bytes()),
{
    encode_utf8_valid_utf8(content@);
}


pub proof fn lemma_next_unique(b: Seq<u8>, p: int, q1: int, q2: int, pause: bool)
    requires next_ok(b, p, q1, pause), next_ok(b, p, q2, pause),
    ensures q1 == q2,
{
    if q1 < q2 { assert(is_lf(b[q1])); } else if q2 < q1 { assert(is_lf(b[q2])); }
}
pub proof fn lemma_prev_unique(b: Seq<u8>, p: int, q1: int, q2: int, pause: bool)
    requires prev_ok(b, p, q1, pause), prev_ok(b, p, q2, pause),
    ensures q1 == q2,
{
    if q1 < q2 { assert(is_lf(b[q2])); } else if q2 < q1 { assert(is_lf(b[q1])); }
}

/// the finders as spec functions (well defined because the witnesses are unique)
pub open spec fn next_lb(b: Seq<u8>, p: int, pause: bool) -> Option<int> {
    if exists|q: int| next_ok(b, p, q, pause) { Some(choose|q: int| next_ok(b, p, q, pause)) } else { None }
}
pub open spec fn prev_lb(b: Seq<u8>, p: int, pause: bool) -> Option<int> {
    if exists|q: int| prev_ok(b, p, q, pause) { Some(choose|q: int| prev_ok(b, p, q, pause)) } else { None }
}
pub proof fn lemma_next_lb(b: Seq<u8>, p: int, pause: bool)
    ensures
        match next_lb(b, p, pause) { Some(q) => next_ok(b, p, q, pause), None => forall|q: int| !next_ok(b, p, q, pause) },
        forall|q: int| #[trigger] next_ok(b, p, q, pause) ==> next_lb(b, p, pause) == Some(q),
{
    assert forall|q: int| #[trigger] next_ok(b, p, q, pause) implies next_lb(b, p, pause) == Some(q) by {
        lemma_next_unique(b, p, q, choose|q: int| next_ok(b, p, q, pause), pause);
    }
}
pub proof fn lemma_prev_lb(b: Seq<u8>, p: int, pause: bool)
    ensures
        match prev_lb(b, p, pause) { Some(q) => prev_ok(b, p, q, pause), None => forall|q: int| !prev_ok(b, p, q, pause) },
        forall|q: int| #[trigger] prev_ok(b, p, q, pause) ==> prev_lb(b, p, pause) == Some(q),
{
    assert forall|q: int| #[trigger] prev_ok(b, p, q, pause) implies prev_lb(b, p, pause) == Some(q) by {
        lemma_prev_unique(b, p, q, choose|q: int| prev_ok(b, p, q, pause), pause);
    }
}
} // verus!
verus! {
// ------------------------------------------------------------------ more L0 vocabulary
pub proof fn lemma_charpos_unique(b: Seq<u8>, p: int, q1: int, q2: int)
    requires charpos_ok(b, p, q1), charpos_ok(b, p, q2),
    ensures q1 == q2,
{
    if q1 < q2 { assert(skippable(b, q1)); } else if q2 < q1 { assert(skippable(b, q2)); }
}
pub open spec fn char_pos(b: Seq<u8>, p: int) -> Option<int> {
    if exists|q: int| charpos_ok(b, p, q) { Some(choose|q: int| charpos_ok(b, p, q)) } else { None }
}
pub proof fn lemma_char_pos(b: Seq<u8>, p: int)
    ensures
        match char_pos(b, p) { Some(q) => charpos_ok(b, p, q), None => forall|q: int| !charpos_ok(b, p, q) },
        forall|q: int| #[trigger] charpos_ok(b, p, q) ==> char_pos(b, p) == Some(q),
{
    assert forall|q: int| #[trigger] charpos_ok(b, p, q) implies char_pos(b, p) == Some(q) by {
        lemma_charpos_unique(b, p, q, choose|q: int| charpos_ok(b, p, q));
    }
}

/// starting on a character boundary, a run of skippable bytes consists of blanks only
pub proof fn lemma_skippable_run_blank(b: Seq<u8>, p: int, q: int)
    requires valid_utf8(b), 0 <= p <= q <= b.len(), cb(b, p), forall|k: int| p <= k < q ==> skippable(b, k),
    ensures all_blank(b, p, q), cb(b, q),
    decreases q - p,
{
    if p < q {
        assert(skippable(b, p));
        assert(is_blank(b[p]));
        lemma_ascii_next_boundary(b, p);
        lemma_skippable_run_blank(b, p + 1, q);
    }
}

/// Rust never allocates more than isize::MAX bytes (std guarantee for str / slices / Vec)
#[verifier::external_body]
pub proof fn axiom_str_len_isize(s: &str)
    ensures s.spec_bytes().len() <= isize::MAX,
{}
} // verus!
verus! {
// ------------------------------------------------------------------ assumed std contracts (DESIGN 3.3)
pub uninterp spec fn spec_cmp_min<T>(a: T, b: T) -> T;
#[verifier::allow(undeclared_external_trait)]
pub assume_specification<T> [std::cmp::min] (_0: T, _1: T) -> (r: T)
    where T: std::cmp::Ord + std::marker::Destruct,
    ensures r == spec_cmp_min(_0, _1),
;
#[verifier::external_body]
pub broadcast proof fn axiom_cmp_min_usize(a: usize, b: usize)
    ensures #[trigger] spec_cmp_min(a, b) == (if a <= b { a } else { b }),
{}
} // verus!
verus! {
// ------------------------------------------------------------------ range-list vocabulary (DESIGN 3.4)
pub open spec fn rvalid(r: Seq<Range<usize>>) -> bool {
    forall|i: int| 0 <= i < r.len() ==> (#[trigger] r[i]).start <= r[i].end
}
/// strictly separated, ascending: no two ranges touch
pub open spec fn separated(r: Seq<Range<usize>>) -> bool {
    forall|i: int, j: int| 0 <= i < j < r.len() ==> (#[trigger] r[i]).end < (#[trigger] r[j]).start
}
pub open spec fn sorted_by_start(r: Seq<Range<usize>>) -> bool {
    forall|i: int, j: int| 0 <= i < j < r.len() ==> (#[trigger] r[i]).start <= (#[trigger] r[j]).start
}
pub open spec fn covered(r: Seq<Range<usize>>, p: int) -> bool {
    exists|i: int| 0 <= i < r.len() && (#[trigger] r[i]).start <= p < r[i].end
}
pub open spec fn covered_n(r: Seq<Range<usize>>, n: int, p: int) -> bool {
    exists|i: int| 0 <= i < n && i < r.len() && (#[trigger] r[i]).start <= p < r[i].end
}
pub open spec fn has_start_n(r: Seq<Range<usize>>, n: int, x: usize) -> bool {
    exists|j: int| 0 <= j < n && j < r.len() && (#[trigger] r[j]).start == x
}
pub open spec fn has_end_n(r: Seq<Range<usize>>, n: int, x: usize) -> bool {
    exists|j: int| 0 <= j < n && j < r.len() && (#[trigger] r[j]).end == x
}

pub proof fn lemma_cov_intro(r: Seq<Range<usize>>, n: int, i: int, p: int)
    requires 0 <= i < n, i < r.len(), r[i].start <= p < r[i].end,
    ensures covered_n(r, n, p),
{}
pub proof fn lemma_cov_elim(r: Seq<Range<usize>>, n: int, p: int) -> (i: int)
    requires covered_n(r, n, p),
    ensures 0 <= i < n, i < r.len(), r[i].start <= p < r[i].end,
{
    choose|i: int| 0 <= i < n && i < r.len() && (#[trigger] r[i]).start <= p < r[i].end
}
pub proof fn lemma_start_intro(r: Seq<Range<usize>>, n: int, j: int, x: usize)
    requires 0 <= j < n, j < r.len(), r[j].start == x,
    ensures has_start_n(r, n, x),
{}
pub proof fn lemma_start_elim(r: Seq<Range<usize>>, n: int, x: usize) -> (j: int)
    requires has_start_n(r, n, x),
    ensures 0 <= j < n, j < r.len(), r[j].start == x,
{
    choose|j: int| 0 <= j < n && j < r.len() && (#[trigger] r[j]).start == x
}
pub proof fn lemma_end_intro(r: Seq<Range<usize>>, n: int, j: int, x: usize)
    requires 0 <= j < n, j < r.len(), r[j].end == x,
    ensures has_end_n(r, n, x),
{}
pub proof fn lemma_end_elim(r: Seq<Range<usize>>, n: int, x: usize) -> (j: int)
    requires has_end_n(r, n, x),
    ensures 0 <= j < n, j < r.len(), r[j].end == x,
{
    choose|j: int| 0 <= j < n && j < r.len() && (#[trigger] r[j]).end == x
}

/// every start (end) of `out` is the start (end) of some range of `inp`
pub open spec fn ends_from(inp: Seq<Range<usize>>, out: Seq<Range<usize>>) -> bool {
    forall|i: int| 0 <= i < out.len() ==>
        has_start_n(inp, inp.len() as int, (#[trigger] out[i]).start) && has_end_n(inp, inp.len() as int, out[i].end)
}

pub assume_specification<Idx: Clone> [<Range<Idx> as Clone>::clone] (r: &Range<Idx>) -> (c: Range<Idx>)
    ensures c == *r;
} // verus!
