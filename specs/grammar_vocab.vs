// ---- C09: the tag grammar as a layout of character indices, and the round trip through the attribute machine
// (inside `mod ep`; needs pstep / pscan / pfinal / POff) ----
pub open spec fn ws(c: char) -> bool { c == ' ' || c == '\n' }
/// a character of a bare word (tag name or attribute name)
pub open spec fn wordc(c: char) -> bool { !(c == ' ' || c == '\n' || c == '=' || c == '"' || c == '\'') }
/// one `name` or `name=<q>value<q>` of a well-formed tag body, as character indices: separators [s, ns),
/// name [ns, ne), and for a valued attribute '=' at ne, the quote at ne + 1, value [vs, ve), closing quote at ve
pub struct GItem { pub s: int, pub ns: int, pub ne: int, pub val: Option<(int, int)> }
pub open spec fn item_end(it: GItem) -> int { match it.val { None => it.ne, Some(v) => v.1 + 1 } }
pub open spec fn item_wf(cs: Seq<char>, it: GItem) -> bool {
    &&& 0 <= it.s <= it.ns < it.ne <= cs.len()
    &&& forall|j: int| it.s <= j < it.ns ==> ws(#[trigger] cs[j])
    &&& forall|j: int| it.ns <= j < it.ne ==> wordc(#[trigger] cs[j])
    &&& it.val matches Some(v) ==> {
        &&& it.ne + 1 < cs.len() && cs[it.ne] == '=' && (cs[it.ne + 1] == '"' || cs[it.ne + 1] == '\'')
        &&& v.0 == it.ne + 2 && v.0 <= v.1 < cs.len() && cs[v.1] == cs[it.ne + 1]
        &&& forall|j: int| v.0 <= j < v.1 ==> #[trigger] cs[j] != cs[it.ne + 1]
    }
}
/// the body is: padding, name, then attributes each preceded by at least one space / line break (none needed
/// directly behind a closing quote), then padding; quoted values are arbitrary text without their own quote character
pub open spec fn layout_wf(cs: Seq<char>, items: Seq<GItem>) -> bool {
    &&& items.len() > 0
    &&& items[0].s == 0
    &&& forall|k: int| 0 <= k < items.len() ==> item_wf(cs, #[trigger] items[k])
    &&& forall|k: int| #![trigger items[k]] 0 <= k < items.len() - 1 ==> items[k + 1].s == item_end(items[k])
            && (items[k].val is None ==> items[k + 1].s < items[k + 1].ns)
    &&& forall|j: int| item_end(items[items.len() - 1]) <= j < cs.len() ==> ws(#[trigger] cs[j])
}
pub open spec fn exp_off(cs: Seq<char>, it: GItem) -> POff {
    POff { ns: char_byte_pos(cs, it.ns), ne: char_byte_pos(cs, it.ne),
           val: match it.val { None => None, Some(v) => Some((char_byte_pos(cs, v.0), char_byte_pos(cs, v.1))) } }
}
pub open spec fn exp_offs(cs: Seq<char>, items: Seq<GItem>, k: int) -> Seq<POff> {
    Seq::new(k as nat, |i: int| exp_off(cs, items[i]))
}

// ---- runs of the machine ----
pub proof fn lemma_run_ws(cs: Seq<char>, st: PState, o: Seq<POff>, i: int, j: int)
    requires 0 <= i <= j <= cs.len(), pscan(cs, i) == (st, o), st is NameBegin || st is NameEnd,
        forall|x: int| i <= x < j ==> ws(#[trigger] cs[x]),
    ensures pscan(cs, j) == (st, o),
    decreases j - i,
{
    if i < j {
        lemma_run_ws(cs, st, o, i, j - 1);
        lemma_pscan_step(cs, j - 1);
        assert(ws(cs[j - 1]));
    }
}
pub proof fn lemma_run_word(cs: Seq<char>, s: int, o: Seq<POff>, i: int, j: int)
    requires 0 <= i <= j <= cs.len(), pscan(cs, i) == (PState::Name(s), o),
        forall|x: int| i <= x < j ==> wordc(#[trigger] cs[x]),
    ensures pscan(cs, j) == (PState::Name(s), o),
    decreases j - i,
{
    if i < j {
        lemma_run_word(cs, s, o, i, j - 1);
        lemma_pscan_step(cs, j - 1);
        assert(wordc(cs[j - 1]));
    }
}
pub proof fn lemma_run_value(cs: Seq<char>, st: PState, o: Seq<POff>, q: char, i: int, j: int)
    requires 0 <= i <= j <= cs.len(), pscan(cs, i) == (st, o),
        (q == '"' && st is ValueWithDoubleQuote) || (q == '\'' && st is ValueWithSingleQuote),
        forall|x: int| i <= x < j ==> #[trigger] cs[x] != q,
    ensures pscan(cs, j) == (st, o),
    decreases j - i,
{
    if i < j {
        lemma_run_value(cs, st, o, q, i, j - 1);
        lemma_pscan_step(cs, j - 1);
        assert(cs[j - 1] != q);
    }
}
/// the machine state behind item k: a bare word is still pending, a quoted value has been stored
pub open spec fn after_item(cs: Seq<char>, items: Seq<GItem>, k: int) -> bool {
    match items[k].val {
        None => pscan(cs, items[k].ne) == (PState::Name(char_byte_pos(cs, items[k].ns)), exp_offs(cs, items, k)),
        Some(v) => pscan(cs, v.1 + 1) == (PState::NameBegin, exp_offs(cs, items, k + 1)),
    }
}
pub proof fn lemma_exp_offs_push(cs: Seq<char>, items: Seq<GItem>, k: int)
    requires 0 <= k < items.len(),
    ensures exp_offs(cs, items, k + 1) == exp_offs(cs, items, k).push(exp_off(cs, items[k])),
{
    assert(exp_offs(cs, items, k + 1) =~= exp_offs(cs, items, k).push(exp_off(cs, items[k])));
}
/// 1. from the state behind item k - 1 to the first character of item k's name
pub proof fn lemma_item_reach(cs: Seq<char>, items: Seq<GItem>, k: int)
    requires layout_wf(cs, items), 0 <= k < items.len(), k > 0 ==> after_item(cs, items, k - 1),
    ensures pscan(cs, items[k].ns).1 == exp_offs(cs, items, k),
        pscan(cs, items[k].ns).0 is NameBegin || pscan(cs, items[k].ns).0 is NameEnd,
{
    let it = items[k];
    assert(item_wf(cs, it));
    lemma_pscan_step(cs, 0);
    if k == 0 {
        assert(exp_offs(cs, items, 0) =~= Seq::<POff>::empty());
        lemma_run_ws(cs, PState::NameBegin, exp_offs(cs, items, 0), 0, it.ns);
    } else {
        let pv = items[k - 1];
        assert(item_wf(cs, pv));
        assert(items[k - 1 + 1].s == item_end(items[k - 1]));
        lemma_exp_offs_push(cs, items, k - 1);
        match pv.val {
            None => {
                // the pending name is flushed by the first separator
                assert(it.s < it.ns);
                assert(ws(cs[it.s]));
                lemma_pscan_step(cs, it.s);
                assert(pscan(cs, it.s + 1) == (PState::NameEnd, exp_offs(cs, items, k)));
                lemma_run_ws(cs, PState::NameEnd, exp_offs(cs, items, k), it.s + 1, it.ns);
            },
            Some(v) => {
                lemma_run_ws(cs, PState::NameBegin, exp_offs(cs, items, k), it.s, it.ns);
            },
        }
    }
}
/// 2. the name: a run of word characters starting in NameBegin / NameEnd
pub proof fn lemma_item_name(cs: Seq<char>, o: Seq<POff>, ns: int, ne: int)
    requires 0 <= ns < ne <= cs.len(), pscan(cs, ns).1 == o, pscan(cs, ns).0 is NameBegin || pscan(cs, ns).0 is NameEnd,
        forall|j: int| ns <= j < ne ==> wordc(#[trigger] cs[j]),
    ensures pscan(cs, ne) == (PState::Name(char_byte_pos(cs, ns)), o),
{
    assert(wordc(cs[ns]));
    lemma_pscan_step(cs, ns);
    assert(pscan(cs, ns + 1) == (PState::Name(char_byte_pos(cs, ns)), o));
    lemma_run_word(cs, char_byte_pos(cs, ns), o, ns + 1, ne);
}
/// 3. `=`, opening quote, opaque value, closing quote
pub proof fn lemma_item_value(cs: Seq<char>, o: Seq<POff>, ns: int, ne: int, vs: int, ve: int)
    requires 0 <= ns < ne, ne + 1 < cs.len(), pscan(cs, ne) == (PState::Name(char_byte_pos(cs, ns)), o),
        cs[ne] == '=', cs[ne + 1] == '"' || cs[ne + 1] == '\'', vs == ne + 2, vs <= ve < cs.len(), cs[ve] == cs[ne + 1],
        forall|j: int| vs <= j < ve ==> #[trigger] cs[j] != cs[ne + 1],
    ensures pscan(cs, ve + 1) == (PState::NameBegin, o.push(POff { ns: char_byte_pos(cs, ns), ne: char_byte_pos(cs, ne),
        val: Some((char_byte_pos(cs, vs), char_byte_pos(cs, ve))) })),
{
    let q = cs[ne + 1];
    lemma_pscan_step(cs, ne);
    let o1 = o.push(POff { ns: char_byte_pos(cs, ns), ne: char_byte_pos(cs, ne), val: None });
    assert(pscan(cs, ne + 1) == (PState::ValueBegin, o1));
    lemma_pscan_step(cs, ne + 1);
    lemma_ascii_char_one_byte(cs, ne + 1);
    let stv = if q == '"' { PState::ValueWithDoubleQuote(char_byte_pos(cs, vs)) } else { PState::ValueWithSingleQuote(char_byte_pos(cs, vs)) };
    assert(pscan(cs, vs) == (stv, o1));
    lemma_run_value(cs, stv, o1, q, vs, ve);
    lemma_pscan_step(cs, ve);
    assert(pscan(cs, ve + 1) == (PState::NameBegin, set_last_val(o1, char_byte_pos(cs, vs), char_byte_pos(cs, ve))));
    assert(set_last_val(o1, char_byte_pos(cs, vs), char_byte_pos(cs, ve)) =~= o.push(POff { ns: char_byte_pos(cs, ns), ne: char_byte_pos(cs, ne),
        val: Some((char_byte_pos(cs, vs), char_byte_pos(cs, ve))) }));
}
/// from the separators in front of item k to the state behind it
pub proof fn lemma_item(cs: Seq<char>, items: Seq<GItem>, k: int)
    requires layout_wf(cs, items), 0 <= k < items.len(), k > 0 ==> after_item(cs, items, k - 1),
    ensures after_item(cs, items, k),
{
    let it = items[k];
    assert(item_wf(cs, it));
    lemma_item_reach(cs, items, k);
    lemma_item_name(cs, exp_offs(cs, items, k), it.ns, it.ne);
    match it.val {
        None => {},
        Some(v) => {
            lemma_item_value(cs, exp_offs(cs, items, k), it.ns, it.ne, v.0, v.1);
            lemma_exp_offs_push(cs, items, k);
        },
    }
}
pub proof fn lemma_items(cs: Seq<char>, items: Seq<GItem>, k: int)
    requires layout_wf(cs, items), 0 <= k < items.len(),
    ensures after_item(cs, items, k),
    decreases k,
{
    if k > 0 { lemma_items(cs, items, k - 1); }
    lemma_item(cs, items, k);
}
/// C09 (machine level): a well-formed tag body is accepted and the recorded ranges are exactly those of the layout,
/// in order - whatever the quoted values contain
pub proof fn lemma_round_trip(cs: Seq<char>, items: Seq<GItem>)
    requires layout_wf(cs, items),
    ensures !(pfinal(cs).0 is ParseError), pfinal(cs).1 == exp_offs(cs, items, items.len() as int), parse_ok(cs),
{
    let n = items.len() as int;
    let it = items[n - 1];
    lemma_items(cs, items, n - 1);
    assert(item_wf(cs, it));
    lemma_exp_offs_push(cs, items, n - 1);
    lemma_char_pos_mono(cs, 0, cs.len() as int);
    match it.val {
        None => {
            if it.ne == cs.len() {
            } else {
                assert(ws(cs[it.ne]));
                lemma_pscan_step(cs, it.ne);
                lemma_run_ws(cs, PState::NameEnd, exp_offs(cs, items, n), it.ne + 1, cs.len() as int);
            }
        },
        Some(v) => {
            lemma_run_ws(cs, PState::NameBegin, exp_offs(cs, items, n), v.1 + 1, cs.len() as int);
        },
    }
}
/// non-vacuity of layout_wf: the body ` a b="x y"\nc ` has the layout name a, attribute b = `x y`, attribute c
pub proof fn lemma_layout_example()
    ensures layout_wf(seq![' ', 'a', ' ', 'b', '=', '"', 'x', ' ', 'y', '"', '\n', 'c', ' '],
        seq![GItem { s: 0, ns: 1, ne: 2, val: None }, GItem { s: 2, ns: 3, ne: 4, val: Some((6int, 9int)) }, GItem { s: 10, ns: 11, ne: 12, val: None }]),
{
    let cs = seq![' ', 'a', ' ', 'b', '=', '"', 'x', ' ', 'y', '"', '\n', 'c', ' '];
    let items = seq![GItem { s: 0, ns: 1, ne: 2, val: None }, GItem { s: 2, ns: 3, ne: 4, val: Some((6int, 9int)) }, GItem { s: 10, ns: 11, ne: 12, val: None }];
    assert(item_wf(cs, items[0]));
    assert(item_wf(cs, items[1]));
    assert(item_wf(cs, items[2]));
}
/// a slice between two character positions has exactly the characters between them as its text
pub proof fn lemma_str_text(s: &str, cs: Seq<char>, i: int, j: int)
    requires 0 <= i <= j <= cs.len(), s.spec_bytes() == encode_utf8(cs).subrange(char_byte_pos(cs, i), char_byte_pos(cs, j)),
    ensures s@ == cs.subrange(i, j),
{
    lemma_bytes_of_chars(cs, i, j);
    assert(s.spec_bytes() == encode_utf8(s@));
    lemma_encode_inj(s@, cs.subrange(i, j));
}
/// C09 (text level): for a well-formed tag body, what parse returns (element_ok is its proved postcondition) is
/// exactly the name and, in order, the attribute names and values of the layout
pub proof fn lemma_parse_round_trip(e: Element, cs: Seq<char>, items: Seq<GItem>)
    requires layout_wf(cs, items), element_ok(e, pfinal(cs).1, encode_utf8(cs)),
    ensures
        e.name@ == cs.subrange(items[0].ns, items[0].ne),
        e.attrs@.len() == items.len() - 1,
        forall|i: int| #![trigger e.attrs@[i]] 0 <= i < e.attrs@.len() ==> {
            &&& e.attrs@[i].name@ == cs.subrange(items[i + 1].ns, items[i + 1].ne)
            &&& (e.attrs@[i].value is Some) == (items[i + 1].val is Some)
            &&& e.attrs@[i].value matches Some(v) ==> v@ == cs.subrange((items[i + 1].val->0).0, (items[i + 1].val->0).1)
        },
{
    lemma_round_trip(cs, items);
    let offs = exp_offs(cs, items, items.len() as int);
    let tb = encode_utf8(cs);
    assert(item_wf(cs, items[0]));
    assert(offs[0] == exp_off(cs, items[0]));
    lemma_str_text(e.name, cs, items[0].ns, items[0].ne);
    assert forall|i: int| #![trigger e.attrs@[i]] 0 <= i < e.attrs@.len() implies ({
            &&& e.attrs@[i].name@ == cs.subrange(items[i + 1].ns, items[i + 1].ne)
            &&& (e.attrs@[i].value is Some) == (items[i + 1].val is Some)
            &&& e.attrs@[i].value matches Some(v) ==> v@ == cs.subrange((items[i + 1].val->0).0, (items[i + 1].val->0).1)
        }) by {
        let a = e.attrs@[i];
        let it = items[i + 1];
        assert(attr_ok(a, offs[i + 1], tb));
        assert(offs[i + 1] == exp_off(cs, it));
        assert(item_wf(cs, it));
        lemma_str_text(a.name, cs, it.ns, it.ne);
        match a.value {
            Some(v) => { lemma_str_text(v, cs, (it.val->0).0, (it.val->0).1); },
            None => {},
        }
    }
}

// ---- the same theorem for tag bodies given as rendered text ----
/// one item of a tag as text: separators, a bare word, optionally `=`, a quote, the value, the same quote
pub struct GAttr { pub sep: Seq<char>, pub name: Seq<char>, pub val: Option<(char, Seq<char>)> }
pub open spec fn val_text(a: GAttr) -> Seq<char> {
    match a.val { None => Seq::empty(), Some(v) => seq!['=', v.0] + v.1 + seq![v.0] }
}
pub open spec fn attr_text(a: GAttr) -> Seq<char> { a.sep + a.name + val_text(a) }
pub open spec fn render_items(items: Seq<GAttr>, n: int) -> Seq<char>
    decreases n,
{
    if n <= 0 { Seq::empty() } else { render_items(items, n - 1) + attr_text(items[n - 1]) }
}
/// the tag body: name (item 0) and attributes, then padding
pub open spec fn render(items: Seq<GAttr>, pad: Seq<char>) -> Seq<char> { render_items(items, items.len() as int) + pad }
pub open spec fn gattr_wf(a: GAttr) -> bool {
    &&& forall|j: int| 0 <= j < a.sep.len() ==> ws(#[trigger] a.sep[j])
    &&& a.name.len() > 0
    &&& forall|j: int| 0 <= j < a.name.len() ==> wordc(#[trigger] a.name[j])
    &&& a.val matches Some(v) ==> (v.0 == '"' || v.0 == '\'') && forall|j: int| 0 <= j < v.1.len() ==> #[trigger] v.1[j] != v.0
}
pub open spec fn gattrs_wf(items: Seq<GAttr>, pad: Seq<char>) -> bool {
    &&& items.len() > 0
    &&& forall|k: int| 0 <= k < items.len() ==> gattr_wf(#[trigger] items[k])
    &&& forall|k: int| #![trigger items[k]] 0 <= k < items.len() - 1 ==> (items[k].val is None ==> items[k + 1].sep.len() > 0)
    &&& forall|j: int| 0 <= j < pad.len() ==> ws(#[trigger] pad[j])
}
pub open spec fn item_of(items: Seq<GAttr>, k: int) -> GItem {
    let s = render_items(items, k).len() as int;
    let ns = s + items[k].sep.len();
    let ne = ns + items[k].name.len();
    GItem { s, ns, ne, val: match items[k].val { None => None, Some(v) => Some((ne + 2, ne + 2 + v.1.len())) } }
}
pub open spec fn layout_of(items: Seq<GAttr>) -> Seq<GItem> { Seq::new(items.len(), |k: int| item_of(items, k)) }

pub proof fn lemma_render_len(items: Seq<GAttr>, k: int)
    requires 0 <= k < items.len(),
    ensures render_items(items, k + 1).len() == render_items(items, k).len() + attr_text(items[k]).len(),
        render_items(items, k + 1).len() == item_end(item_of(items, k)),
{}
/// the first k items are a prefix of the whole body
pub proof fn lemma_render_prefix(items: Seq<GAttr>, pad: Seq<char>, k: int)
    requires 0 <= k <= items.len(),
    ensures render_items(items, k).len() <= render(items, pad).len(),
        render(items, pad).take(render_items(items, k).len() as int) == render_items(items, k),
    decreases items.len() - k,
{
    let cs = render(items, pad);
    if k == items.len() {
        assert(cs.take(render_items(items, k).len() as int) =~= render_items(items, k));
    } else {
        lemma_render_prefix(items, pad, k + 1);
        let a = render_items(items, k);
        let b = render_items(items, k + 1);
        assert(b == a + attr_text(items[k]));
        assert(cs.take(a.len() as int) =~= cs.take(b.len() as int).take(a.len() as int));
        assert(b.take(a.len() as int) =~= a);
    }
}
/// item k's text sits in the body at item_of(items, k), character by character
pub proof fn lemma_render_item(items: Seq<GAttr>, pad: Seq<char>, k: int)
    requires 0 <= k < items.len(),
    ensures ({
        let cs = render(items, pad);
        let it = item_of(items, k);
        &&& 0 <= it.s <= it.ns <= it.ne <= item_end(it) <= cs.len()
        &&& cs.subrange(it.s, it.ns) == items[k].sep
        &&& cs.subrange(it.ns, it.ne) == items[k].name
        &&& cs.subrange(it.ne, item_end(it)) == val_text(items[k])
    }),
{
    let cs = render(items, pad);
    let it = item_of(items, k);
    let a = render_items(items, k);
    let b = render_items(items, k + 1);
    let t = attr_text(items[k]);
    lemma_render_prefix(items, pad, k + 1);
    lemma_render_len(items, k);
    assert(b == a + t);
    assert(cs.take(b.len() as int) == b);
    assert(cs.subrange(a.len() as int, b.len() as int) =~= t) by {
        assert forall|j: int| 0 <= j < t.len() implies cs[a.len() + j] == t[j] by {
            assert(cs.take(b.len() as int)[a.len() + j] == b[a.len() + j]);
        }
    }
    assert(cs.subrange(it.s, it.ns) =~= t.subrange(0, items[k].sep.len() as int));
    assert(t.subrange(0, items[k].sep.len() as int) =~= items[k].sep);
    assert(cs.subrange(it.ns, it.ne) =~= t.subrange(items[k].sep.len() as int, (items[k].sep.len() + items[k].name.len()) as int));
    assert(t.subrange(items[k].sep.len() as int, (items[k].sep.len() + items[k].name.len()) as int) =~= items[k].name);
    assert(cs.subrange(it.ne, item_end(it)) =~= t.subrange((items[k].sep.len() + items[k].name.len()) as int, t.len() as int));
    assert(t.subrange((items[k].sep.len() + items[k].name.len()) as int, t.len() as int) =~= val_text(items[k]));
}
pub proof fn lemma_render_item_wf(items: Seq<GAttr>, pad: Seq<char>, k: int)
    requires gattrs_wf(items, pad), 0 <= k < items.len(),
    ensures item_wf(render(items, pad), item_of(items, k)),
{
    let cs = render(items, pad);
    let it = item_of(items, k);
    let a = items[k];
    lemma_render_item(items, pad, k);
    assert(gattr_wf(a));
    assert forall|j: int| it.s <= j < it.ns implies ws(#[trigger] cs[j]) by {
        assert(cs.subrange(it.s, it.ns)[j - it.s] == a.sep[j - it.s]);
    }
    assert forall|j: int| it.ns <= j < it.ne implies wordc(#[trigger] cs[j]) by {
        assert(cs.subrange(it.ns, it.ne)[j - it.ns] == a.name[j - it.ns]);
    }
    match a.val {
        None => {},
        Some(v) => {
            let vt = val_text(a);
            assert(vt.len() == v.1.len() + 3);
            assert(vt[0] == '=' && vt[1] == v.0 && vt[vt.len() - 1] == v.0);
            assert(cs.subrange(it.ne, item_end(it))[0] == vt[0]);
            assert(cs.subrange(it.ne, item_end(it))[1] == vt[1]);
            assert(cs.subrange(it.ne, item_end(it))[vt.len() - 1] == vt[vt.len() - 1]);
            assert forall|j: int| it.ne + 2 <= j < it.ne + 2 + v.1.len() implies #[trigger] cs[j] != cs[it.ne + 1] by {
                assert(cs.subrange(it.ne, item_end(it))[j - it.ne] == vt[j - it.ne]);
                assert(vt[j - it.ne] == v.1[j - it.ne - 2]);
            }
        },
    }
}
/// rendered well-formed tags have a well-formed layout
pub proof fn lemma_render_layout(items: Seq<GAttr>, pad: Seq<char>)
    requires gattrs_wf(items, pad),
    ensures layout_wf(render(items, pad), layout_of(items)),
{
    let cs = render(items, pad);
    let l = layout_of(items);
    let n = items.len() as int;
    assert forall|k: int| 0 <= k < l.len() implies item_wf(cs, #[trigger] l[k]) by { lemma_render_item_wf(items, pad, k); }
    assert forall|k: int| #![trigger l[k]] 0 <= k < l.len() - 1 implies l[k + 1].s == item_end(l[k])
            && (l[k].val is None ==> l[k + 1].s < l[k + 1].ns) by {
        lemma_render_len(items, k);
        assert(items[k].val is None ==> items[k + 1].sep.len() > 0);
    }
    lemma_render_len(items, n - 1);
    assert forall|j: int| item_end(l[l.len() - 1]) <= j < cs.len() implies ws(#[trigger] cs[j]) by {
        assert(cs[j] == pad[j - render_items(items, n).len()]);
    }
}
/// the value of item k sits between its quotes
pub proof fn lemma_render_value(items: Seq<GAttr>, pad: Seq<char>, k: int)
    requires 0 <= k < items.len(), items[k].val is Some,
    ensures ({
        let it = item_of(items, k);
        let v = (items[k].val->0).1;
        render(items, pad).subrange(it.ne + 2, it.ne + 2 + v.len()) == v
    }),
{
    let cs = render(items, pad);
    let it = item_of(items, k);
    let v = (items[k].val->0).1;
    let vt = val_text(items[k]);
    lemma_render_item(items, pad, k);
    assert(vt.len() == v.len() + 3);
    assert(cs.subrange(it.ne + 2, it.ne + 2 + v.len()) =~= cs.subrange(it.ne, item_end(it)).subrange(2, (2 + v.len()) as int));
    assert(vt.subrange(2, (2 + v.len()) as int) =~= v);
}
/// C09 as in the statement: parse of the rendered tag returns exactly that name and, in order, those attribute
/// names and values (element_ok is parse's proved postcondition)
pub proof fn lemma_parse_render(e: Element, items: Seq<GAttr>, pad: Seq<char>)
    requires gattrs_wf(items, pad), element_ok(e, pfinal(render(items, pad)).1, encode_utf8(render(items, pad))),
    ensures
        parse_ok(render(items, pad)),
        e.name@ == items[0].name,
        e.attrs@.len() == items.len() - 1,
        forall|i: int| #![trigger e.attrs@[i]] 0 <= i < e.attrs@.len() ==> {
            &&& e.attrs@[i].name@ == items[i + 1].name
            &&& (e.attrs@[i].value is Some) == (items[i + 1].val is Some)
            &&& e.attrs@[i].value matches Some(v) ==> v@ == (items[i + 1].val->0).1
        },
{
    let cs = render(items, pad);
    let l = layout_of(items);
    lemma_render_layout(items, pad);
    lemma_round_trip(cs, l);
    lemma_parse_round_trip(e, cs, l);
    lemma_render_item(items, pad, 0);
    assert(l[0] == item_of(items, 0));
    assert forall|i: int| #![trigger e.attrs@[i]] 0 <= i < e.attrs@.len() implies ({
            &&& e.attrs@[i].name@ == items[i + 1].name
            &&& (e.attrs@[i].value is Some) == (items[i + 1].val is Some)
            &&& e.attrs@[i].value matches Some(v) ==> v@ == (items[i + 1].val->0).1
        }) by {
        lemma_render_item(items, pad, i + 1);
        assert(l[i + 1] == item_of(items, i + 1));
        if items[i + 1].val is Some { lemma_render_value(items, pad, i + 1); }
    }
}
