// ---- shared prelude of every generated Verus unit (DESIGN 3.3 / 3.4) ----
#![allow(unused_imports, unused_variables, unused_mut, dead_code, unused_parens, unused_braces, unreachable_code, unused_assignments)]
#![feature(allocator_api)]
use vstd::prelude::*;
use vstd::string::*;
use vstd::utf8::*;
use vstd::std_specs::iter::*;
use std::ops::Range;

verus! {

// ------------------------------------------------------------------ byte classes
pub open spec fn is_blank(b: u8) -> bool { b == 0x20u8 || b == 0x09u8 }
pub open spec fn is_lf(b: u8) -> bool { b == 0x0Au8 }
pub open spec fn is_ws(b: u8) -> bool { is_blank(b) || is_lf(b) }
pub open spec fn cb(b: Seq<u8>, p: int) -> bool { is_char_boundary(b, p) }

/// every byte of b[lo..hi) is a blank or a UTF-8 continuation position (the finders skip both)
pub open spec fn all_blank(b: Seq<u8>, lo: int, hi: int) -> bool {
    forall|k: int| lo <= k < hi && 0 <= k < b.len() ==> is_blank(#[trigger] b[k])
}
pub open spec fn all_ws(b: Seq<u8>, lo: int, hi: int) -> bool {
    forall|k: int| lo <= k < hi && 0 <= k < b.len() ==> is_ws(#[trigger] b[k])
}
pub open spec fn no_lf(b: Seq<u8>, lo: int, hi: int) -> bool {
    forall|k: int| lo <= k < hi && 0 <= k < b.len() ==> !is_lf(#[trigger] b[k])
}

// ------------------------------------------------------------------ UTF-8 facts (proved from vstd's definitions)
pub proof fn lemma_ascii_is_boundary(bytes: Seq<u8>, i: int)
    requires valid_utf8(bytes), 0 <= i < bytes.len(), bytes[i] < 0x80u8,
    ensures is_char_boundary(bytes, i),
{
    is_char_boundary_iff_not_is_continuation_byte(bytes, i);
}

pub proof fn lemma_ascii_next_boundary(bytes: Seq<u8>, i: int)
    requires valid_utf8(bytes), 0 <= i < bytes.len(), is_char_boundary(bytes, i), bytes[i] < 0x80u8,
    ensures is_char_boundary(bytes, i + 1),
{
    valid_utf8_split(bytes, i);
    let suffix = bytes.subrange(i, bytes.len() as int);
    assert(suffix[0] == bytes[i]);
    if i + 1 == bytes.len() {
        is_char_boundary_start_end_of_seq(bytes);
    } else {
        assert(is_leading_byte_width_1(suffix[0]));
        assert(is_char_boundary(pop_first_scalar(suffix), 0));
        assert(is_char_boundary(suffix, 1)) by { reveal_with_fuel(is_char_boundary, 3); }
        is_char_boundary_iff_not_is_continuation_byte(suffix, 1);
        assert(suffix[1] == bytes[i + 1]);
        is_char_boundary_iff_not_is_continuation_byte(bytes, i + 1);
    }
}

/// a non-boundary position holds a continuation byte (>= 0x80), hence neither blank nor line break
pub proof fn lemma_nonboundary_not_ascii(bytes: Seq<u8>, i: int)
    requires valid_utf8(bytes), 0 <= i < bytes.len(), !is_char_boundary(bytes, i),
    ensures bytes[i] >= 0x80u8,
{
    if bytes[i] < 0x80u8 { lemma_ascii_is_boundary(bytes, i); }
}

// ------------------------------------------------------------------ finder vocabulary (L0)
/// q is the line break `find_next_line_break_pos(.., p, pause)` must return
pub open spec fn next_ok(b: Seq<u8>, p: int, q: int, pause: bool) -> bool {
    &&& 0 < p <= q < b.len()
    &&& is_lf(b[q])
    &&& if pause { all_blank(b, p, q) } else { no_lf(b, p, q) }
}

/// q is the line break `find_prev_line_break_pos(.., p, pause)` must return (byte 0 is never examined)
pub open spec fn prev_ok(b: Seq<u8>, p: int, q: int, pause: bool) -> bool {
    &&& 0 < q < p <= b.len()
    &&& is_lf(b[q])
    &&& if pause { all_blank(b, q + 1, p) } else { no_lf(b, q + 1, p) }
}

/// a byte the finders step over: blank, or not the first byte of a character
pub open spec fn skippable(b: Seq<u8>, k: int) -> bool { is_blank(b[k]) || !cb(b, k) }

/// q is the position `find_next_char_pos(.., p)` must return
pub open spec fn charpos_ok(b: Seq<u8>, p: int, q: int) -> bool {
    &&& 0 < p <= q < b.len()
    &&& cb(b, q) && !is_blank(b[q])
    &&& forall|k: int| p <= k < q ==> skippable(b, k)
}

pub proof fn lemma_bytes_valid(content: &str)
    ensures valid_utf8(content.spec_bytes()),
{
    encode_utf8_valid_utf8(content@);
}


pub proof fn lemma_next_unique(b: Seq<u8>, p: int, q1: int, q2: int, pause: bool)
    requires next_ok(b, p, q1, pause), next_ok(b, p, q2, pause),
    ensures q1 == q2,
{
    if q1 < q2 { assert(is_lf(b[q1])); } else if q2 < q1 { assert(is_lf(b[q2])); }
}
pub proof fn lemma_prev_unique(b: Seq<u8>, p: int, q1: int, q2: int, pause: bool)
    requires prev_ok(b, p, q1, pause), prev_ok(b, p, q2, pause),
    ensures q1 == q2,
{
    if q1 < q2 { assert(is_lf(b[q2])); } else if q2 < q1 { assert(is_lf(b[q1])); }
}

/// the finders as spec functions (well defined because the witnesses are unique)
pub open spec fn next_lb(b: Seq<u8>, p: int, pause: bool) -> Option<int> {
    if exists|q: int| next_ok(b, p, q, pause) { Some(choose|q: int| next_ok(b, p, q, pause)) } else { None }
}
pub open spec fn prev_lb(b: Seq<u8>, p: int, pause: bool) -> Option<int> {
    if exists|q: int| prev_ok(b, p, q, pause) { Some(choose|q: int| prev_ok(b, p, q, pause)) } else { None }
}
pub proof fn lemma_next_lb(b: Seq<u8>, p: int, pause: bool)
    ensures
        match next_lb(b, p, pause) { Some(q) => next_ok(b, p, q, pause), None => forall|q: int| !next_ok(b, p, q, pause) },
        forall|q: int| #[trigger] next_ok(b, p, q, pause) ==> next_lb(b, p, pause) == Some(q),
{
    assert forall|q: int| #[trigger] next_ok(b, p, q, pause) implies next_lb(b, p, pause) == Some(q) by {
        lemma_next_unique(b, p, q, choose|q: int| next_ok(b, p, q, pause), pause);
    }
}
pub proof fn lemma_prev_lb(b: Seq<u8>, p: int, pause: bool)
    ensures
        match prev_lb(b, p, pause) { Some(q) => prev_ok(b, p, q, pause), None => forall|q: int| !prev_ok(b, p, q, pause) },
        forall|q: int| #[trigger] prev_ok(b, p, q, pause) ==> prev_lb(b, p, pause) == Some(q),
{
    assert forall|q: int| #[trigger] prev_ok(b, p, q, pause) implies prev_lb(b, p, pause) == Some(q) by {
        lemma_prev_unique(b, p, q, choose|q: int| prev_ok(b, p, q, pause), pause);
    }
}
} // verus!
