//@unit remover_merge
// L4: marker merging (merge_child_markers, merge_markers) and get_removed_pos of code/remover.rs.
//@include types.vs

pub mod remover {
use super::*;
//@item file=code/remover/marker/factory.rs kind=type name=RemovableRange
//@item file=code/remover.rs kind=type name=RemoveMarker
//@item file=code/remover.rs kind=type name=RemovedMarker
//@item file=code/remover.rs kind=struct name=RemovalRangeTree

pub struct Remover {}

//@include remover_vocab.vs

//@fn id=get_removed_pos file=code/remover.rs name=get_removed_pos props=C01,C04,C12,C15
//@ret r
//@requires
    forall|i: int| 0 <= i < markers@.len() ==> (#[trigger] markers@[i]).0.start <= markers@[i].0.end,
    forall|i: int, j: int| 0 <= i < j < markers@.len() ==> (#[trigger] markers@[i]).0.end <= (#[trigger] markers@[j]).0.start,
//@ensures label=removed_pos_exact props=C01,C04,C12,C15
    r@.len() == markers@.len(),
    forall|i: int| 0 <= i < r@.len() ==> (#[trigger] r@[i]).0 == markers@[i].0.start - removed_before(markers@, i) && r@[i].1 == markers@[i].1,
//@fold 1 type="(Vec<RemovedMarker>, usize)"
//@loop 1 iter=it
//@invariant
    forall|i: int| 0 <= i < markers@.len() ==> (#[trigger] markers@[i]).0.start <= markers@[i].0.end,
    forall|i: int, j: int| 0 <= i < j < markers@.len() ==> (#[trigger] markers@[i]).0.end <= (#[trigger] markers@[j]).0.start,
    it.seq() == markers@.as_ref(),
    __acc1.0@.len() == it.index@,
    __acc1.1 == removed_before(markers@, it.index@),
    it.index@ > 0 ==> __acc1.1 <= markers@[it.index@ - 1].0.end,
    forall|i: int| 0 <= i < it.index@ ==> (#[trigger] __acc1.0@[i]).0 == markers@[i].0.start - removed_before(markers@, i) && __acc1.0@[i].1 == markers@[i].1,
//@end

//@fn id=merge_child_markers file=code/remover.rs name=merge_child_markers in="impl Remover" props=C01,C02,C03
//@ret r
//@requires
    child_markers.obeys_prophetic_iter_laws(),
    child_markers.remaining().len() <= usize::MAX,
    child_markers.decrease() is Some,
//@ensures label=merge_child_exact props=C02,C03
    (r as int, *final(marker)) == mcm(marker_ref_ranges(child_markers.remaining()), *old(marker)),
//@desugar-for 1
//@loop 1
//@invariant_except_break
    __it1.obeys_prophetic_iter_laws(),
    __it1.decrease() is Some,
    cursor <= __s0.len() <= usize::MAX,
    marker_ref_ranges(__it1.remaining()) =~= __s0.skip(cursor as int),
    mcm(__s0, *old(marker)) == (cursor + mcm(__s0.skip(cursor as int), *marker).0, mcm(__s0.skip(cursor as int), *marker).1),
//@loop-ensures
    (cursor as int, *marker) == mcm(__s0, *old(marker)),
//@decreases
    __it1.decrease()->0
//@at before "loop {"
    let ghost __s0 = marker_ref_ranges(child_markers.remaining());
    proof { assert(__s0.skip(0) =~= __s0); }
//@at loop 1 start
    let ghost __rest = __s0.skip(cursor as int);
    let ghost __m0 = *marker;
//@at before "if marker.contains(&child_marker.start)"
    proof {
        assert(__rest.len() > 0);
        assert(__rest[0] == child_marker);
        assert(__rest.drop_first() =~= __s0.skip(cursor + 1));
    }
//@end

//@fn id=merge_markers file=code/remover.rs name=merge_markers in="impl Remover" props=C01,C02,C03,C04,C12,C15 stub=only trusted="contract not yet proved"
//@ret r
//@requires
    exists|lo: int, hi: int| wf_forest(vf(ranges@), lo, hi),
//@ensures label=merge_markers_post props=C01,C02,C03,C04,C12,C15
    mm_post(vf(ranges@), r@),
//@end

} // mod remover
