//@unit seam_formatters
// L1: the Formatter trait contract and the four seam formatters with their exact results (DESIGN 5, L1).

//@import find_next_lb
//@import find_prev_lb

//@include seam_vocab.vs

//@fn id=trait_formatter file=code/formatter.rs name=format in="trait Formatter" props=C01,C02,C13,C14
//@ret r
//@container-extra
    /// the exact result as a function of the content bytes and the seam position
    spec fn spec_format(&self, b: Seq<u8>, p: int) -> (int, int);
//@requires
    byte_pos <= content.spec_bytes().len(),
    cb(content.spec_bytes(), byte_pos as int),
//@ensures label=seam_interval_ws props=C01,C02,C14
    r.0 <= byte_pos <= r.1 <= content.spec_bytes().len(),
    all_ws(content.spec_bytes(), r.0 as int, r.1 as int),
//@ensures label=seam_is_spec props=C13
    (r.0 as int, r.1 as int) == self.spec_format(content.spec_bytes(), byte_pos as int),
//@end

//@item file=code/formatter/indent_remover.rs kind=struct name=IndentRemover
//@fn id=indent_remover file=code/formatter/indent_remover.rs name=format in="impl Formatter for IndentRemover" props=C01,C02,C13,C14
//@ret r
//@container-extra
    open spec fn spec_format(&self, b: Seq<u8>, p: int) -> (int, int) { indent_spec(b, p) }
//@ensures label=indent_exact props=C13
    r.1 == byte_pos,
    r.0 == byte_pos || indent_ok(content.spec_bytes(), byte_pos as int, r.0 as int),
    forall|ls: int| indent_ok(content.spec_bytes(), byte_pos as int, ls) ==> r.0 == ls,
//@loop 1
//@invariant_except_break
    bytes@ == content.spec_bytes(),
    valid_utf8(bytes@),
    cursor <= byte_pos < bytes@.len(),
    is_lf(bytes@[byte_pos as int]),
    forall|k: int| cursor <= k < byte_pos ==> skippable(bytes@, k),
    cursor < byte_pos ==> (!cb(bytes@, cursor as int) || all_blank(bytes@, cursor as int, byte_pos as int)),
//@loop-ensures
    bytes@ == content.spec_bytes(),
    cursor <= byte_pos < bytes@.len(),
    __lv1 ==> indent_ok(bytes@, byte_pos as int, cursor as int),
    !__lv1 ==> forall|ls: int| !indent_ok(bytes@, byte_pos as int, ls),
//@decreases
    cursor
//@at before "let found ="
    proof { lemma_bytes_valid(content); }
//@at loop 1 start
    proof {
        assert forall|ls: int| ls - 1 >= cursor implies !indent_ok(bytes@, byte_pos as int, ls) by {
            if indent_ok(bytes@, byte_pos as int, ls) {
                assert(skippable(bytes@, ls - 1));
                lemma_ascii_is_boundary(bytes@, ls - 1);
            }
        }
    }
//@at before "match current {"
    proof {
        let c = cursor as int;
        if !is_blank(bytes@[c]) && !is_lf(bytes@[c]) {
            assert forall|ls: int| !indent_ok(bytes@, byte_pos as int, ls) by {
                if indent_ok(bytes@, byte_pos as int, ls) {
                    if ls - 1 > c {
                        assert(skippable(bytes@, ls - 1));
                        lemma_ascii_is_boundary(bytes@, ls - 1);
                    } else if ls - 1 == c {
                    } else {
                        assert(is_blank(bytes@[c]));
                    }
                }
            }
        }
    }
//@at before "if content.is_char_boundary(cursor) {"
    proof {
        if cb(bytes@, cursor as int) {
            if bytes@[cursor as int] < 0x80u8 { lemma_ascii_next_boundary(bytes@, cursor as int); }
        } else {
            lemma_nonboundary_not_ascii(bytes@, cursor as int);
        }
        if bytes@[cursor as int] < 0x80u8 { lemma_ascii_is_boundary(bytes@, cursor as int); }
    }
//@end

//@item file=code/formatter/empty_line_remover.rs kind=struct name=EmptyLineRemover
//@fn id=empty_line_remover file=code/formatter/empty_line_remover.rs name=format in="impl Formatter for EmptyLineRemover" props=C01,C02,C13,C14
//@ret r
//@container-extra
    open spec fn spec_format(&self, b: Seq<u8>, p: int) -> (int, int) { empty_line_spec(b, p) }
//@ensures label=empty_line_exact props=C13
    (r.0 as int, r.1 as int) == empty_line_spec(content.spec_bytes(), byte_pos as int),
//@closure 1 params="pos: usize" ret="ret: Option<usize>"
//@closure-requires
    bytes@ == content.spec_bytes(), pos < bytes.len(), bytes.len() == bytes@.len(), is_lf(bytes@[pos as int]),
//@closure-ensures
    ret matches Some(q) ==> next_lb(bytes@, pos + 1, true) == Some(q as int),
    ret is None ==> next_lb(bytes@, pos + 1, true) is None,
//@closure 2 params="pos: usize" ret="ret: Option<usize>"
//@closure-requires
    bytes@ == content.spec_bytes(),
//@closure-ensures
    ret matches Some(q) ==> prev_lb(bytes@, pos as int, true) == Some(q as int),
    ret is None ==> prev_lb(bytes@, pos as int, true) is None,
//@at before "let is_not_next_line_empty"
    proof { assert(bytes.len() == bytes@.len()); assert(byte_pos < bytes@.len() && is_lf(bytes@[byte_pos as int])); }
//@at body-start
    proof {
        lemma_bytes_valid(content);
        let b = content.spec_bytes();
        let p = byte_pos as int;
        lemma_next_lb(b, p, true);
        if next_lb(b, p, true) is Some { lemma_next_lb(b, next_lb(b, p, true)->0 + 1, true); }
        lemma_prev_lb(b, p, true);
        if prev_lb(b, p, true) is Some { lemma_prev_lb(b, prev_lb(b, p, true)->0, true); }
        assert forall|q: int| 0 <= q < b.len() && is_lf(#[trigger] b[q]) implies cb(b, q + 1) by {
            lemma_ascii_is_boundary(b, q);
            lemma_ascii_next_boundary(b, q);
        }
    }
//@end

//@item file=code/formatter/prev_line_break_remover.rs kind=struct name=PrevLineBreakRemover
//@fn id=prev_remover file=code/formatter/prev_line_break_remover.rs name=format in="impl Formatter for PrevLineBreakRemover" props=C01,C02,C13,C14
//@ret r
//@container-extra
    open spec fn spec_format(&self, b: Seq<u8>, p: int) -> (int, int) { prev_remover_spec(b, p) }
//@ensures label=prev_remover_exact props=C13
    (r.0 as int, r.1 as int) == prev_remover_spec(content.spec_bytes(), byte_pos as int),
//@closure 1 params="pos: usize" ret="ret: Option<usize>"
//@closure-requires
    bytes@ == content.spec_bytes(),
//@closure-ensures
    ret matches Some(q) ==> prev_lb(bytes@, pos as int, true) == Some(q as int),
    ret is None ==> prev_lb(bytes@, pos as int, true) is None,
//@at body-start
    proof {
        let b = content.spec_bytes();
        let p = byte_pos as int;
        lemma_prev_lb(b, p, true);
        if prev_lb(b, p, true) is Some { lemma_prev_lb(b, prev_lb(b, p, true)->0, true); }
    }
//@end

//@item file=code/formatter/next_line_break_remover.rs kind=struct name=NextLineBreakRemover
//@fn id=next_remover file=code/formatter/next_line_break_remover.rs name=format in="impl Formatter for NextLineBreakRemover" props=C01,C02,C13,C14
//@ret r
//@container-extra
    open spec fn spec_format(&self, b: Seq<u8>, p: int) -> (int, int) { next_remover_spec(b, p) }
//@ensures label=next_remover_exact props=C13
    (r.0 as int, r.1 as int) == next_remover_spec(content.spec_bytes(), byte_pos as int),
//@closure 1 params="pos: usize" ret="ret: Option<usize>"
//@closure-requires
    bytes@ == content.spec_bytes(), pos < bytes.len(), bytes.len() == bytes@.len(), is_lf(bytes@[pos as int]),
//@closure-ensures
    ret matches Some(q) ==> next_lb(bytes@, pos + 1, true) == Some(q as int),
    ret is None ==> next_lb(bytes@, pos + 1, true) is None,
//@at before "let line_break_pos"
    proof { assert(bytes.len() == bytes@.len()); }
//@at body-start
    proof {
        lemma_bytes_valid(content);
        let b = content.spec_bytes();
        let p = byte_pos as int;
        lemma_next_lb(b, p, true);
        if next_lb(b, p, true) is Some { lemma_next_lb(b, next_lb(b, p, true)->0 + 1, true); }
        assert forall|q: int| 0 <= q < b.len() && is_lf(#[trigger] b[q]) implies cb(b, q + 1) by {
            lemma_ascii_is_boundary(b, q);
            lemma_ascii_next_boundary(b, q);
        }
    }
//@end
