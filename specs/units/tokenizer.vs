//@unit tokenizer
// L9: tokenizer.rs (get_state automaton, check_delimiter_start, tokenize)

pub mod tokenizer {
use super::*;
use std::str::Chars;
//@item file=tokenizer.rs kind=enum name=TokenKind
//@item file=tokenizer.rs kind=struct name=ElementToken
//@item file=tokenizer.rs kind=struct name=Token
//@item file=tokenizer.rs kind=enum name=State

/// stand-in for `#[derive(PartialEq)]` on TokenKind (the derive is dropped by the extraction): equal variants with equal fields
impl<'a, 'b> vstd::std_specs::cmp::PartialEqSpecImpl for TokenKind<'a, 'b> {
    open spec fn obeys_eq_spec() -> bool { true }
    open spec fn eq_spec(&self, other: &Self) -> bool {
        match (*self, *other) {
            (TokenKind::Text, TokenKind::Text) => true,
            (TokenKind::Element(x), TokenKind::Element(y)) => x.delimiter_start@ == y.delimiter_start@ && x.delimiter_end@ == y.delimiter_end@,
            _ => false,
        }
    }
}
impl<'a, 'b> PartialEq for TokenKind<'a, 'b> {
    #[verifier::external_body]
    fn eq(&self, other: &Self) -> (r: bool) { unimplemented!() }
}

//@include tokenizer_vocab.vs
//@include tokenizer_spec_vocab.vs

#[verifier::prophetic]
pub open spec fn sv(s: State) -> GState {
    match s {
        State::Text => GState::Text,
        State::DelimiterStart(cs) => GState::DelimiterStart(it_rem(cs)),
        State::InDelimiter => GState::InDelimiter,
        State::DelimiterEnd(cs) => GState::DelimiterEnd(it_rem(cs)),
    }
}
#[verifier::prophetic]
pub open spec fn state_ok(s: State) -> bool {
    match s {
        State::DelimiterStart(cs) => it_ok(cs),
        State::DelimiterEnd(cs) => it_ok(cs),
        _ => true,
    }
}
pub open spec fn kind_view(k: Option<TokenKind>, ds: &str, de: &str) -> Option<bool> {
    match k {
        Some(TokenKind::Text) => Some(false),
        Some(TokenKind::Element(e)) => if e.delimiter_start == ds && e.delimiter_end == de { Some(true) } else { None },
        None => None,
    }
}

//@fn id=check_delimiter_start file=tokenizer.rs name=check_delimiter_start props=C01,C07,C08
//@ret r
//@requires
    delimiter_start@.len() > 0,
//@ensures label=check_start_exact props=C07,C08
    sv(r) == check_start_spec(*c, delimiter_start@), state_ok(r),
//@at before "if *c == delimiter_start_chars.next().unwrap()"
    let ghost __r0 = it_rem(delimiter_start_chars);
//@end

//@fn id=get_state file=tokenizer.rs name=get_state props=C01,C07,C08
//@ret r
//@requires
    delimiter_start@.len() > 0,
    delimiter_end@.len() > 0,
    state_ok(state),
//@ensures label=get_state_exact props=C07,C08
    (kind_view(r.0, delimiter_start, delimiter_end), sv(r.1)) == get_state_spec(*c, delimiter_start@, delimiter_end@, sv(state)),
    state_ok(r.1),
    r.0 matches Some(TokenKind::Element(e)) ==> e.delimiter_start == delimiter_start && e.delimiter_end == delimiter_end,
//@end

pub proof fn lemma_scan_step(cs: Seq<char>, ds: Seq<char>, de: Seq<char>, n: int)
    requires 0 <= n,
    ensures scan(cs, ds, de, n + 1) == ({
        let p = scan(cs, ds, de, n);
        let bp = char_byte_pos(cs, n);
        let st = get_state_spec(cs[n], ds, de, p.1);
        match st.0 {
            Some(is_el) => (
                if bp - p.2 > 0 { p.0.push(GTok { is_element: is_el, start: p.3, byte_start: p.2, end: n, byte_end: bp }) } else { p.0 },
                st.1, bp, n),
            None => (p.0, st.1, p.2, p.3),
        }
    }),
    scan(cs, ds, de, 0) == (Seq::<GTok>::empty(), GState::Text, 0int, 0int),
{}
pub proof fn lemma_merged_step(ts: Seq<GTok>, n: int)
    requires 0 <= n,
    ensures merged(ts, n + 1) == ({
        let acc = merged(ts, n);
        let cur = ts[n];
        if acc.len() > 0 && !acc.last().is_element && !cur.is_element {
            acc.drop_last().push(GTok { end: cur.end, byte_end: cur.byte_end, ..acc.last() })
        } else { acc.push(cur) }
    }),
    merged(ts, 0) == Seq::<GTok>::empty(),
{}
pub proof fn lemma_tvs_push(ts: Seq<Token>, t: Token)
    ensures tvs(ts.push(t)) == tvs(ts).push(tv(t)),
{ assert(tvs(ts.push(t)) =~= tvs(ts).push(tv(t))); }
pub proof fn lemma_tvs_replace_last(ts: Seq<Token>, t: Token)
    requires ts.len() > 0,
    ensures tvs(ts.drop_last().push(t)) == tvs(ts).drop_last().push(tv(t)),
{ assert(tvs(ts.drop_last().push(t)) =~= tvs(ts).drop_last().push(tv(t))); }
pub proof fn lemma_chain_push(ts: Seq<Token>, t: Token, cs: Seq<char>, upto: int)
    requires tok_chain(ts, cs, upto), t.start == upto, t.start < t.end <= cs.len(),
        t.byte_start == char_byte_pos(cs, t.start as int), t.byte_end == char_byte_pos(cs, t.end as int),
    ensures tok_chain(ts.push(t), cs, t.end as int),
{
    let r = ts.push(t);
    assert forall|i: int| 0 <= i < r.len() - 1 implies (#[trigger] r[i]).end == r[i + 1].start by {
        if i < ts.len() - 1 { assert(ts[i].end == ts[i + 1].start); }
    }
}
pub proof fn lemma_chain_replace_last(ts: Seq<Token>, t: Token, cs: Seq<char>, upto: int, new_end: int)
    requires tok_chain(ts, cs, upto), ts.len() > 0, t.start == ts.last().start, t.byte_start == ts.last().byte_start,
        upto < new_end <= cs.len(), t.end == new_end, t.byte_end == char_byte_pos(cs, new_end),
    ensures tok_chain(ts.drop_last().push(t), cs, new_end),
{
    let r = ts.drop_last().push(t);
    assert forall|i: int| 0 <= i < r.len() - 1 implies (#[trigger] r[i]).end == r[i + 1].start by {
        assert(ts[i].end == ts[i + 1].start);
    }
    assert forall|i: int| 0 <= i < r.len() implies (#[trigger] r[i]).start < r[i].end <= cs.len()
            && r[i].byte_start == char_byte_pos(cs, r[i].start as int) && r[i].byte_end == char_byte_pos(cs, r[i].end as int) by {
        if i < r.len() - 1 { assert(r[i] == ts[i]); } else { assert(ts[i].start < ts[i].end); }
    }
}
pub proof fn lemma_toks_ok_push(ts: Seq<Token>, t: Token, b: Seq<u8>, ds: &str, de: &str)
    requires toks_ok(ts, b, ds, de), tok_ok(t, b, ds, de),
    ensures toks_ok(ts.push(t), b, ds, de),
{
    let r = ts.push(t);
    assert forall|i: int| 0 <= i < r.len() implies tok_ok(#[trigger] r[i], b, ds, de) by {
        if i < ts.len() { assert(tok_ok(ts[i], b, ds, de)); }
    }
}
pub proof fn lemma_toks_ok_replace_last(ts: Seq<Token>, t: Token, b: Seq<u8>, ds: &str, de: &str)
    requires toks_ok(ts, b, ds, de), tok_ok(t, b, ds, de), ts.len() > 0,
    ensures toks_ok(ts.drop_last().push(t), b, ds, de),
{
    let r = ts.drop_last().push(t);
    assert forall|i: int| 0 <= i < r.len() implies tok_ok(#[trigger] r[i], b, ds, de) by {
        if i < ts.len() - 1 { assert(tok_ok(ts[i], b, ds, de)); }
    }
}
pub proof fn lemma_no_adj_push(ts: Seq<Token>, t: Token)
    requires no_adjacent_text(ts), ts.len() > 0 ==> !(ts.last().kind is Text && t.kind is Text),
    ensures no_adjacent_text(ts.push(t)),
{
    let r = ts.push(t);
    assert forall|i: int| 0 <= i < r.len() - 1 implies !((#[trigger] r[i]).kind is Text && r[i + 1].kind is Text) by {
        if i < ts.len() - 1 { assert(!(ts[i].kind is Text && ts[i + 1].kind is Text)); }
    }
}
pub proof fn lemma_no_adj_replace_last(ts: Seq<Token>, t: Token)
    requires no_adjacent_text(ts), ts.len() > 0, t.kind is Text == ts.last().kind is Text,
    ensures no_adjacent_text(ts.drop_last().push(t)),
{
    let r = ts.drop_last().push(t);
    assert forall|i: int| 0 <= i < r.len() - 1 implies !((#[trigger] r[i]).kind is Text && r[i + 1].kind is Text) by {
        assert(!(ts[i].kind is Text && ts[i + 1].kind is Text));
    }
}

//@fn id=tokenize file=tokenizer.rs name=tokenize props=C01,C07,C08
//@ret r
//@requires
    delimiter_start@.len() > 0,
    delimiter_end@.len() > 0,
//@ensures label=tokenize_exact props=C07,C08
    tvs(r@) == tokenize_spec(source@, delimiter_start@, delimiter_end@),
//@ensures label=tokens_are_source_slices props=C01,C07
    toks_ok(r@, source.spec_bytes(), delimiter_start, delimiter_end),
//@ensures label=tokens_partition_source props=C07
    tok_chain(r@, source@, source@.len() as int),
    no_adjacent_text(r@),
//@ensures label=token_texts_concatenate_to_source props=C07
    tok_concat(r@, r@.len() as int) == source.spec_bytes(),
//@ensures label=tag_tokens_carry_both_delimiters props=C07,C08
    forall|i: int| 0 <= i < r@.len() ==> ((#[trigger] r@[i]).kind is Element
        ==> tag_span(source@, delimiter_start@, delimiter_end@, r@[i].start as int, r@[i].end as int)),
//@strslice source
//@fold 1 type="(Vec<Token<'a, 'b, 'c>>, State<'b, 'c>, usize, usize, usize)"
//@fold 2 type="Vec<Token<'a, 'b, 'c>>"
//@adapter 1 type="Option<(usize, char)>"
//@desugar-for 1
//@loop 1
//@invariant_except_break
    it_ok(__it1),
    delimiter_start@.len() > 0, delimiter_end@.len() > 0,
    0 <= __n <= source@.len() <= source.spec_bytes().len() <= isize::MAX,
    source.spec_bytes() == encode_utf8(source@),
    it_rem(__it1) =~= char_index_seq(source@).skip(__n),
    state_ok(__acc1.1),
    (tvs(__acc1.0@), sv(__acc1.1), __acc1.2 as int, __acc1.3 as int) == scan(source@, delimiter_start@, delimiter_end@, __n),
    __acc1.4 == __n,
    __acc1.3 <= __n && __acc1.2 == char_byte_pos(source@, __acc1.3 as int),
    __n > 0 ==> __acc1.3 < __n,
    toks_ok(__acc1.0@, source.spec_bytes(), delimiter_start, delimiter_end),
    tok_chain(__acc1.0@, source@, __acc1.3 as int),
//@loop-ensures
    state_ok(__acc1.1),
    (tvs(__acc1.0@), sv(__acc1.1), __acc1.2 as int, __acc1.3 as int) == scan(source@, delimiter_start@, delimiter_end@, source@.len() as int),
    __acc1.4 == source@.len(),
    __acc1.3 <= source@.len() && __acc1.2 == char_byte_pos(source@, __acc1.3 as int),
    source@.len() > 0 ==> __acc1.3 < source@.len(),
    toks_ok(__acc1.0@, source.spec_bytes(), delimiter_start, delimiter_end),
    tok_chain(__acc1.0@, source@, __acc1.3 as int),
//@decreases
    IteratorSpec::decrease(&__it1)->0
//@loop 2
//@invariant_except_break
    it_ok(__itA1),
    0 <= __m <= source@.len(),
    it_rem(__itA1) =~= char_index_seq(source@).skip(__m),
    (__rA1 is Some) == (__m > 0),
//@loop-ensures
    (__rA1 is Some) == (source@.len() > 0),
//@decreases
    IteratorSpec::decrease(&__itA1)->0
//@loop 3 iter=it3
//@invariant
    it3.seq() == __fl,
    source.spec_bytes() == encode_utf8(source@),
    source@.len() <= source.spec_bytes().len() <= isize::MAX,
    toks_ok(__fl, source.spec_bytes(), delimiter_start, delimiter_end),
    tok_chain(__fl, source@, source@.len() as int),
    toks_ok(__acc2@, source.spec_bytes(), delimiter_start, delimiter_end),
    tvs(__acc2@) == merged(tvs(__fl), it3.index@),
    tok_chain(__acc2@, source@, if it3.index@ == 0 { 0 } else { __fl[it3.index@ - 1].end as int }),
    no_adjacent_text(__acc2@),
//@at body-start
    hide(scan); hide(merged); hide(tok_chain); hide(toks_ok); hide(no_adjacent_text); hide(get_state_spec);
    proof {
        axiom_str_len_isize(source);
        lemma_encode_ge(source@);
        assert(source.spec_bytes() == encode_utf8(source@));
    }
//@at before "loop {" 1
    let ghost mut __n: int = 0;
    proof {
        assert(char_index_seq(source@).skip(0) =~= char_index_seq(source@));
        assert(tvs(Seq::<Token>::empty()) =~= Seq::<GTok>::empty());
        lemma_char_pos_mono(source@, 0, 0);
        lemma_scan_step(source@, delimiter_start@, delimiter_end@, 0);
        reveal(tok_chain); reveal(toks_ok);
    }
//@at loop 1 start
    let ghost __rest = it_rem(__it1);
    let ghost __t0 = __acc1.0@;
    let ghost __sp0 = __acc1.3 as int;
//@at before "let (mut tokens, state, mut byte_start_pos, mut start_pos, current)"
    proof {
        assert(__rest[0] == __x1);
        assert(__rest.drop_first() =~= char_index_seq(source@).skip(__n + 1));
        lemma_char_pos_mono(source@, __sp0, __n);
        lemma_char_pos_mono(source@, __n, source@.len() as int);
        lemma_char_pos_boundary(source@, __n);
        lemma_char_pos_boundary(source@, __sp0);
        lemma_scan_step(source@, delimiter_start@, delimiter_end@, __n);
    }
//@at before "(tokens, next_state, byte_start_pos, start_pos, current + 1)"
    proof {
        if tokens@.len() > __t0.len() {
            assert(tokens@ =~= __t0.push(tokens@.last()));
            lemma_tvs_push(__t0, tokens@.last());
            lemma_chain_push(__t0, tokens@.last(), source@, __sp0);
            reveal(toks_ok);
            let t = tokens@.last();
            let b = source.spec_bytes();
            assert(t.byte_start <= t.byte_end <= b.len());
            assert(cb(b, t.byte_start as int) && cb(b, t.byte_end as int));
            assert(t.kind matches TokenKind::Element(e) ==> e.delimiter_start == delimiter_start && e.delimiter_end == delimiter_end);
            lemma_toks_ok_push(__t0, tokens@.last(), source.spec_bytes(), delimiter_start, delimiter_end);
        } else if start_pos as int != __sp0 {
            // zero-length segment: the boundary coincides with the previous one
            assert(__sp0 == __n) by { if __sp0 < __n { lemma_char_pos_mono(source@, __sp0, __n); } }
        }
        __n = __n + 1;
    }
//@at before "let (token_kind, _) = get_state"
    proof {
        lemma_char_pos_mono(source@, start_pos as int, source@.len() as int);
        lemma_char_pos_boundary(source@, start_pos as int);
        lemma_char_pos_boundary(source@, source@.len() as int);
    }
//@at before "loop {" 2
    let ghost mut __m: int = 0;
    proof { assert(char_index_seq(source@).skip(0) =~= char_index_seq(source@)); }
//@at loop 2 start
    let ghost __rest2 = it_rem(__itA1);
//@at before "__rA1 = Some(__xA1);"
    proof {
        assert(__rest2.drop_first() =~= char_index_seq(source@).skip(__m + 1));
        __m = __m + 1;
    }
//@at before "if let Some(token) = additional_token {"
    let ghost __t1 = tokens@;
//@at after "tokens.push(token);"
    proof {
        assert(tokens@ =~= __t1.push(tokens@.last()));
        lemma_tvs_push(__t1, tokens@.last());
        lemma_chain_push(__t1, tokens@.last(), source@, start_pos as int);
        reveal(toks_ok);
        lemma_toks_ok_push(__t1, tokens@.last(), source.spec_bytes(), delimiter_start, delimiter_end);
    }
//@at before "for __x2 in"
    let ghost __fl = tokens@;
    proof {
        assert(tvs(__fl) == flushed(source@, delimiter_start@, delimiter_end@));
        assert(tvs(Seq::<Token>::empty()) =~= Seq::<GTok>::empty());
        lemma_merged_step(tvs(__fl), 0);
        assert(tok_chain(Seq::<Token>::empty(), source@, 0)) by { reveal(tok_chain); }
        assert(toks_ok(Seq::<Token>::empty(), source.spec_bytes(), delimiter_start, delimiter_end)) by { reveal(toks_ok); }
        assert(no_adjacent_text(Seq::<Token>::empty())) by { reveal(no_adjacent_text); }
        if source@.len() == 0 { reveal(tok_chain); }
    }
//@at loop 3 start
    let ghost __a0 = __acc2@;
    let ghost __j = it3.index@;
    proof {
        lemma_merged_step(tvs(__fl), __j);
        assert(tok_ok(__fl[__j], source.spec_bytes(), delimiter_start, delimiter_end)) by { reveal(toks_ok); }
        assert(__fl[__j].start < __fl[__j].end <= source@.len() && __fl[__j].byte_end == char_byte_pos(source@, __fl[__j].end as int)
            && __fl[__j].byte_start == char_byte_pos(source@, __fl[__j].start as int)
            && (__j > 0 ==> __fl[__j - 1].end == __fl[__j].start) && (__j == 0 ==> __fl[__j].start == 0)) by { reveal(tok_chain); }
        if __a0.len() > 0 {
            assert(tok_ok(__a0.last(), source.spec_bytes(), delimiter_start, delimiter_end)) by { reveal(toks_ok); }
            assert(__a0.last().start < __a0.last().end && __a0.last().byte_start == char_byte_pos(source@, __a0.last().start as int)
                && __j > 0 && __a0.last().end == __fl[__j - 1].end) by { reveal(tok_chain); }
            lemma_char_pos_mono(source@, __a0.last().start as int, __fl[__j].end as int);
            lemma_char_pos_mono(source@, __fl[__j].end as int, source@.len() as int);
            lemma_char_pos_boundary(source@, __fl[__j].end as int);
        }
    }
//@at loop 3 end
    proof {
        if __acc2@.len() == __a0.len() + 1 {
            assert(__acc2@ =~= __a0.push(__acc2@.last()));
            lemma_tvs_push(__a0, __acc2@.last());
            lemma_chain_push(__a0, __acc2@.last(), source@, if __j == 0 { 0 } else { __fl[__j - 1].end as int });
            lemma_toks_ok_push(__a0, __acc2@.last(), source.spec_bytes(), delimiter_start, delimiter_end);
            lemma_no_adj_push(__a0, __acc2@.last());
        } else {
            assert(__acc2@ =~= __a0.drop_last().push(__acc2@.last()));
            lemma_tvs_replace_last(__a0, __acc2@.last());
            lemma_chain_replace_last(__a0, __acc2@.last(), source@, __fl[__j - 1].end as int, __fl[__j].end as int);
            lemma_toks_ok_replace_last(__a0, __acc2@.last(), source.spec_bytes(), delimiter_start, delimiter_end);
            lemma_no_adj_replace_last(__a0, __acc2@.last());
        }
    }
//@at after-loop 3
    proof {
        assert(tvs(__fl).len() == __fl.len());
        if __fl.len() > 0 { assert(__fl[__fl.len() - 1].end == source@.len()) by { reveal(tok_chain); } }
        else { reveal(tok_chain); }
        lemma_tok_concat(__acc2@, source@, source.spec_bytes(), delimiter_start, delimiter_end, __acc2@.len() as int);
        lemma_tokenize_tagged(source@, delimiter_start@, delimiter_end@);
        let g = tokenize_spec(source@, delimiter_start@, delimiter_end@);
        assert forall|i: int| 0 <= i < __acc2@.len() implies ((#[trigger] __acc2@[i]).kind is Element
            ==> tag_span(source@, delimiter_start@, delimiter_end@, __acc2@[i].start as int, __acc2@[i].end as int)) by {
            assert(tvs(__acc2@)[i] == g[i]);
        }
    }
//@end

pub proof fn lemma_encode_ge(c: Seq<char>)
    ensures encode_utf8(c).len() >= c.len(),
{
    if c.len() > 0 { lemma_encode_nonempty(c); }
}

} // mod tokenizer
