//@unit element_parser
// L10: element_parser::parse — the attribute state machine, mirrored on the OFFSETS it slices at.
// (vstd gives no usable postcondition for `&str[a..b]`, so the text of names/values is tied to these
//  offsets only by the slice expressions in the code, which the proof anchors quote verbatim.)
//@include types.vs

pub mod ep {
use super::*;
use crate::tokenizer;
use crate::element_parser::{Element, Attribute};

/// ghost mirror of the local `enum State` of parse
pub enum PState { NameBegin, Name(int), NameEnd, ValueBegin, ValueWithNoQuote, ValueWithDoubleQuote(int), ValueWithSingleQuote(int), ParseError }
/// one name[=value] pair as byte offsets into `target`
pub struct POff { pub ns: int, pub ne: int, pub val: Option<(int, int)> }

pub open spec fn set_last_val(offs: Seq<POff>, a: int, b: int) -> Seq<POff> {
    offs.update(offs.len() - 1, POff { val: Some((a, b)), ..offs[offs.len() - 1] })
}
/// one step of the state machine on character c at byte offset pos
pub open spec fn pstep(st: PState, offs: Seq<POff>, pos: int, c: char) -> (PState, Seq<POff>) {
    match st {
        PState::NameBegin => (if c == ' ' || c == '\n' { PState::NameBegin } else if c == '=' || c == '"' || c == '\'' { PState::ParseError } else { PState::Name(pos) }, offs),
        PState::Name(start) => if c == ' ' || c == '\n' { (PState::NameEnd, offs.push(POff { ns: start, ne: pos, val: None })) }
            else if c == '=' { (PState::ValueBegin, offs.push(POff { ns: start, ne: pos, val: None })) } else { (st, offs) },
        PState::NameEnd => (if c == ' ' || c == '\n' { PState::NameEnd } else if c == '=' { PState::ValueBegin } else { PState::Name(pos) }, offs),
        PState::ValueBegin => (if c == ' ' || c == '\n' { PState::ValueBegin } else if c == '"' { PState::ValueWithDoubleQuote(pos + 1) }
            else if c == '\'' { PState::ValueWithSingleQuote(pos + 1) } else { PState::ValueWithNoQuote }, offs),
        PState::ValueWithDoubleQuote(start) => if c == '"' { (PState::NameBegin, set_last_val(offs, start, pos)) } else { (st, offs) },
        PState::ValueWithSingleQuote(start) => if c == '\'' { (PState::NameBegin, set_last_val(offs, start, pos)) } else { (st, offs) },
        PState::ValueWithNoQuote => (if c == ' ' { PState::NameBegin } else { st }, offs),
        PState::ParseError => (st, offs),
    }
}
pub open spec fn pscan(cs: Seq<char>, n: int) -> (PState, Seq<POff>)
    decreases n,
{
    if n <= 0 { (PState::NameBegin, Seq::empty()) } else {
        let p = pscan(cs, n - 1);
        pstep(p.0, p.1, char_byte_pos(cs, n - 1), cs[n - 1])
    }
}
/// the pairs after the final flush of a pending name
pub open spec fn pfinal(cs: Seq<char>) -> (PState, Seq<POff>) {
    let p = pscan(cs, cs.len() as int);
    match p.0 { PState::Name(start) => (p.0, p.1.push(POff { ns: start, ne: encode_utf8(cs).len() as int, val: None })), _ => p }
}
pub open spec fn parse_ok(cs: Seq<char>) -> bool { !(pfinal(cs).0 is ParseError) && pfinal(cs).1.len() > 0 }
pub open spec fn target_of(token: tokenizer::Token) -> Seq<char> {
    match token.kind {
        tokenizer::TokenKind::Element(e) => strip_suffixes(strip_prefixes(token.value@, e.delimiter_start@), e.delimiter_end@),
        _ => Seq::empty(),
    }
}
pub proof fn lemma_pscan_step(cs: Seq<char>, n: int)
    requires 0 <= n,
    ensures pscan(cs, n + 1) == pstep(pscan(cs, n).0, pscan(cs, n).1, char_byte_pos(cs, n), cs[n]),
        pscan(cs, 0) == (PState::NameBegin, Seq::<POff>::empty()),
{}
/// an ASCII character occupies one byte
pub proof fn lemma_ascii_char_one_byte(cs: Seq<char>, n: int)
    requires 0 <= n < cs.len(), (cs[n] as u32) < 0x80,
    ensures char_byte_pos(cs, n + 1) == char_byte_pos(cs, n) + 1,
{
    assert(cs.take(n + 1) =~= cs.take(n) + seq![cs[n]]);
    encode_utf8_concat(cs.take(n), seq![cs[n]]);
    reveal_with_fuel(encode_utf8, 3);
    assert(seq![cs[n]].drop_first() =~= Seq::<char>::empty());
}

//@fn id=element_parse file=element_parser.rs name=parse props=C01,C06,C09
//@ret r
//@ensures label=parse_decision props=C01,C09
    !(token.kind is Element) ==> r is None,
    token.kind is Element ==> (r is Some <==> parse_ok(target_of(*token))),
    token.kind is Element && r is Some ==> r->0.attrs@.len() == pfinal(target_of(*token)).1.len() - 1,
//@hoist State
//@fold 1 type="(Vec<(&str, Option<&str>)>, State)"
//@mapcollect 1 type="Vec<Attribute>"
//@desugar-for 1
//@loop 1
//@invariant_except_break
    it_ok(__it1),
    0 <= __n <= target@.len(),
    target.spec_bytes() == encode_utf8(target@),
    target.spec_bytes().len() <= isize::MAX,
    it_rem(__it1) =~= char_index_seq(target@).skip(__n),
    (psv(__acc1.1), __offs) == pscan(target@, __n),
    __acc1.0@.len() == __offs.len(),
    pstate_wf(psv(__acc1.1), __offs, target@, __n),
//@loop-ensures
    target.spec_bytes() == encode_utf8(target@),
    (psv(__acc1.1), __offs) == pscan(target@, target@.len() as int),
    __acc1.0@.len() == __offs.len(),
    pstate_wf(psv(__acc1.1), __offs, target@, target@.len() as int),
//@decreases
    IteratorSpec::decrease(&__it1)->0
//@loop 2 iter=it2
//@invariant
    __vM1@.len() == it2.index@,
//@at body-start
    broadcast use {axiom_trim_start_str, axiom_trim_end_str};
//@at before "let (mut pairs, last_state) ="
    let ghost mut __n: int = 0;
    let ghost mut __offs: Seq<POff> = Seq::empty();
//@at before "loop {"
    proof {
        axiom_str_len_isize(target);
        assert(char_index_seq(target@).skip(0) =~= char_index_seq(target@));
        lemma_pscan_step(target@, 0);
        lemma_char_pos_mono(target@, 0, 0);
    }
//@at loop 1 start
    let ghost __rest = it_rem(__it1);
    let ghost __o0 = __offs;
    let ghost __s0 = psv(__acc1.1);
//@at before "let (mut pairs, mut state) = __acc1;"
    proof {
        assert(__rest[0] == __x1);
        assert(__rest.drop_first() =~= char_index_seq(target@).skip(__n + 1));
        lemma_pscan_step(target@, __n);
        lemma_char_pos_mono(target@, __n, target@.len() as int);
        lemma_char_pos_mono(target@, __n, __n + 1);
        lemma_char_pos_boundary(target@, __n);
        lemma_char_pos_boundary(target@, __n + 1);
        if (target@[__n] as u32) < 0x80 { lemma_ascii_char_one_byte(target@, __n); }
        lemma_state_pos(psv(__acc1.1), __offs, target@, __n);
    }
//@at before "pairs.push((&target[start..pos], None));" 1
    proof { __offs = __offs.push(POff { ns: start as int, ne: pos as int, val: None }); }
//@at before "pairs.push((&target[start..pos], None));" 2
    proof { __offs = __offs.push(POff { ns: start as int, ne: pos as int, val: None }); }
//@at before "pairs.last_mut().unwrap().1 = Some(&target[start..pos]);" 1
    proof { __offs = set_last_val(__offs, start as int, pos as int); }
//@at before "pairs.last_mut().unwrap().1 = Some(&target[start..pos]);" 2
    proof { __offs = set_last_val(__offs, start as int, pos as int); }
//@at before "(pairs, state)"
    proof {
        lemma_pstate_wf_step(__s0, __o0, target@, __n);
        __n = __n + 1;
    }
//@at before "if let State::Name(start) = last_state {"
    proof {
        lemma_char_pos_mono(target@, 0, target@.len() as int);
        lemma_state_pos(psv(last_state), __offs, target@, target@.len() as int);
    }
//@at before "pairs.push((&target[start..], None));"
    proof {
        lemma_char_pos_boundary(target@, target@.len() as int);
        assert(psv(last_state) == PState::Name(start as int));
        assert(start <= target.spec_bytes().len());
        assert(cb(target.spec_bytes(), start as int));
    }
//@end

/// mirror of the hoisted local enum
pub open spec fn psv(s: State) -> PState {
    match s {
        State::NameBegin => PState::NameBegin,
        State::Name(p) => PState::Name(p as int),
        State::NameEnd => PState::NameEnd,
        State::ValueBegin => PState::ValueBegin,
        State::ValueWithNoQuote => PState::ValueWithNoQuote,
        State::ValueWithDoubleQuote(p) => PState::ValueWithDoubleQuote(p as int),
        State::ValueWithSingleQuote(p) => PState::ValueWithSingleQuote(p as int),
        State::ParseError => PState::ParseError,
    }
}
/// offsets stored in the state are byte offsets of characters already seen; value states have a pair to fill in
pub open spec fn pstate_wf(st: PState, offs: Seq<POff>, cs: Seq<char>, n: int) -> bool {
    match st {
        PState::Name(s) => exists|k: int| 0 <= k < n && s == char_byte_pos(cs, k),
        PState::ValueWithDoubleQuote(s) => offs.len() > 0 && exists|k: int| 0 <= k <= n && s == char_byte_pos(cs, k),
        PState::ValueWithSingleQuote(s) => offs.len() > 0 && exists|k: int| 0 <= k <= n && s == char_byte_pos(cs, k),
        PState::ValueBegin => offs.len() > 0,
        PState::NameEnd => offs.len() > 0,
        _ => true,
    }
}
pub proof fn lemma_state_pos(st: PState, offs: Seq<POff>, cs: Seq<char>, n: int)
    requires pstate_wf(st, offs, cs, n), 0 <= n <= cs.len(),
    ensures
        st matches PState::Name(s) ==> 0 <= s <= char_byte_pos(cs, n) && cb(encode_utf8(cs), s),
        st matches PState::ValueWithDoubleQuote(s) ==> 0 <= s <= char_byte_pos(cs, n) && cb(encode_utf8(cs), s),
        st matches PState::ValueWithSingleQuote(s) ==> 0 <= s <= char_byte_pos(cs, n) && cb(encode_utf8(cs), s),
{
    match st {
        PState::Name(s) => {
            let k = choose|k: int| 0 <= k < n && s == char_byte_pos(cs, k);
            lemma_char_pos_boundary(cs, k); lemma_char_pos_mono(cs, k, n);
        },
        PState::ValueWithDoubleQuote(s) => {
            let k = choose|k: int| 0 <= k <= n && s == char_byte_pos(cs, k);
            lemma_char_pos_boundary(cs, k); lemma_char_pos_mono(cs, k, n);
        },
        PState::ValueWithSingleQuote(s) => {
            let k = choose|k: int| 0 <= k <= n && s == char_byte_pos(cs, k);
            lemma_char_pos_boundary(cs, k); lemma_char_pos_mono(cs, k, n);
        },
        _ => {},
    }
}
pub proof fn lemma_pstate_wf_step(st: PState, offs: Seq<POff>, cs: Seq<char>, n: int)
    requires pstate_wf(st, offs, cs, n), 0 <= n < cs.len(),
    ensures pstate_wf(pstep(st, offs, char_byte_pos(cs, n), cs[n]).0, pstep(st, offs, char_byte_pos(cs, n), cs[n]).1, cs, n + 1),
{
    let c = cs[n];
    let pos = char_byte_pos(cs, n);
    let r = pstep(st, offs, pos, c);
    if c == '"' || c == '\'' { lemma_ascii_char_one_byte(cs, n); }
    match r.0 {
        PState::Name(s) => {
            if st is Name && st->Name_0 == s {
                let k = choose|k: int| 0 <= k < n && s == char_byte_pos(cs, k);
                assert(0 <= k < n + 1 && s == char_byte_pos(cs, k));
            } else {
                assert(0 <= n < n + 1 && s == char_byte_pos(cs, n));
            }
        },
        PState::ValueWithDoubleQuote(s) => {
            if st is ValueWithDoubleQuote {
                let k = choose|k: int| 0 <= k <= n && s == char_byte_pos(cs, k);
                assert(0 <= k <= n + 1 && s == char_byte_pos(cs, k));
            } else {
                assert(0 <= n + 1 <= n + 1 && s == char_byte_pos(cs, n + 1));
            }
        },
        PState::ValueWithSingleQuote(s) => {
            if st is ValueWithSingleQuote {
                let k = choose|k: int| 0 <= k <= n && s == char_byte_pos(cs, k);
                assert(0 <= k <= n + 1 && s == char_byte_pos(cs, k));
            } else {
                assert(0 <= n + 1 <= n + 1 && s == char_byte_pos(cs, n + 1));
            }
        },
        _ => {},
    }
}
impl vstd::std_specs::cmp::PartialEqSpecImpl for State {
    open spec fn obeys_eq_spec() -> bool { true }
    open spec fn eq_spec(&self, other: &Self) -> bool { psv(*self) == psv(*other) }
}
impl PartialEq for State {
    #[verifier::external_body]
    fn eq(&self, other: &Self) -> (r: bool) { unimplemented!() }
}

} // mod ep
