// ---- line numbers (C15) ----
/// byte offsets of the line breaks among the first n characters
pub open spec fn lf_positions(c: Seq<char>, n: int) -> Seq<usize>
    decreases n,
{
    if n <= 0 { Seq::empty() } else {
        lf_positions(c, n - 1) + (if c[n - 1] == '\n' { seq![char_byte_pos(c, n - 1) as usize] } else { Seq::empty() })
    }
}
/// i is the first index whose entry is greater than needle
pub open spec fn first_gt(m: Seq<usize>, needle: usize, i: int) -> bool {
    &&& 0 <= i < m.len() && m[i] > needle
    &&& forall|k: int| 0 <= k < i ==> (#[trigger] m[k]) <= needle
}
pub open spec fn find_line_spec(m: Seq<usize>, needle: usize) -> int {
    if exists|i: int| first_gt(m, needle, i) { (choose|i: int| first_gt(m, needle, i)) + 1 } else { m.len() as int + 1 }
}
pub proof fn lemma_first_gt_unique(m: Seq<usize>, needle: usize, i: int, j: int)
    requires first_gt(m, needle, i), first_gt(m, needle, j),
    ensures i == j,
{
    if i < j { assert(m[i] <= needle); } else if j < i { assert(m[j] <= needle); }
}


pub proof fn lemma_lf_len(c: Seq<char>, n: int)
    requires 0 <= n <= c.len(),
    ensures lf_positions(c, n).len() <= n,
    decreases n,
{
    if n > 0 { lemma_lf_len(c, n - 1); }
}
