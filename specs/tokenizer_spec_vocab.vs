// ---- the tokenizer as a pure function (C07/C08): automaton, scanning fold, flush, merge ----
/// ghost view of the automaton state: a partial delimiter match is the sequence of characters still expected
pub enum GState { Text, DelimiterStart(Seq<char>), InDelimiter, DelimiterEnd(Seq<char>) }

pub open spec fn check_start_spec(c: char, ds: Seq<char>) -> GState {
    if c == ds[0] { GState::DelimiterStart(ds.skip(1)) } else { GState::Text }
}
/// the transition function: (Some(is_element) when a token boundary is emitted BEFORE c, next state)
pub open spec fn get_state_spec(c: char, ds: Seq<char>, de: Seq<char>, g: GState) -> (Option<bool>, GState) {
    match g {
        GState::Text => match check_start_spec(c, ds) {
            GState::DelimiterStart(r) => (Some(false), GState::DelimiterStart(r)),
            _ => (None, GState::Text),
        },
        GState::DelimiterStart(r) => if r.len() > 0 {
            if c == r[0] { (None, GState::DelimiterStart(r.skip(1))) } else { (None, GState::Text) }
        } else { (None, GState::InDelimiter) },
        GState::InDelimiter => if c == de[0] { (None, GState::DelimiterEnd(de.skip(1))) } else { (None, GState::InDelimiter) },
        GState::DelimiterEnd(r) => if r.len() > 0 {
            if c == r[0] { (None, GState::DelimiterEnd(r.skip(1))) } else { (None, GState::InDelimiter) }
        } else { (Some(true), check_start_spec(c, ds)) },
    }
}
/// state of the scanning fold after the first n characters: (tokens, automaton state, byte_start, start)
pub open spec fn scan(cs: Seq<char>, ds: Seq<char>, de: Seq<char>, n: int) -> (Seq<GTok>, GState, int, int)
    decreases n,
{
    if n <= 0 { (Seq::empty(), GState::Text, 0, 0) } else {
        let p = scan(cs, ds, de, n - 1);
        let bp = char_byte_pos(cs, n - 1);
        let st = get_state_spec(cs[n - 1], ds, de, p.1);
        match st.0 {
            Some(is_el) => (
                if bp - p.2 > 0 { p.0.push(GTok { is_element: is_el, start: p.3, byte_start: p.2, end: n - 1, byte_end: bp }) } else { p.0 },
                st.1, bp, n - 1),
            None => (p.0, st.1, p.2, p.3),
        }
    }
}
/// tokens after the final flush
pub open spec fn flushed(cs: Seq<char>, ds: Seq<char>, de: Seq<char>) -> Seq<GTok> {
    let p = scan(cs, ds, de, cs.len() as int);
    if cs.len() == 0 { p.0 } else {
        let k = get_state_spec(' ', ds, de, p.1).0;
        p.0.push(GTok { is_element: k == Some(true), start: p.3, byte_start: p.2, end: cs.len() as int, byte_end: encode_utf8(cs).len() as int })
    }
}
/// adjacent text tokens merged (the last fold)
pub open spec fn merged(ts: Seq<GTok>, n: int) -> Seq<GTok>
    decreases n,
{
    if n <= 0 { Seq::empty() } else {
        let acc = merged(ts, n - 1);
        let cur = ts[n - 1];
        if acc.len() > 0 && !acc.last().is_element && !cur.is_element {
            acc.drop_last().push(GTok { end: cur.end, byte_end: cur.byte_end, ..acc.last() })
        } else { acc.push(cur) }
    }
}
pub open spec fn tokenize_spec(cs: Seq<char>, ds: Seq<char>, de: Seq<char>) -> Seq<GTok> {
    merged(flushed(cs, ds, de), flushed(cs, ds, de).len() as int)
}

