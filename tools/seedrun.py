#!/usr/bin/env python3
"""Confirm seeded changes (once) and run all checks against each, in parallel scratch worktrees (never touches /repo).
usage: seedrun.py <seed-root> <nworkers> <PROP> [<PROP> ...]"""
import json, os, subprocess, sys, shutil, re
from multiprocessing import Pool
ROOT = sys.argv[1]
CONF = '/tmp/seedconfirm.json'
def sh(cmd, cwd=None, env=None, timeout=3600):
    p = subprocess.run(cmd, shell=True, cwd=cwd, env=env, capture_output=True, text=True, timeout=timeout)
    return p.returncode, p.stdout + p.stderr
def work(args):
    k, seeds = args
    WT = f'/tmp/wt-verify-{k}'
    if not os.path.exists(WT):
        rc, out = sh(f'git -C /repo worktree add -q --detach {WT} HEAD')
        assert rc == 0, out
    conf = json.load(open(CONF)) if os.path.exists(CONF) else {}
    res = []
    for prop, n in seeds:
        d = f'{ROOT}/seed-{prop}/{n}'
        sid = f'{prop}-{n}'
        r = {'seed': sid, 'property': prop}
        sh('git checkout -q -- . && git clean -fdq -e target && git checkout -q --detach main', cwd=WT)
        rc, out = sh(f'git apply --3way {d}/patch.diff || git apply {d}/patch.diff', cwd=WT)
        sh('git reset -q', cwd=WT)
        r['applies'] = rc == 0
        if rc != 0:
            r['apply_error'] = out[-300:]; res.append(r); print(json.dumps(r), flush=True); continue
        if sid in conf and all(conf[sid].values()):
            r.update(conf[sid]); r['confirmed_earlier'] = True
        else:
            rc, out = sh('cargo test --workspace --no-fail-fast --offline 2>&1 | grep -E "^test result|^error" ', cwd=WT)
            r['suite_passes_with_change'] = ('FAILED' not in out and 'error' not in out and out.count('test result: ok') >= 3)
            os.makedirs(f'{WT}/chiritori/tests', exist_ok=True)
            shutil.copy(f'{d}/demo.rs', f'{WT}/chiritori/tests/demo.rs')
            rc, out = sh('cargo test --offline -p chiritori --test demo 2>&1 | tail -5', cwd=WT)
            r['demo_fails_with_change'] = 'test result: FAILED' in out or 'error' in out
            os.remove(f'{WT}/chiritori/tests/demo.rs')
        env = dict(os.environ, CHIRITORI_REPO=WT, CHIRITORI_SRC=f'{WT}/chiritori/src', VERIF_OUT_DIR=f'/tmp/seedout-{k}')
        rc, out = sh('python3 /verif/bin/check --all --tier quick', cwd='/verif', env=env)
        det = {}
        for l in out.splitlines():
            m = re.match(r'(VIOLATION|OK|UNDECIDED) property=(C\d+)', l)
            if m:
                kk = {'VIOLATION': 1, 'OK': 0, 'UNDECIDED': 2}[m.group(1)]
                dd = det.setdefault(m.group(2), {'rc': kk, 'lines': []})
                dd['rc'] = 1 if 1 in (kk, dd['rc']) else max(kk, dd['rc'])
                if kk == 1: dd['lines'].append(l[:400])
        r['detected_by'] = sorted(p for p, v in det.items() if v['rc'] == 1)
        r['undecided'] = sorted(p for p, v in det.items() if v['rc'] == 2)
        r['violation_lines'] = [l for v in det.values() for l in v['lines']][:8]
        if 'demo_passes_without_change' not in r:
            sh('git checkout -q -- . && git clean -fdq -e target', cwd=WT)
            os.makedirs(f'{WT}/chiritori/tests', exist_ok=True)
            shutil.copy(f'{d}/demo.rs', f'{WT}/chiritori/tests/demo.rs')
            rc, out = sh('cargo test --offline -p chiritori --test demo 2>&1 | tail -5', cwd=WT)
            r['demo_passes_without_change'] = 'test result: ok' in out
            os.remove(f'{WT}/chiritori/tests/demo.rs')
        res.append(r)
        print(json.dumps({k_: v for k_, v in r.items() if k_ != 'violation_lines'}), flush=True)
    sh('git checkout -q -- . && git clean -fdq -e target', cwd=WT)
    return res
if __name__ == '__main__':
    nw = int(sys.argv[2])
    seeds = []
    for prop in sys.argv[3:]:
        d0 = f'{ROOT}/seed-{prop}'
        for n in sorted(os.listdir(d0)):
            if os.path.exists(f'{d0}/{n}/patch.diff'):
                if not os.environ.get('SEED_ONLY') or f'{prop}-{n}' in os.environ['SEED_ONLY'].split(','):
                    seeds.append((prop, n))
    chunks = [(k, seeds[k::nw]) for k in range(nw)]
    with Pool(nw) as pool:
        allres = [r for rs in pool.map(work, chunks) for r in rs]
    json.dump(sorted(allres, key=lambda r: r['seed']), open(os.environ.get('SEED_OUT', '/tmp/seedrun-results.json'), 'w'), indent=1)
    print('DONE', len(allres))
