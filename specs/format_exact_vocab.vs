// ---- exact results of the whitespace pass (needs the traits Formatter and BlockFormatter in scope) ----
/// hull of the exact results of the first n formatters (what format_block folds)
pub open spec fn hull_spec(fs: Seq<Box<dyn Formatter>>, b: Seq<u8>, p: int, n: int) -> (int, int)
    decreases n,
{
    if n <= 0 { (p, p) } else {
        let h = hull_spec(fs, b, p, n - 1);
        let r = fs[n - 1].spec_format(b, p);
        (if r.0 <= h.0 { r.0 } else { h.0 }, if r.1 >= h.1 { r.1 } else { h.1 })
    }
}

// ---- the exact set of deleted positions (C12/C13/C14), given that the seam intervals come sorted by start ----
pub open spec fn seam_rng(fs: Seq<Box<dyn Formatter>>, b: Seq<u8>, rp: Seq<RemovedMarker>, i: int) -> (int, int) {
    hull_spec(fs, b, rp[i].0 as int, fs.len() as int)
}
pub open spec fn seams(fs: Seq<Box<dyn Formatter>>, b: Seq<u8>, rp: Seq<RemovedMarker>, n: int) -> Seq<(int, int)> {
    Seq::new(n as nat, |i: int| seam_rng(fs, b, rp, i))
}
/// what the fold over the structure formatters collects for one pair
pub open spec fn blocks_of(sfs: Seq<Box<dyn BlockFormatter>>, b: Seq<u8>, s: int, e: int, k: int) -> Seq<(int, int)>
    decreases k,
{
    if k <= 0 { Seq::empty() } else { blocks_of(sfs, b, s, e, k - 1) + sfs[k - 1].spec_format(b, s, e) }
}
pub open spec fn pair_blocks(sfs: Seq<Box<dyn BlockFormatter>>, b: Seq<u8>, rp: Seq<RemovedMarker>, i: int) -> Seq<(int, int)> {
    match rp[i].1 {
        Some(j) => if rp[i].0 < rp[j as int].0 { blocks_of(sfs, b, rp[i].0 as int, rp[j as int].0 as int, sfs.len() as int) } else { Seq::empty() },
        None => Seq::empty(),
    }
}
pub open spec fn all_blocks(sfs: Seq<Box<dyn BlockFormatter>>, b: Seq<u8>, rp: Seq<RemovedMarker>, n: int) -> Seq<(int, int)>
    decreases n,
{
    if n <= 0 { Seq::empty() } else { all_blocks(sfs, b, rp, n - 1) + pair_blocks(sfs, b, rp, n - 1) }
}
pub open spec fn cov_pairs(s: Seq<(int, int)>, p: int) -> bool {
    exists|q: int| 0 <= q < s.len() && (#[trigger] s[q]).0 <= p < s[q].1
}
pub open spec fn seams_sorted(fs: Seq<Box<dyn Formatter>>, b: Seq<u8>, rp: Seq<RemovedMarker>) -> bool {
    forall|i: int, j: int| 0 <= i < j < rp.len() ==> (#[trigger] seam_rng(fs, b, rp, i)).0 <= (#[trigger] seam_rng(fs, b, rp, j)).0
}
/// the deleted positions are exactly those of the seam intervals and of the block ranges of every forward pair
pub open spec fn format_exact(fs: Seq<Box<dyn Formatter>>, sfs: Seq<Box<dyn BlockFormatter>>, b: Seq<u8>, rp: Seq<RemovedMarker>, w: Seq<Range<usize>>) -> bool {
    seams_sorted(fs, b, rp) ==> forall|p: int| #[trigger] covered(w, p) <==>
        (cov_pairs(seams(fs, b, rp, rp.len() as int), p) || cov_pairs(all_blocks(sfs, b, rp, rp.len() as int), p))
}
pub proof fn lemma_cov_view(v: Seq<Range<usize>>, p: int)
    ensures covered(v, p) <==> cov_pairs(ranges_view(v), p),
{
    if covered(v, p) {
        let i = choose|i: int| 0 <= i < v.len() && (#[trigger] v[i]).start <= p < v[i].end;
        assert(ranges_view(v)[i].0 <= p < ranges_view(v)[i].1);
    }
    if cov_pairs(ranges_view(v), p) {
        let i = choose|i: int| 0 <= i < ranges_view(v).len() && (#[trigger] ranges_view(v)[i]).0 <= p < ranges_view(v)[i].1;
        assert(v[i].start <= p < v[i].end);
    }
}
pub proof fn lemma_cov_members(m: Seq<Range<usize>>, a: Seq<Range<usize>>, c: Seq<Range<usize>>, p: int)
    requires forall|x: Range<usize>| #[trigger] m.contains(x) <==> (a.contains(x) || c.contains(x)),
    ensures covered(m, p) <==> (covered(a, p) || covered(c, p)),
{
    if covered(m, p) {
        let i = choose|i: int| 0 <= i < m.len() && (#[trigger] m[i]).start <= p < m[i].end;
        assert(m.contains(m[i]));
        if a.contains(m[i]) { let k = choose|k: int| 0 <= k < a.len() && a[k] == m[i]; assert(a[k].start <= p < a[k].end); }
        else { let k = choose|k: int| 0 <= k < c.len() && c[k] == m[i]; assert(c[k].start <= p < c[k].end); }
    }
    if covered(a, p) {
        let k = choose|k: int| 0 <= k < a.len() && (#[trigger] a[k]).start <= p < a[k].end;
        assert(a.contains(a[k])); assert(m.contains(a[k]));
        let i = choose|i: int| 0 <= i < m.len() && m[i] == a[k];
        assert(m[i].start <= p < m[i].end);
    }
    if covered(c, p) {
        let k = choose|k: int| 0 <= k < c.len() && (#[trigger] c[k]).start <= p < c[k].end;
        assert(c.contains(c[k])); assert(m.contains(c[k]));
        let i = choose|i: int| 0 <= i < m.len() && m[i] == c[k];
        assert(m[i].start <= p < m[i].end);
    }
}

