// Replay driver: runs the REAL chiritori crate (path dependency on /repo/chiritori,
// rebuilt from the working tree) on one JSON request per stdin line and prints one
// JSON answer per line. Never decides a property; used to replay concrete inputs.
use chiritori::chiritori::{
    clean, list, list_all, ChiritoriConfiguration, ListFormat, RemovalMarkerConfiguration,
    TimeLimitedConfiguration,
};
use serde_json::{json, Value};
use std::collections::HashSet;
use std::io::BufRead;
use std::rc::Rc;

fn s(v: &Value, k: &str, d: &str) -> String {
    v.get(k).and_then(|x| x.as_str()).unwrap_or(d).to_string()
}

fn config(v: &Value) -> ChiritoriConfiguration {
    let current = s(v, "current", "2024-01-01T00:00:00+00:00")
        .parse::<chrono::DateTime<chrono::Local>>()
        .expect("bad current");
    let targets: HashSet<String> = v
        .get("targets")
        .and_then(|t| t.as_array())
        .map(|a| a.iter().filter_map(|x| x.as_str().map(|s| s.to_string())).collect())
        .unwrap_or_default();
    ChiritoriConfiguration {
        time_limited_configuration: TimeLimitedConfiguration {
            tag_name: s(v, "tl_tag", "time-limited"),
            time_offset: s(v, "offset", "+00:00"),
            current,
        },
        removal_marker_configuration: RemovalMarkerConfiguration {
            tag_name: s(v, "rm_tag", "removal-marker"),
            targets,
        },
    }
}

fn run(v: &Value) -> Value {
    let mode = s(v, "mode", "clean");
    let src = Rc::new(s(v, "source", ""));
    // the caller keeps a handle on the source across the call (every other request): the entry points take an
    // Rc<String> and must not assume they own the only reference
    let _keep = if v.get("share").and_then(|x| x.as_bool()).unwrap_or(false) { Some(Rc::clone(&src)) } else { None };
    let ds = s(v, "ds", "<!-- <");
    let de = s(v, "de", "> -->");
    match mode.as_str() {
        "clean" => json!({"ok": true, "output": clean(src, (ds, de), config(v))}),
        "list" => json!({"ok": true, "output": list(src, (ds, de), config(v), ListFormat::PrettyString).unwrap()}),
        "list_json" => json!({"ok": true, "output": list(src, (ds, de), config(v), ListFormat::JSON).unwrap()}),
        "list_all" => json!({"ok": true, "output": list_all(src, (ds, de), config(v), ListFormat::PrettyString).unwrap()}),
        "list_all_json" => json!({"ok": true, "output": list_all(src, (ds, de), config(v), ListFormat::JSON).unwrap()}),
        "tokenize" => {
            let toks = chiritori::tokenizer::tokenize(&src, &ds, &de);
            let arr: Vec<Value> = toks
                .iter()
                .map(|t| {
                    json!({"value": t.value, "element": matches!(t.kind, chiritori::tokenizer::TokenKind::Element(_)),
                           "start": t.start, "end": t.end, "byte_start": t.byte_start, "byte_end": t.byte_end})
                })
                .collect();
            json!({"ok": true, "output": arr})
        }
        "element" => {
            let toks = chiritori::tokenizer::tokenize(&src, &ds, &de);
            let arr: Vec<Value> = toks
                .iter()
                .map(|t| match chiritori::element_parser::parse(t) {
                    Some(e) => json!({"name": e.name, "attrs": e.attrs.iter().map(|a| json!([a.name, a.value])).collect::<Vec<_>>()}),
                    None => Value::Null,
                })
                .collect();
            json!({"ok": true, "output": arr})
        }
        "parse" => {
            // the parse tree as nested token start offsets: text = start, element = [start of open tag, start of close tag, children]
            fn dump(parts: &[chiritori::parser::ContentPart]) -> Vec<Value> {
                parts
                    .iter()
                    .map(|p| match p {
                        chiritori::parser::ContentPart::Text(t) => json!(t.token.start),
                        chiritori::parser::ContentPart::Element(e) => {
                            json!([e.start_token.start, e.end_token.start, dump(&e.children)])
                        }
                    })
                    .collect()
            }
            let toks = chiritori::tokenizer::tokenize(&src, &ds, &de);
            let parsed = chiritori::parser::parse(&toks);
            json!({"ok": true, "output": dump(&parsed)})
        }
        _ => json!({"ok": false, "error": "unknown mode"}),
    }
}

fn main() {
    std::panic::set_hook(Box::new(|_| {}));
    let stdin = std::io::stdin();
    for line in stdin.lock().lines() {
        let line = line.unwrap();
        if line.trim().is_empty() {
            continue;
        }
        let v: Value = serde_json::from_str(&line).expect("bad json");
        let r = std::panic::catch_unwind(|| run(&v));
        let out = match r {
            Ok(v) => v,
            Err(e) => {
                let msg = e
                    .downcast_ref::<String>()
                    .cloned()
                    .or_else(|| e.downcast_ref::<&str>().map(|s| s.to_string()))
                    .unwrap_or_default();
                json!({"ok": false, "panic": msg})
            }
        };
        println!("{}", out);
    }
}
