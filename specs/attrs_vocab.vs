// ---- attribute lookup vocabulary ----
/// i is the index of the first attribute named `name`
pub open spec fn first_attr(attrs: Seq<crate::element_parser::Attribute>, name: Seq<char>, i: int) -> bool {
    &&& 0 <= i < attrs.len() && attrs[i].name@ == name
    &&& forall|k: int| 0 <= k < i ==> (#[trigger] attrs[k]).name@ != name
}
pub open spec fn has_attr(attrs: Seq<crate::element_parser::Attribute>, name: Seq<char>) -> bool {
    exists|i: int| 0 <= i < attrs.len() && (#[trigger] attrs[i]).name@ == name
}
/// value of the first attribute named `name` (None: no such attribute, or it has no value)
pub open spec fn attr_value(attrs: Seq<crate::element_parser::Attribute>, name: Seq<char>) -> Option<Seq<char>> {
    if exists|i: int| first_attr(attrs, name, i) {
        match attrs[choose|i: int| first_attr(attrs, name, i)].value { Some(v) => Some(v@), None => None }
    } else { None }
}
pub proof fn lemma_first_attr_unique(attrs: Seq<crate::element_parser::Attribute>, name: Seq<char>, i: int, j: int)
    requires first_attr(attrs, name, i), first_attr(attrs, name, j),
    ensures i == j,
{
    if i < j { assert(attrs[i].name@ == name); } else if j < i { assert(attrs[j].name@ == name); }
}
