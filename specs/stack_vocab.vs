// ---- C10: the "simple stack rule" for pairing tags, as a pure machine over any token type T ----
// nm(t) is the tag name of token t (None: t is text or not a well-formed tag). A name starting with '/' is a
// closing tag for the name without its leading slashes.
pub enum GP<T> { Txt(T), El(T, T, Seq<GP<T>>) }
pub struct Frame<T> { pub open: T, pub name: Seq<char>, pub kids: Seq<GP<T>> }
/// the open elements (innermost last) above the parts collected at top level
pub struct St<T> { pub base: Seq<GP<T>>, pub fr: Seq<Frame<T>> }

pub open spec fn slash(name: Seq<char>) -> bool { name.len() >= 1 && name[0] == '/' }
pub open spec fn unslash(name: Seq<char>) -> Seq<char> { strip_prefixes(name, seq!['/']) }

/// append parts to the innermost open element (or to the top level)
pub open spec fn push_parts<T>(s: St<T>, ps: Seq<GP<T>>) -> St<T> {
    if s.fr.len() == 0 { St { base: s.base + ps, fr: s.fr } }
    else { St { base: s.base, fr: s.fr.update(s.fr.len() - 1, Frame { open: s.fr.last().open, name: s.fr.last().name, kids: s.fr.last().kids + ps }) } }
}
/// the innermost open element becomes plain text; its children now belong to the enclosing element
pub open spec fn demote_top<T>(s: St<T>) -> St<T> {
    let f = s.fr.last();
    push_parts(St { base: s.base, fr: s.fr.drop_last() }, seq![GP::Txt(f.open)] + f.kids)
}
pub open spec fn demote_to<T>(s: St<T>, k: int) -> St<T>
    decreases s.fr.len(),
{
    if s.fr.len() <= k || s.fr.len() == 0 { s } else { demote_to(demote_top(s), k) }
}
/// index of the innermost open element called p, or -1
pub open spec fn innermost<T>(fr: Seq<Frame<T>>, p: Seq<char>) -> int
    decreases fr.len(),
{
    if fr.len() == 0 { -1 } else if fr.last().name == p { fr.len() - 1 } else { innermost(fr.drop_last(), p) }
}
/// closing tag `tok` closes open element d: everything opened after d is demoted, d becomes an element
pub open spec fn close<T>(s: St<T>, d: int, tok: T) -> St<T> {
    let s2 = demote_to(s, d + 1);
    let f = s2.fr.last();
    push_parts(St { base: s2.base, fr: s2.fr.drop_last() }, seq![GP::El(f.open, tok, f.kids)])
}
pub open spec fn step<T>(s: St<T>, tok: T, nm: spec_fn(T) -> Option<Seq<char>>) -> St<T> {
    match nm(tok) {
        None => push_parts(s, seq![GP::Txt(tok)]),
        Some(name) =>
            if slash(name) {
                let d = innermost(s.fr, unslash(name));
                if d >= 0 { close(s, d, tok) } else { push_parts(s, seq![GP::Txt(tok)]) }
            } else {
                St { base: s.base, fr: s.fr.push(Frame { open: tok, name: name, kids: Seq::empty() }) }
            },
    }
}
/// the machine after tokens i .. j
pub open spec fn run<T>(s: St<T>, ts: Seq<T>, i: int, j: int, nm: spec_fn(T) -> Option<Seq<char>>) -> St<T>
    decreases j - i,
{
    if j <= i { s } else { step(run(s, ts, i, j - 1, nm), ts[j - 1], nm) }
}
/// C10: the tree of a token sequence (never-closed openers are demoted at the end)
pub open spec fn stack_parse<T>(ts: Seq<T>, nm: spec_fn(T) -> Option<Seq<char>>) -> Seq<GP<T>> {
    demote_to(run(St { base: Seq::empty(), fr: Seq::empty() }, ts, 0, ts.len() as int, nm), 0).base
}

pub open spec fn names<T>(fr: Seq<Frame<T>>) -> Seq<Seq<char>> { Seq::new(fr.len(), |i: int| fr[i].name) }

pub proof fn lemma_run_compose<T>(s: St<T>, ts: Seq<T>, i: int, k: int, j: int, nm: spec_fn(T) -> Option<Seq<char>>)
    requires i <= k <= j,
    ensures run(s, ts, i, j, nm) == run(run(s, ts, i, k, nm), ts, k, j, nm),
    decreases j - k,
{
    if j > k { lemma_run_compose(s, ts, i, k, j - 1, nm); }
}
pub proof fn lemma_push_parts<T>(s: St<T>, a: Seq<GP<T>>, b: Seq<GP<T>>)
    ensures push_parts(push_parts(s, a), b) == push_parts(s, a + b),
            push_parts(s, Seq::empty()) == s,
            push_parts(s, a).fr.len() == s.fr.len(),
            names(push_parts(s, a).fr) == names(s.fr),
{
    let e = Seq::<GP<T>>::empty();
    if s.fr.len() == 0 {
        assert((s.base + a) + b =~= s.base + (a + b));
        assert(s.base + e =~= s.base);
    } else {
        let l = s.fr.len() - 1;
        assert((s.fr[l].kids + a) + b =~= s.fr[l].kids + (a + b));
        assert(s.fr[l].kids + e =~= s.fr[l].kids);
        assert(push_parts(push_parts(s, a), b).fr =~= push_parts(s, a + b).fr);
        assert(push_parts(s, e).fr =~= s.fr);
    }
    assert(names(push_parts(s, a).fr) =~= names(s.fr));
}
pub proof fn lemma_innermost_names<T>(f1: Seq<Frame<T>>, f2: Seq<Frame<T>>, p: Seq<char>)
    requires names(f1) == names(f2),
    ensures innermost(f1, p) == innermost(f2, p),
    decreases f1.len(),
{
    assert(f1.len() == names(f1).len() && f2.len() == names(f2).len());
    if f1.len() > 0 {
        assert(f1.last().name == names(f1)[f1.len() - 1]);
        assert(f2.last().name == names(f2)[f2.len() - 1]);
        assert(names(f1.drop_last()) =~= names(f1).drop_last());
        assert(names(f2.drop_last()) =~= names(f2).drop_last());
        lemma_innermost_names(f1.drop_last(), f2.drop_last(), p);
    }
}
pub proof fn lemma_innermost_range<T>(fr: Seq<Frame<T>>, p: Seq<char>)
    ensures -1 <= innermost(fr, p) < fr.len(),
            innermost(fr, p) >= 0 ==> fr[innermost(fr, p)].name == p,
            forall|i: int| innermost(fr, p) < i < fr.len() ==> (#[trigger] fr[i]).name != p,
    decreases fr.len(),
{
    if fr.len() > 0 && fr.last().name != p {
        lemma_innermost_range(fr.drop_last(), p);
        assert forall|i: int| innermost(fr, p) < i < fr.len() implies (#[trigger] fr[i]).name != p by {
            if i < fr.len() - 1 { assert(fr[i] == fr.drop_last()[i]); }
        }
    }
}
/// frames above index k do not carry the name p: the innermost p is found below k
pub proof fn lemma_innermost_prefix<T>(fr: Seq<Frame<T>>, k: int, p: Seq<char>)
    requires 0 <= k <= fr.len(), forall|i: int| k <= i < fr.len() ==> (#[trigger] fr[i]).name != p,
    ensures innermost(fr, p) == innermost(fr.take(k), p),
    decreases fr.len(),
{
    if fr.len() > k {
        assert(fr.last() == fr[fr.len() - 1]);
        assert(fr.drop_last().take(k) =~= fr.take(k));
        lemma_innermost_prefix(fr.drop_last(), k, p);
    } else {
        assert(fr.take(k) =~= fr);
    }
}
pub proof fn lemma_demote_len<T>(s: St<T>, k: int)
    requires 0 <= k,
    ensures demote_to(s, k).fr.len() == (if s.fr.len() <= k { s.fr.len() as int } else { k }),
            s.fr.len() >= k ==> demote_to(s, k).fr.take(k).map_values(|f: Frame<T>| f.name) == s.fr.take(k).map_values(|f: Frame<T>| f.name),
            s.fr.len() > k && k >= 1 ==> demote_to(s, k).fr.take(k - 1) == s.fr.take(k - 1),
            s.fr.len() > k && k >= 1 ==> demote_to(s, k).base == s.base,
    decreases s.fr.len(),
{
    let nmf = |f: Frame<T>| f.name;
    if s.fr.len() <= k || s.fr.len() == 0 {
    } else {
        let s1 = demote_top(s);
        let s0 = St { base: s.base, fr: s.fr.drop_last() };
        lemma_push_parts(s0, seq![GP::Txt(s.fr.last().open)] + s.fr.last().kids, Seq::empty());
        lemma_demote_len(s1, k);
        assert(s1.fr.len() == s.fr.len() - 1);
        assert(s1.fr.take(k).map_values(nmf) =~= s.fr.take(k).map_values(nmf)) by {
            assert forall|i: int| 0 <= i < k implies (#[trigger] s1.fr[i]).name == s.fr[i].name by {}
        }
        if k >= 1 {
            assert(s1.fr.take(k - 1) =~= s.fr.take(k - 1));
            if s1.fr.len() > k { } else { assert(demote_to(s1, k) == s1); }
        }
    }
}
pub proof fn lemma_demote_twice<T>(s: St<T>, a: int, b: int)
    requires 0 <= b <= a,
    ensures demote_to(demote_to(s, a), b) == demote_to(s, b),
    decreases s.fr.len(),
{
    if s.fr.len() <= a || s.fr.len() == 0 { } else { lemma_demote_twice(demote_top(s), a, b); }
}
pub proof fn lemma_demote_one<T>(s: St<T>)
    requires s.fr.len() >= 1,
    ensures demote_to(s, s.fr.len() - 1) == demote_top(s),
{
    let s0 = St { base: s.base, fr: s.fr.drop_last() };
    lemma_push_parts(s0, seq![GP::Txt(s.fr.last().open)] + s.fr.last().kids, Seq::empty());
    let s1 = demote_top(s);
    assert(s1.fr.len() == s.fr.len() - 1);
    assert(demote_to(s, s.fr.len() - 1) == demote_to(s1, s.fr.len() - 1));
    assert(demote_to(s1, s.fr.len() - 1) == s1);
}
/// the closing rule does not care whether the frames above some k > d were demoted before
pub proof fn lemma_close_after_demote<T>(s: St<T>, k: int, d: int, tok: T)
    requires 0 <= d < k,
    ensures close(demote_to(s, k), d, tok) == close(s, d, tok),
{
    lemma_demote_twice(s, k, d + 1);
}

// ---- segments of a run, as seen from one call of the recursive-descent parser ----
/// tokens i..j append g to the innermost open element of s, touch nothing below it, and may leave elements open above it
pub open spec fn seg<T>(s: St<T>, ts: Seq<T>, i: int, j: int, nm: spec_fn(T) -> Option<Seq<char>>, g: Seq<GP<T>>) -> bool {
    let r = run(s, ts, i, j, nm);
    r.fr.len() >= s.fr.len() && demote_to(r, s.fr.len() as int) == push_parts(s, g)
}
pub open spec fn seg_exact<T>(s: St<T>, ts: Seq<T>, i: int, j: int, nm: spec_fn(T) -> Option<Seq<char>>, g: Seq<GP<T>>) -> bool {
    run(s, ts, i, j, nm) == push_parts(s, g)
}
/// token j is a closing tag whose innermost open partner is one of the elements open in s
pub open spec fn closer_at<T>(s: St<T>, ts: Seq<T>, i: int, j: int, nm: spec_fn(T) -> Option<Seq<char>>, name: Seq<char>) -> bool {
    let r = run(s, ts, i, j, nm);
    &&& 0 <= j < ts.len() && nm(ts[j]) == Some(name) && slash(name)
    &&& innermost(r.fr, unslash(name)) == innermost(s.fr, unslash(name))
    &&& innermost(s.fr, unslash(name)) >= 0
}
pub open spec fn tree_sem<T>(s: St<T>, ts: Seq<T>, c0: int, g: Seq<GP<T>>, c1: int, end: Option<Seq<char>>, nm: spec_fn(T) -> Option<Seq<char>>) -> bool {
    match end {
        None => seg(s, ts, c0, ts.len() as int, nm, g),
        Some(name) => seg(s, ts, c0, c1 - 1, nm, g) && closer_at(s, ts, c0, c1 - 1, nm, name),
    }
}
/// the open elements of the machine are the non-phantom entries of the parser's parent list
/// (the parser also pushes stray closing tags as parents; they can never be closed)
pub open spec fn corr<T>(fr: Seq<Frame<T>>, pn: Seq<Seq<char>>) -> bool
    decreases pn.len(),
{
    if pn.len() == 0 { fr.len() == 0 }
    else if slash(pn.last()) { corr(fr, pn.drop_last()) }
    else { fr.len() >= 1 && fr.last().name == pn.last() && corr(fr.drop_last(), pn.drop_last()) }
}

pub proof fn lemma_seg_exact_is_seg<T>(s: St<T>, ts: Seq<T>, i: int, j: int, nm: spec_fn(T) -> Option<Seq<char>>, g: Seq<GP<T>>)
    requires seg_exact(s, ts, i, j, nm, g),
    ensures seg(s, ts, i, j, nm, g),
{
    lemma_push_parts(s, g, Seq::empty());
}
pub proof fn lemma_seg_compose<T>(s: St<T>, ts: Seq<T>, c0: int, o: int, j: int, nm: spec_fn(T) -> Option<Seq<char>>, g: Seq<GP<T>>, h: Seq<GP<T>>)
    requires c0 <= o <= j, seg_exact(s, ts, c0, o, nm, g),
    ensures
        seg(push_parts(s, g), ts, o, j, nm, h) ==> seg(s, ts, c0, j, nm, g + h),
        seg_exact(push_parts(s, g), ts, o, j, nm, h) ==> seg_exact(s, ts, c0, j, nm, g + h),
        forall|name: Seq<char>| #[trigger] closer_at(push_parts(s, g), ts, o, j, nm, name) ==> closer_at(s, ts, c0, j, nm, name),
{
    lemma_run_compose(s, ts, c0, o, j, nm);
    lemma_push_parts(s, g, h);
    assert forall|name: Seq<char>| #[trigger] closer_at(push_parts(s, g), ts, o, j, nm, name) implies closer_at(s, ts, c0, j, nm, name) by {
        lemma_innermost_names(push_parts(s, g).fr, s.fr, unslash(name));
    }
}
pub proof fn lemma_text_step<T>(s: St<T>, ts: Seq<T>, c0: int, j: int, nm: spec_fn(T) -> Option<Seq<char>>, g: Seq<GP<T>>)
    requires 0 <= c0 <= j < ts.len(), seg_exact(s, ts, c0, j, nm, g), nm(ts[j]) is None,
    ensures seg_exact(s, ts, c0, j + 1, nm, g + seq![GP::Txt(ts[j])]),
{
    lemma_push_parts(s, g, seq![GP::Txt(ts[j])]);
}
pub proof fn lemma_closed_here<T>(s: St<T>, ts: Seq<T>, c0: int, j: int, nm: spec_fn(T) -> Option<Seq<char>>, g: Seq<GP<T>>, name: Seq<char>)
    requires 0 <= c0 <= j < ts.len(), seg_exact(s, ts, c0, j, nm, g), nm(ts[j]) == Some(name), slash(name), innermost(s.fr, unslash(name)) >= 0,
    ensures seg(s, ts, c0, j, nm, g), closer_at(s, ts, c0, j, nm, name),
{
    lemma_push_parts(s, g, Seq::empty());
    lemma_innermost_names(push_parts(s, g).fr, s.fr, unslash(name));
}
/// an opening tag at o whose recursive call ran into the end of the tokens: demoted, children hoisted
pub proof fn lemma_open_eof<T>(s: St<T>, ts: Seq<T>, o: int, nm: spec_fn(T) -> Option<Seq<char>>, name: Seq<char>, ch: Seq<GP<T>>)
    requires 0 <= o < ts.len(), nm(ts[o]) == Some(name), !slash(name),
             seg(St { base: s.base, fr: s.fr.push(Frame { open: ts[o], name: name, kids: Seq::empty() }) }, ts, o + 1, ts.len() as int, nm, ch),
    ensures seg(s, ts, o, ts.len() as int, nm, seq![GP::Txt(ts[o])] + ch),
{
    let n = ts.len() as int;
    let s1 = St { base: s.base, fr: s.fr.push(Frame { open: ts[o], name: name, kids: Seq::empty() }) };
    assert(run(s, ts, o, o + 1, nm) == s1) by { assert(run(s, ts, o, o, nm) == s); }
    lemma_run_compose(s, ts, o, o + 1, n, nm);
    let r = run(s, ts, o, n, nm);
    assert(r == run(s1, ts, o + 1, n, nm));
    let k = s.fr.len() as int;
    lemma_demote_twice(r, k + 1, k);
    let s2 = push_parts(s1, ch);
    lemma_push_parts(s1, ch, Seq::empty());
    assert(demote_to(r, k) == demote_to(s2, k));
    lemma_demote_one(s2);
    assert(s2.fr.last().kids =~= ch);
    assert(s2.fr.drop_last() =~= s.fr);
}
/// an opening tag at o, a closing tag at j found by the recursive call
pub proof fn lemma_open_closer<T>(s: St<T>, ts: Seq<T>, o: int, j: int, nm: spec_fn(T) -> Option<Seq<char>>, name: Seq<char>, ch: Seq<GP<T>>, ename: Seq<char>)
    requires 0 <= o < j < ts.len(), nm(ts[o]) == Some(name), !slash(name),
             seg(St { base: s.base, fr: s.fr.push(Frame { open: ts[o], name: name, kids: Seq::empty() }) }, ts, o + 1, j, nm, ch),
             closer_at(St { base: s.base, fr: s.fr.push(Frame { open: ts[o], name: name, kids: Seq::empty() }) }, ts, o + 1, j, nm, ename),
    ensures
        name == unslash(ename) ==> seg_exact(s, ts, o, j + 1, nm, seq![GP::El(ts[o], ts[j], ch)]),
        name != unslash(ename) ==> seg(s, ts, o, j, nm, seq![GP::Txt(ts[o])] + ch) && closer_at(s, ts, o, j, nm, ename),
{
    let s1 = St { base: s.base, fr: s.fr.push(Frame { open: ts[o], name: name, kids: Seq::empty() }) };
    assert(run(s, ts, o, o + 1, nm) == s1) by { assert(run(s, ts, o, o, nm) == s); }
    lemma_run_compose(s, ts, o, o + 1, j, nm);
    let r = run(s, ts, o, j, nm);
    assert(r == run(s1, ts, o + 1, j, nm));
    let k = s.fr.len() as int;
    let p = unslash(ename);
    let s2 = push_parts(s1, ch);
    lemma_push_parts(s1, ch, Seq::empty());
    assert(demote_to(r, k + 1) == s2);
    assert(s2.fr.last().kids =~= ch);
    assert(s2.fr.drop_last() =~= s.fr);
    assert(s1.fr.drop_last() =~= s.fr);
    if name == p {
        assert(innermost(s1.fr, p) == k);
        assert(run(s, ts, o, j + 1, nm) == step(r, ts[j], nm));
        assert(step(r, ts[j], nm) == close(r, k, ts[j]));
    } else {
        assert(innermost(s1.fr, p) == innermost(s.fr, p));
        lemma_demote_twice(r, k + 1, k);
        lemma_demote_one(s2);
    }
}
/// a stray closing tag at o (no open partner): plain text; the parser nevertheless recurses with it as a parent
pub proof fn lemma_phantom<T>(s: St<T>, ts: Seq<T>, o: int, j: int, nm: spec_fn(T) -> Option<Seq<char>>, name: Seq<char>, ch: Seq<GP<T>>)
    requires 0 <= o < j <= ts.len(), nm(ts[o]) == Some(name), slash(name), innermost(s.fr, unslash(name)) < 0,
             seg(push_parts(s, seq![GP::Txt(ts[o])]), ts, o + 1, j, nm, ch),
    ensures seg(s, ts, o, j, nm, seq![GP::Txt(ts[o])] + ch),
            forall|ename: Seq<char>| #[trigger] closer_at(push_parts(s, seq![GP::Txt(ts[o])]), ts, o + 1, j, nm, ename) ==> closer_at(s, ts, o, j, nm, ename),
{
    let g = seq![GP::Txt(ts[o])];
    assert(run(s, ts, o, o + 1, nm) == push_parts(s, g)) by { assert(run(s, ts, o, o, nm) == s); }
    lemma_seg_compose(s, ts, o, o + 1, j, nm, g, ch);
}
pub proof fn lemma_unslash_noslash(x: Seq<char>)
    ensures !slash(unslash(x)),
    decreases x.len(),
{
    let p = seq!['/'];
    if x.len() >= 1 && x.take(1) == p {
        lemma_unslash_noslash(x.skip(1));
    } else if x.len() >= 1 {
        if x[0] == '/' { assert(x.take(1) =~= p); }
    }
}
pub proof fn lemma_corr_names<T>(f1: Seq<Frame<T>>, f2: Seq<Frame<T>>, pn: Seq<Seq<char>>)
    requires names(f1) == names(f2), corr(f1, pn),
    ensures corr(f2, pn),
    decreases pn.len(),
{
    assert(f1.len() == names(f1).len() && f2.len() == names(f2).len());
    if pn.len() == 0 { }
    else if slash(pn.last()) { lemma_corr_names(f1, f2, pn.drop_last()); }
    else {
        assert(f1.last().name == names(f1)[f1.len() - 1]);
        assert(f2.last().name == names(f2)[f2.len() - 1]);
        assert(names(f1.drop_last()) =~= names(f1).drop_last());
        assert(names(f2.drop_last()) =~= names(f2).drop_last());
        lemma_corr_names(f1.drop_last(), f2.drop_last(), pn.drop_last());
    }
}
/// the parser's "some parent has this name" test is the machine's "some open element has this name"
pub proof fn lemma_corr_any<T>(fr: Seq<Frame<T>>, pn: Seq<Seq<char>>, p: Seq<char>)
    requires corr(fr, pn), !slash(p),
    ensures (exists|i: int| 0 <= i < pn.len() && #[trigger] pn[i] == p) <==> innermost(fr, p) >= 0,
    decreases pn.len(),
{
    if pn.len() == 0 { }
    else {
        let q = pn.drop_last();
        if slash(pn.last()) {
            lemma_corr_any(fr, q, p);
            if innermost(fr, p) >= 0 { let i = choose|i: int| 0 <= i < q.len() && #[trigger] q[i] == p; assert(pn[i] == p); }
            if exists|i: int| 0 <= i < pn.len() && #[trigger] pn[i] == p {
                let i = choose|i: int| 0 <= i < pn.len() && #[trigger] pn[i] == p;
                assert(i < pn.len() - 1);
                assert(q[i] == p);
            }
        } else {
            lemma_corr_any(fr.drop_last(), q, p);
            if fr.last().name == p { assert(pn[pn.len() - 1] == p); }
            else {
                if innermost(fr, p) >= 0 { let i = choose|i: int| 0 <= i < q.len() && #[trigger] q[i] == p; assert(pn[i] == p); }
                if exists|i: int| 0 <= i < pn.len() && #[trigger] pn[i] == p {
                    let i = choose|i: int| 0 <= i < pn.len() && #[trigger] pn[i] == p;
                    assert(i < pn.len() - 1);
                    assert(q[i] == p);
                }
            }
        }
    }
}
pub proof fn lemma_corr_push<T>(fr: Seq<Frame<T>>, pn: Seq<Seq<char>>, f: Frame<T>)
    requires corr(fr, pn),
    ensures !slash(f.name) ==> corr(fr.push(f), pn.push(f.name)),
            slash(f.name) ==> corr(fr, pn.push(f.name)),
{
    assert(pn.push(f.name).drop_last() =~= pn);
    assert(fr.push(f).drop_last() =~= fr);
}
/// the machine state right after an opening-tag candidate (a stray closing tag is text)
pub open spec fn after_open<T>(s: St<T>, tok: T, name: Seq<char>) -> St<T> {
    if slash(name) { push_parts(s, seq![GP::Txt(tok)]) }
    else { St { base: s.base, fr: s.fr.push(Frame { open: tok, name: name, kids: Seq::empty() }) } }
}
pub proof fn lemma_corr_after_open<T>(s: St<T>, pn: Seq<Seq<char>>, tok: T, name: Seq<char>)
    requires corr(s.fr, pn),
    ensures corr(after_open(s, tok, name).fr, pn.push(name)),
{
    let f = Frame { open: tok, name: name, kids: Seq::<GP<T>>::empty() };
    lemma_corr_push(s.fr, pn, f);
    if slash(name) {
        lemma_push_parts(s, seq![GP::Txt(tok)], Seq::empty());
        lemma_corr_names(s.fr, after_open(s, tok, name).fr, pn.push(name));
    }
}
/// the three ways the recursive call for an opening-tag candidate at o can come back
pub proof fn lemma_opener_result<T>(s: St<T>, ts: Seq<T>, o: int, c1: int, nm: spec_fn(T) -> Option<Seq<char>>, name: Seq<char>, ch: Seq<GP<T>>, end: Option<Seq<char>>)
    requires 0 <= o < ts.len(), nm(ts[o]) == Some(name),
             slash(name) ==> innermost(s.fr, unslash(name)) < 0,
             end is Some ==> o + 1 < c1 <= ts.len(),
             tree_sem(after_open(s, ts[o], name), ts, o + 1, ch, c1, end, nm),
    ensures match end {
        None => seg(s, ts, o, ts.len() as int, nm, seq![GP::Txt(ts[o])] + ch),
        Some(ename) =>
            if name == unslash(ename) { seg_exact(s, ts, o, c1, nm, seq![GP::El(ts[o], ts[c1 - 1], ch)]) }
            else { seg(s, ts, o, c1 - 1, nm, seq![GP::Txt(ts[o])] + ch) && closer_at(s, ts, o, c1 - 1, nm, ename) },
    },
{
    match end {
        None => {
            if slash(name) { lemma_phantom(s, ts, o, ts.len() as int, nm, name, ch); }
            else { lemma_open_eof(s, ts, o, nm, name, ch); }
        },
        Some(ename) => {
            if slash(name) {
                lemma_phantom(s, ts, o, c1 - 1, nm, name, ch);
                lemma_unslash_noslash(ename);
            } else {
                lemma_open_closer(s, ts, o, c1 - 1, nm, name, ch, ename);
            }
        },
    }
}
