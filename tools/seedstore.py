#!/usr/bin/env python3
"""store confirmed seeds under /verif/seeded/<id>/ with meta.json.
usage: seedstore.py <seed-root> <round> <arrival-results.json> [<later-results.json> ...]"""
import json, os, re, shutil, sys
root, rnd = sys.argv[1], int(sys.argv[2])
arrival = {r['seed']: r for r in json.load(open(sys.argv[3]))}
final = dict(arrival)
for f in sys.argv[4:]:
    for r in json.load(open(f)):
        final[r['seed']] = r
for sid, a in sorted(arrival.items()):
    prop, n = sid.split('-')
    d = f'{root}/seed-{prop}/{n}'
    f = final[sid]
    ok = f['applies'] and f['suite_passes_with_change'] and f['demo_fails_with_change'] and f['demo_passes_without_change']
    if not ok:
        print('NOT CONFIRMED, skipped:', sid); continue
    out = os.path.join(os.path.dirname(os.path.dirname(os.path.abspath(__file__))), 'seeded', sid)
    os.makedirs(out, exist_ok=True)
    for fn in ('patch.diff', 'demo.rs', 'notes.md'):
        shutil.copy(f'{d}/{fn}', out)
    notes = ' '.join(open(f'{d}/notes.md').read().split())[:700]
    files = sorted(set(re.findall(r'^\+\+\+ b/(\S+)', open(f'{d}/patch.diff').read(), flags=re.M)))
    meta = {
        'seed': sid, 'breaks_property': prop, 'round': rnd, 'files_changed': files,
        'what_it_needs_to_manifest (from the author of the change, abridged)': notes,
        'confirmed_by_me': {
            'applies_to_repo_HEAD (git apply --3way)': True,
            'existing_suite_passes_with_change (cargo test --workspace --no-fail-fast --offline)': True,
            'demo_fails_with_change (cargo test --offline -p chiritori --test demo)': True,
            'demo_passes_without_change': True,
            'how': 'tools/seedrun.py in a scratch git worktree of /repo under /tmp (never in /repo); worktree and build output removed afterwards'},
        'checks_run': 'python3 bin/check --all --tier quick with CHIRITORI_REPO/CHIRITORI_SRC pointing at the scratch worktree and VERIF_OUT_DIR outside /verif',
        'detected_by_checks_when_it_arrived': a['detected_by'],
        'detected_by_checks': f['detected_by'],
        'undecided_checks (exit 2: lost anchor / unsupported construct in the changed text, no concrete witness)': f['undecided'],
        'violation_lines': [l[:400] for l in f.get('violation_lines', [])][:5],
    }
    json.dump(meta, open(f'{out}/meta.json', 'w'), indent=1, ensure_ascii=False)
    print('stored', sid, 'arrival', a['detected_by'], 'final', f['detected_by'])
