// ---- vocabulary for marker builders (top level; uses crate::parser::Element) ----
pub open spec fn el_wf(el: crate::parser::Element) -> bool {
    &&& el.start_token.byte_start < el.start_token.byte_end <= el.end_token.byte_start
    &&& el.end_token.byte_start < el.end_token.byte_end
}
/// structural promise of every MarkerBuilder: the removable extent starts at the opening tag, is either
/// empty (not removable) or ends with the closing tag, and its two parts are ordered
pub open spec fn builder_ok(el: crate::parser::Element, r: (Range<usize>, Option<Range<usize>>)) -> bool {
    &&& r.0.start == el.start_token.byte_start
    &&& r.0.start <= r.0.end
    &&& match r.1 {
        Some(e) => r.0.start < r.0.end && r.0.end <= e.start && e.start <= e.end && e.end == el.end_token.byte_end
            && el.start_token.byte_end <= r.0.end && e.start <= el.end_token.byte_start,
        None => r.0.end == el.end_token.byte_end || r.0.end == r.0.start,
    }
}
/// exact result of the unwrap-block strategy on content bytes b
pub open spec fn unwrap_spec(b: Seq<u8>, el: crate::parser::Element) -> (Range<usize>, Option<Range<usize>>) {
    let ts = el.start_token.byte_start;
    match (next2f(b, el.start_token.byte_end as int), prev2f(b, el.end_token.byte_start as int)) {
        (Some(end), Some(start)) => if start >= end {
            (Range { start: ts, end: end as usize }, Some(Range { start: (start + 1) as usize, end: el.end_token.byte_end }))
        } else { (Range { start: ts, end: ts }, None) },
        _ => (Range { start: ts, end: ts }, None),
    }
}
