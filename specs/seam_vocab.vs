// ---- exact results of the four seam formatters ----
/// ls is the start of the blank-only line prefix that IndentRemover deletes in front of the seam `p`
pub open spec fn indent_ok(b: Seq<u8>, p: int, ls: int) -> bool {
    &&& 0 < ls <= p < b.len()
    &&& is_lf(b[p])
    &&& is_lf(b[ls - 1])
    &&& all_blank(b, ls, p)
}

pub open spec fn next2(b: Seq<u8>, p: int) -> Option<int> {
    match next_lb(b, p, true) { Some(q1) => next_lb(b, q1 + 1, true), None => None }
}
pub open spec fn prev2(b: Seq<u8>, p: int) -> Option<int> {
    match prev_lb(b, p, true) { Some(q1) => prev_lb(b, q1, true), None => None }
}

/// exact results of the four seam formatters
pub open spec fn empty_line_spec(b: Seq<u8>, p: int) -> (int, int) {
    if p < b.len() && is_lf(b[p]) && next2(b, p) is None && prev2(b, p) is None { (p, p + 1) } else { (p, p) }
}
pub open spec fn prev_remover_spec(b: Seq<u8>, p: int) -> (int, int) {
    match prev2(b, p) { Some(q2) => (q2 + 1, p), None => (p, p) }
}
pub open spec fn next_remover_spec(b: Seq<u8>, p: int) -> (int, int) {
    match next2(b, p) { Some(q2) => (p, q2), None => (p, p) }
}


/// exact result of IndentRemover as a function (the witness ls is unique)
pub open spec fn indent_spec(b: Seq<u8>, p: int) -> (int, int) {
    if exists|ls: int| indent_ok(b, p, ls) { (choose|ls: int| indent_ok(b, p, ls), p) } else { (p, p) }
}
pub proof fn lemma_indent_unique(b: Seq<u8>, p: int, l1: int, l2: int)
    requires indent_ok(b, p, l1), indent_ok(b, p, l2),
    ensures l1 == l2,
{
    if l1 < l2 { assert(is_lf(b[l2 - 1])); assert(is_blank(b[l2 - 1])); }
    else if l2 < l1 { assert(is_lf(b[l1 - 1])); assert(is_blank(b[l1 - 1])); }
}
