// ---- from "every token once, in order" (proved for parser::parse) to the shape the remover needs ----
/// start offset of token k, or the end of the content for k == len
pub open spec fn tok_pos(ts: Seq<crate::tokenizer::Token>, b: Seq<u8>, k: int) -> int {
    if 0 <= k < ts.len() { ts[k].byte_start as int } else { b.len() as int }
}
/// tokens are non-empty, contiguous from 0 to the end of the content, on character boundaries
pub open spec fn toks_seq_ok(ts: Seq<crate::tokenizer::Token>, b: Seq<u8>) -> bool {
    &&& ts.len() == 0 ==> b.len() == 0
    &&& ts.len() > 0 ==> ts[0].byte_start == 0
    &&& forall|k: int| 0 <= k < ts.len() ==> (#[trigger] ts[k]).byte_start < ts[k].byte_end && ts[k].byte_end == tok_pos(ts, b, k + 1)
            && ts[k].byte_end <= b.len() && cb(b, ts[k].byte_start as int) && cb(b, ts[k].byte_end as int)
}
pub proof fn lemma_tok_pos_mono(ts: Seq<crate::tokenizer::Token>, b: Seq<u8>, i: int, j: int)
    requires toks_seq_ok(ts, b), 0 <= i <= j <= ts.len(),
    ensures tok_pos(ts, b, i) <= tok_pos(ts, b, j) <= b.len(), 0 <= tok_pos(ts, b, i),
    decreases j - i,
{
    if i < j {
        lemma_tok_pos_mono(ts, b, i + 1, j);
        assert(ts[i].byte_start < ts[i].byte_end && ts[i].byte_end == tok_pos(ts, b, i + 1));
    } else if i < ts.len() {
        assert(ts[i].byte_end <= b.len());
    }
}
/// sequence part of lemma_parts_from_flatten: where the last part's tokens (and its children's) sit in ts
pub proof fn lemma_flatten_split(parts: Seq<crate::parser::ContentPart>, ts: Seq<crate::tokenizer::Token>, i: int, j: int)
    requires 0 <= i <= j <= ts.len(), crate::flatten(parts) == ts.subrange(i, j), parts.len() > 0,
    ensures ({
        let g = parts.drop_last();
        let m = i + crate::flatten(g).len();
        &&& i <= m < j
        &&& crate::flatten(g) == ts.subrange(i, m)
        &&& match parts.last() {
            crate::parser::ContentPart::Text(t) => j == m + 1 && *t.token == ts[m],
            crate::parser::ContentPart::Element(el) => j >= m + 2 && *el.start_token == ts[m] && *el.end_token == ts[j - 1]
                && crate::flatten(el.children@) == ts.subrange(m + 1, j - 1),
        }
    }),
{
    let g = parts.drop_last();
    let c = parts.last();
    let fg = crate::flatten(g);
    let m = i + fg.len();
    let x = match c {
        crate::parser::ContentPart::Text(t) => seq![*t.token],
        crate::parser::ContentPart::Element(el) => seq![*el.start_token] + crate::flatten(el.children@) + seq![*el.end_token],
    };
    assert(crate::flatten(parts) == fg + x);
    assert((fg + x).len() == j - i);
    assert(fg =~= ts.subrange(i, m)) by {
        assert(fg =~= (fg + x).subrange(0, fg.len() as int));
        assert(ts.subrange(i, j).subrange(0, fg.len() as int) =~= ts.subrange(i, m));
    }
    assert(x =~= ts.subrange(m, j)) by {
        assert(x =~= (fg + x).subrange(fg.len() as int, (fg + x).len() as int));
        assert(ts.subrange(i, j).subrange(fg.len() as int, j - i) =~= ts.subrange(m, j));
    }
    match c {
        crate::parser::ContentPart::Text(t) => {
            assert(x.len() == 1 && j == m + 1);
            assert(*t.token == ts.subrange(m, j)[0]);
        },
        crate::parser::ContentPart::Element(el) => {
            let fc = crate::flatten(el.children@);
            assert(x.len() == fc.len() + 2);
            assert(*el.start_token == ts.subrange(m, j)[0]) by { assert(x[0] == *el.start_token); }
            assert(*el.end_token == ts.subrange(m, j)[j - m - 1]) by { assert(x[x.len() - 1] == *el.end_token); }
            assert(fc =~= ts.subrange(m + 1, j - 1)) by {
                assert(fc =~= x.subrange(1, x.len() - 1));
                assert(ts.subrange(m, j).subrange(1, j - m - 1) =~= ts.subrange(m + 1, j - 1));
            }
        },
    }
}
pub proof fn lemma_parts_from_flatten(parts: Seq<crate::parser::ContentPart>, ts: Seq<crate::tokenizer::Token>, b: Seq<u8>, i: int, j: int)
    requires toks_seq_ok(ts, b), 0 <= i <= j <= ts.len(), crate::flatten(parts) == ts.subrange(i, j),
    ensures parts_wf(parts, tok_pos(ts, b, i), tok_pos(ts, b, j)), parts_on_b(parts, b), all_el_wf(parts),
    decreases parts,
{
    lemma_tok_pos_mono(ts, b, i, j);
    if parts.len() > 0 {
        let g = parts.drop_last();
        let c = parts.last();
        let n = parts.len() as int;
        assert(c == parts[n - 1]);
        let m = i + crate::flatten(g).len();
        lemma_flatten_split(parts, ts, i, j);
        lemma_parts_from_flatten(g, ts, b, i, m);
        lemma_tok_pos_mono(ts, b, i, m);
        lemma_tok_pos_mono(ts, b, m, j);
        match c {
            crate::parser::ContentPart::Text(t) => {
                assert(j == m + 1 && *t.token == ts[m]);
            },
            crate::parser::ContentPart::Element(el) => {
                assert(*el.start_token == ts[m] && *el.end_token == ts[j - 1]);
                lemma_parts_from_flatten(el.children@, ts, b, m + 1, j - 1);
                lemma_tok_pos_mono(ts, b, m + 1, j - 1);
                assert(ts[m].byte_end == tok_pos(ts, b, m + 1));
                assert(ts[j - 1].byte_end == tok_pos(ts, b, j));
                assert(el_wf(el));
                assert(el_on_b(el, b));
            },
        }
        assert(part_lo(c) == tok_pos(ts, b, m) && part_hi(c) == tok_pos(ts, b, j)) by {
            assert(ts[m].byte_start == tok_pos(ts, b, m));
            assert(ts[j - 1].byte_end == tok_pos(ts, b, j));
        }
        let lo = tok_pos(ts, b, i); let hi = tok_pos(ts, b, j); let mid = tok_pos(ts, b, m);
        assert forall|k: int| 0 <= k < parts.len() implies lo <= part_lo(#[trigger] parts[k]) <= part_hi(parts[k]) <= hi by {
            if k < n - 1 { assert(parts[k] == g[k]); assert(lo <= part_lo(g[k]) <= part_hi(g[k]) <= mid); }
        }
        assert forall|k: int, l: int| 0 <= k < l < parts.len() implies part_hi(#[trigger] parts[k]) <= part_lo(#[trigger] parts[l]) by {
            assert(parts[k] == g[k]);
            if l < n - 1 { assert(parts[l] == g[l]); } else { assert(part_hi(g[k]) <= mid); }
        }
        assert forall|k: int| 0 <= k < parts.len() implies (#[trigger] parts[k] matches crate::parser::ContentPart::Element(el) ==>
                el_wf(el) && parts_wf(el.children@, el.start_token.byte_end as int, el.end_token.byte_start as int)
                && el_on_b(el, b) && parts_on_b(el.children@, b) && all_el_wf(el.children@)) by {
            if k < n - 1 { assert(parts[k] == g[k]); }
        }
    }
}
