"""A small Rust lexer: enough to find items, match braces and locate closures/loops.

Tokens are (kind, text, start, end) with kind in
  'ws', 'comment', 'str', 'char', 'lifetime', 'ident', 'num', 'punct'.
Multi-character operators that matter for structure are kept together:
  '->', '=>', '::', '..=', '..', '==', '!=', '<=', '>=', '&&', '||', '+=', '-=', '*=', '/='.
('||' is split back into two '|' by callers that look for closures with no parameters; the
crate has none.)
"""
import re

_IDENT = re.compile(r'[A-Za-z_][A-Za-z0-9_]*')
_NUM = re.compile(r'[0-9][0-9A-Za-z_]*(\.[0-9][0-9A-Za-z_]*)?')
_OPS = ['..=', '...', '->', '=>', '::', '..', '==', '!=', '<=', '>=', '&&', '||', '+=', '-=', '*=', '/=']


class LexError(Exception):
    pass


class Tok:
    __slots__ = ('kind', 'text', 'start', 'end')

    def __init__(self, kind, text, start, end):
        self.kind, self.text, self.start, self.end = kind, text, start, end

    def __repr__(self):
        return f'Tok({self.kind},{self.text!r},{self.start})'


def lex(src):
    toks = []
    i, n = 0, len(src)
    while i < n:
        c = src[i]
        if c.isspace():
            j = i
            while j < n and src[j].isspace():
                j += 1
            toks.append(Tok('ws', src[i:j], i, j))
            i = j
        elif src.startswith('//', i):
            j = src.find('\n', i)
            if j < 0:
                j = n
            toks.append(Tok('comment', src[i:j], i, j))
            i = j
        elif src.startswith('/*', i):
            depth, j = 1, i + 2
            while j < n and depth:
                if src.startswith('/*', j):
                    depth += 1
                    j += 2
                elif src.startswith('*/', j):
                    depth -= 1
                    j += 2
                else:
                    j += 1
            if depth:
                raise LexError('unterminated block comment')
            toks.append(Tok('comment', src[i:j], i, j))
            i = j
        elif c == '"' or (c == 'b' and src.startswith('b"', i)):
            j = i + (2 if c == 'b' else 1)
            while j < n and src[j] != '"':
                j += 2 if src[j] == '\\' else 1
            if j >= n:
                raise LexError('unterminated string')
            toks.append(Tok('str', src[i:j + 1], i, j + 1))
            i = j + 1
        elif c == 'r' and re.match(r'r#*"', src[i:i + 10]):
            m = re.match(r'r(#*)"', src[i:])
            close = '"' + m.group(1)
            j = src.find(close, i + len(m.group(0)))
            if j < 0:
                raise LexError('unterminated raw string')
            j += len(close)
            toks.append(Tok('str', src[i:j], i, j))
            i = j
        elif c == "'" or (c == 'b' and src.startswith("b'", i)):
            k = i + (1 if c == 'b' else 0)
            # char literal: '\x', 'c' ; lifetime: 'ident not followed by '
            if src[k + 1] == '\\':
                j = src.find("'", k + 3)
                # handle '\'' : escaped quote
                if src[k + 2] == "'":
                    j = k + 3
                toks.append(Tok('char', src[i:j + 1], i, j + 1))
                i = j + 1
            elif k + 2 < n and src[k + 2] == "'":
                toks.append(Tok('char', src[i:k + 3], i, k + 3))
                i = k + 3
            else:
                m = _IDENT.match(src, k + 1)
                if m:
                    toks.append(Tok('lifetime', src[i:m.end()], i, m.end()))
                    i = m.end()
                else:
                    # multi-byte char literal such as 'あ'
                    j = src.find("'", k + 1)
                    toks.append(Tok('char', src[i:j + 1], i, j + 1))
                    i = j + 1
        elif c.isalpha() or c == '_':
            m = _IDENT.match(src, i)
            toks.append(Tok('ident', m.group(0), i, m.end()))
            i = m.end()
        elif c.isdigit():
            m = _NUM.match(src, i)
            # do not swallow the range operator in `1..x`
            text = m.group(0)
            if '.' in text and src.startswith('..', i + text.index('.')):
                text = text[:text.index('.')]
            toks.append(Tok('num', text, i, i + len(text)))
            i += len(text)
        else:
            for op in _OPS:
                if src.startswith(op, i):
                    toks.append(Tok('punct', op, i, i + len(op)))
                    i += len(op)
                    break
            else:
                toks.append(Tok('punct', c, i, i + 1))
                i += 1
    return toks


def sig(toks):
    """significant tokens (no whitespace/comments)"""
    return [t for t in toks if t.kind not in ('ws', 'comment')]


OPEN = {'(': ')', '[': ']', '{': '}'}
CLOSE = {v: k for k, v in OPEN.items()}


def match_forward(st, i):
    """st: significant tokens, st[i] is an opening bracket; returns index of the matching close."""
    assert st[i].text in OPEN, st[i]
    depth = 0
    for j in range(i, len(st)):
        t = st[j].text
        if st[j].kind == 'punct':
            if t in OPEN:
                depth += 1
            elif t in CLOSE:
                depth -= 1
                if depth == 0:
                    return j
    raise LexError('unbalanced brackets')


def match_backward(st, i):
    assert st[i].text in CLOSE, st[i]
    depth = 0
    for j in range(i, -1, -1):
        t = st[j].text
        if st[j].kind == 'punct':
            if t in CLOSE:
                depth += 1
            elif t in OPEN:
                depth -= 1
                if depth == 0:
                    return j
    raise LexError('unbalanced brackets')
