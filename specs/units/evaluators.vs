//@unit evaluators
// L7: the two removal evaluators.
//@include types.vs
//@include attrs_vocab.vs

//@include chrono_standin.vs

pub mod removal_evaluator {
use super::*;
use crate::element_parser::Element;
//@fn id=trait_removal_evaluator file=code/remover/removal_evaluator.rs name=is_removal in="trait RemovalEvaluator" props=C03,C04,C05,C06
//@ret r
//@container-extra
    spec fn spec_is_removal(&self, start_el: Element) -> bool;
//@ensures label=evaluator_is_spec props=C03,C04,C05,C06
    r == self.spec_is_removal(*start_el),
//@end

pub mod marker_evaluator {
use super::*;
use super::RemovalEvaluator;
use crate::element_parser::Element;
use std::collections::HashSet;
//@item file=code/remover/removal_evaluator/marker_evaluator.rs kind=struct name=MarkerEvaluator
//@fn id=marker_evaluator file=code/remover/removal_evaluator/marker_evaluator.rs name=is_removal in="impl RemovalEvaluator for MarkerEvaluator" props=C01,C04,C06
//@ret r
//@container-extra
    /// ready iff the first attribute named `name` has a value that is a member of the target set
    open spec fn spec_is_removal(&self, start_el: Element) -> bool {
        match attr_value(start_el.attrs@, "name"@) { Some(v) => set_has_str(self.marker_removal_names@, v), None => false }
    }
//@adapter 1 type="Option<&crate::element_parser::Attribute>"
//@closure 1 params="attr: &crate::element_parser::Attribute" ret="ret: Option<&str>"
//@closure-ensures
    ret == attr.value,
//@loop 1
//@invariant_except_break
    it_ok(__itA1),
    __rA1 is None,
    0 <= __n <= start_el.attrs@.len(),
    it_rem(__itA1) =~= start_el.attrs@.as_ref().skip(__n),
    forall|k: int| 0 <= k < __n ==> (#[trigger] start_el.attrs@[k]).name@ != "name"@,
//@loop-ensures
    match __rA1 {
        Some(x) => exists|i: int| #[trigger] first_attr(start_el.attrs@, "name"@, i) && *x == start_el.attrs@[i],
        None => forall|i: int| !first_attr(start_el.attrs@, "name"@, i),
    },
//@decreases
    IteratorSpec::decrease(&__itA1)->0
//@at body-start
    broadcast use {axiom_string_key_model, axiom_set_contains_str};
//@at before "loop {"
    let ghost mut __n: int = 0;
    proof { assert(start_el.attrs@.as_ref().skip(0) =~= start_el.attrs@.as_ref()); }
//@at loop 1 start
    let ghost __rest = it_rem(__itA1);
//@at before "let a = &__xA1;"
    proof {
        assert(__rest[0] == __xA1);
        assert(*__xA1 == start_el.attrs@[__n]);
        assert(__rest.drop_first() =~= start_el.attrs@.as_ref().skip(__n + 1));
    }
//@at before "__rA1 = Some(__xA1);"
    proof { assert(first_attr(start_el.attrs@, "name"@, __n - 1)); }
//@at after "let a = &__xA1;"
    proof { __n = __n + 1; }
//@at after-loop 1
    proof {
        if __rA1 is Some {
            let i = choose|i: int| #[trigger] first_attr(start_el.attrs@, "name"@, i) && *__rA1->0 == start_el.attrs@[i];
            assert forall|j: int| first_attr(start_el.attrs@, "name"@, j) implies j == i by {
                lemma_first_attr_unique(start_el.attrs@, "name"@, i, j);
            }
        }
    }
//@end
} // mod marker_evaluator

pub mod time_limited_evaluator {
use super::*;
use super::RemovalEvaluator;
use crate::element_parser::Element;
use crate::chrono::{DateTime, Local};
//@item file=code/remover/removal_evaluator/time_limited_evaluator.rs kind=struct name=TimeLimitedEvaluator
//@fn id=time_limited_evaluator file=code/remover/removal_evaluator/time_limited_evaluator.rs name=is_removal in="impl RemovalEvaluator for TimeLimitedEvaluator" props=C01,C04,C05
//@ret r
//@container-extra
    /// ready iff the first attribute named `to` has a value v, chrono parses v ++ " " ++ offset with the
    /// format "%Y-%m-%d %H:%M:%S %z" to an instant e, and NOT current < e (equality counts as expired)
    open spec fn spec_is_removal(&self, start_el: Element) -> bool {
        match attr_value(start_el.attrs@, "to"@) {
            Some(v) => match crate::chrono::chrono_parse(v.push(' ') + self.time_offset@, "%Y-%m-%d %H:%M:%S %z"@) {
                Some(e) => !(crate::chrono::instant(self.current_time) < e),
                None => false,
            },
            None => false,
        }
    }
//@adapter 1 type="Option<&crate::element_parser::Attribute>"
//@loop 1
//@invariant_except_break
    it_ok(__itA1),
    __rA1 is None,
    0 <= __n <= start_el.attrs@.len(),
    it_rem(__itA1) =~= start_el.attrs@.as_ref().skip(__n),
    forall|k: int| 0 <= k < __n ==> (#[trigger] start_el.attrs@[k]).name@ != "to"@,
//@loop-ensures
    match __rA1 {
        Some(x) => exists|i: int| #[trigger] first_attr(start_el.attrs@, "to"@, i) && *x == start_el.attrs@[i],
        None => forall|i: int| !first_attr(start_el.attrs@, "to"@, i),
    },
//@decreases
    IteratorSpec::decrease(&__itA1)->0
//@at before "loop {"
    let ghost mut __n: int = 0;
    proof { assert(start_el.attrs@.as_ref().skip(0) =~= start_el.attrs@.as_ref()); }
//@at loop 1 start
    let ghost __rest = it_rem(__itA1);
//@at before "let a = &__xA1;"
    proof {
        assert(__rest[0] == __xA1);
        assert(*__xA1 == start_el.attrs@[__n]);
        assert(__rest.drop_first() =~= start_el.attrs@.as_ref().skip(__n + 1));
    }
//@at before "__rA1 = Some(__xA1);"
    proof { assert(first_attr(start_el.attrs@, "to"@, __n - 1)); }
//@at after "let a = &__xA1;"
    proof { __n = __n + 1; }
//@at after-loop 1
    proof {
        if __rA1 is Some {
            let i = choose|i: int| #[trigger] first_attr(start_el.attrs@, "to"@, i) && *__rA1->0 == start_el.attrs@[i];
            assert forall|j: int| first_attr(start_el.attrs@, "to"@, j) implies j == i by {
                lemma_first_attr_unique(start_el.attrs@, "to"@, i, j);
            }
        }
    }
//@end
} // mod time_limited_evaluator
} // mod removal_evaluator
