//@unit formatter_merge
// L3 (first half): merge_ranges and merge_overlapped_ranges of code/formatter.rs.

/// loop invariant of merge_overlapped_ranges: r[0..c) is the merged image of o[0..rc), r[rc..] is untouched
#[verifier::opaque]
pub open spec fn mo_inv(o: Seq<Range<usize>>, r: Seq<Range<usize>>, c: int, rc: int) -> bool {
    &&& r.len() == o.len()
    &&& 0 < c <= rc <= o.len()
    &&& forall|k: int| rc <= k < r.len() ==> r[k] == o[k]
    &&& forall|i: int| 0 <= i < c ==> (#[trigger] r[i]).start <= r[i].end
    &&& forall|i: int, j: int| 0 <= i < j < c ==> (#[trigger] r[i]).end < (#[trigger] r[j]).start
    &&& forall|p: int| #[trigger] covered_n(r, c, p) ==> covered_n(o, rc, p)
    &&& forall|i: int| 0 <= i < c ==> has_start_n(o, rc, (#[trigger] r[i]).start) && has_end_n(o, rc, r[i].end)
    &&& sorted_by_start(o) ==> forall|p: int| #[trigger] covered_n(o, rc, p) ==> covered_n(r, c, p)
    &&& sorted_by_start(o) ==> has_start_n(o, rc, r[c - 1].start)
}

pub proof fn lemma_mo_init(o: Seq<Range<usize>>)
    requires o.len() > 0, rvalid(o),
    ensures mo_inv(o, o, 1, 1),
{
    reveal(mo_inv);
    assert forall|i: int| 0 <= i < 1 implies has_start_n(o, 1, (#[trigger] o[i]).start) && has_end_n(o, 1, o[i].end) by {
        lemma_start_intro(o, 1, 0, o[i].start);
        lemma_end_intro(o, 1, 0, o[i].end);
    }
    lemma_start_intro(o, 1, 0, o[0].start);
}

pub proof fn lemma_mo_step_merge(o: Seq<Range<usize>>, r0: Seq<Range<usize>>, r1: Seq<Range<usize>>, c: int, rc: int)
    requires
        rvalid(o), mo_inv(o, r0, c, rc), rc < o.len(),
        r0[c - 1].end >= r0[rc].start,
        r1 == r0.update(c - 1, Range { start: r0[c - 1].start, end: if r0[c - 1].end >= r0[rc].end { r0[c - 1].end } else { r0[rc].end } }),
    ensures mo_inv(o, r1, c, rc + 1),
{
    hide(covered_n); hide(has_start_n); hide(has_end_n); reveal(mo_inv);
    let rc1 = rc + 1;
    let w = c - 1;
    assert(o[rc] == r0[rc]);
    assert(o[rc].start <= o[rc].end);
    assert forall|p: int| #[trigger] covered_n(r1, c, p) implies covered_n(o, rc1, p) by {
        let i = lemma_cov_elim(r1, c, p);
        if i < w || p < r0[w].end {
            lemma_cov_intro(r0, c, i, p);
            let j = lemma_cov_elim(o, rc, p);
            lemma_cov_intro(o, rc1, j, p);
        } else {
            lemma_cov_intro(o, rc1, rc, p);
        }
    }
    assert forall|i: int| 0 <= i < c implies has_start_n(o, rc1, (#[trigger] r1[i]).start) && has_end_n(o, rc1, r1[i].end) by {
        let j = lemma_start_elim(o, rc, r0[i].start);
        lemma_start_intro(o, rc1, j, r1[i].start);
        if r1[i].end == r0[i].end {
            let k = lemma_end_elim(o, rc, r0[i].end);
            lemma_end_intro(o, rc1, k, r1[i].end);
        } else {
            lemma_end_intro(o, rc1, rc, r1[i].end);
        }
    }
    if sorted_by_start(o) {
        let js = lemma_start_elim(o, rc, r0[w].start);
        assert(o[js].start <= o[rc].start);
        lemma_start_intro(o, rc1, js, r1[w].start);
        assert forall|p: int| #[trigger] covered_n(o, rc1, p) implies covered_n(r1, c, p) by {
            let j = lemma_cov_elim(o, rc1, p);
            if j < rc {
                lemma_cov_intro(o, rc, j, p);
                let i = lemma_cov_elim(r0, c, p);
                lemma_cov_intro(r1, c, i, p);
            } else {
                lemma_cov_intro(r1, c, w, p);
            }
        }
    }
}

pub proof fn lemma_mo_step_new(o: Seq<Range<usize>>, r0: Seq<Range<usize>>, r1: Seq<Range<usize>>, c: int, rc: int)
    requires
        rvalid(o), mo_inv(o, r0, c, rc), rc < o.len(),
        r0[c - 1].end < r0[rc].start,
        r1 == (if c != rc { r0.update(c, r0[rc]) } else { r0 }),
    ensures mo_inv(o, r1, c + 1, rc + 1),
{
    hide(covered_n); hide(has_start_n); hide(has_end_n); reveal(mo_inv);
    let rc1 = rc + 1;
    let c1 = c + 1;
    assert(o[rc] == r0[rc]);
    assert(r1[c] == o[rc]);
    assert(o[rc].start <= o[rc].end);
    assert forall|p: int| #[trigger] covered_n(r1, c1, p) implies covered_n(o, rc1, p) by {
        let i = lemma_cov_elim(r1, c1, p);
        if i < c {
            lemma_cov_intro(r0, c, i, p);
            let j = lemma_cov_elim(o, rc, p);
            lemma_cov_intro(o, rc1, j, p);
        } else {
            lemma_cov_intro(o, rc1, rc, p);
        }
    }
    assert forall|i: int| 0 <= i < c1 implies has_start_n(o, rc1, (#[trigger] r1[i]).start) && has_end_n(o, rc1, r1[i].end) by {
        if i < c {
            let j = lemma_start_elim(o, rc, r0[i].start);
            lemma_start_intro(o, rc1, j, r1[i].start);
            let k = lemma_end_elim(o, rc, r0[i].end);
            lemma_end_intro(o, rc1, k, r1[i].end);
        } else {
            lemma_start_intro(o, rc1, rc, r1[i].start);
            lemma_end_intro(o, rc1, rc, r1[i].end);
        }
    }
    assert forall|i: int, j: int| 0 <= i < j < c1 implies (#[trigger] r1[i]).end < (#[trigger] r1[j]).start by {
        if j < c { assert(r0[i].end < r0[j].start); }
        else if i < c - 1 { assert(r0[i].end < r0[c - 1].start); assert(r0[c - 1].start <= r0[c - 1].end); }
        else { }
    }
    if sorted_by_start(o) {
        lemma_start_intro(o, rc1, rc, r1[c].start);
        assert forall|p: int| #[trigger] covered_n(o, rc1, p) implies covered_n(r1, c1, p) by {
            let j = lemma_cov_elim(o, rc1, p);
            if j < rc {
                lemma_cov_intro(o, rc, j, p);
                let i = lemma_cov_elim(r0, c, p);
                lemma_cov_intro(r1, c1, i, p);
            } else {
                lemma_cov_intro(r1, c1, c, p);
            }
        }
    }
}

pub proof fn lemma_mo_final(o: Seq<Range<usize>>, r: Seq<Range<usize>>, c: int, f: Seq<Range<usize>>)
    requires rvalid(o), mo_inv(o, r, c, o.len() as int), f == r.subrange(0, c),
    ensures
        f.len() <= o.len(), f.len() > 0, rvalid(f), separated(f),
        forall|p: int| covered(f, p) ==> covered(o, p),
        ends_from(o, f),
        sorted_by_start(o) ==> forall|p: int| covered(o, p) ==> covered(f, p),
{
    hide(covered_n); hide(has_start_n); hide(has_end_n); reveal(mo_inv);
    let n = o.len() as int;
    assert forall|i: int, j: int| 0 <= i < j < f.len() implies (#[trigger] f[i]).end < (#[trigger] f[j]).start by {
        assert(r[i].end < r[j].start);
    }
    assert forall|p: int| covered(f, p) implies covered(o, p) by {
        let i = choose|i: int| 0 <= i < f.len() && (#[trigger] f[i]).start <= p < f[i].end;
        lemma_cov_intro(r, c, i, p);
        let j = lemma_cov_elim(o, n, p);
        assert(o[j].start <= p < o[j].end);
    }
    assert forall|i: int| 0 <= i < f.len() implies has_start_n(o, n, (#[trigger] f[i]).start) && has_end_n(o, n, f[i].end) by {
        assert(f[i] == r[i]);
    }
    if sorted_by_start(o) {
        assert forall|p: int| covered(o, p) implies covered(f, p) by {
            let j = choose|j: int| 0 <= j < o.len() && (#[trigger] o[j]).start <= p < o[j].end;
            lemma_cov_intro(o, n, j, p);
            let i = lemma_cov_elim(r, c, p);
            assert(f[i].start <= p < f[i].end);
        }
    }
}

//@fn id=merge_overlapped_ranges file=code/formatter.rs name=merge_overlapped_ranges props=C01,C02,C12,C13,C14
//@requires
    rvalid(old(ranges)@),
//@ensures label=merge_overlapped_safe props=C01,C02,C14
    final(ranges)@.len() <= old(ranges)@.len(),
    old(ranges)@.len() > 0 ==> final(ranges)@.len() > 0,
    rvalid(final(ranges)@),
    separated(final(ranges)@),
    forall|p: int| covered(final(ranges)@, p) ==> covered(old(ranges)@, p),
    ends_from(old(ranges)@, final(ranges)@),
//@ensures label=merge_overlapped_complete props=C12,C13
    sorted_by_start(old(ranges)@) ==> forall|p: int| covered(old(ranges)@, p) ==> covered(final(ranges)@, p),
//@loop 1 iter=it
//@invariant
    ranges@.len() == old(ranges)@.len(),
    rvalid(old(ranges)@),
    ranges@.len() > 0 ==> read_cursor == it.index@ + 1,
    ranges@.len() > 0 ==> mo_inv(old(ranges)@, ranges@, write_cursor + 1, it.index@ + 1),
    ranges@.len() == 0 ==> write_cursor == 0,
    ranges@.len() > 0 ==> write_cursor <= it.index@,
//@at before "for read_cursor in"
    proof { if ranges@.len() > 0 { lemma_mo_init(ranges@); } }
//@at loop 1 start
    let ghost __r0 = ranges@;
    let ghost __w0 = write_cursor as int;
//@at loop 1 end
    proof {
        if __r0[__w0].end >= __r0[read_cursor as int].start {
            lemma_mo_step_merge(old(ranges)@, __r0, ranges@, __w0 + 1, read_cursor as int);
        } else {
            lemma_mo_step_new(old(ranges)@, __r0, ranges@, __w0 + 1, read_cursor as int);
        }
    }
//@at after-loop 1
    let ghost __r1 = ranges@;
//@at body-end
    proof {
        if __r1.len() > 0 {
            lemma_mo_final(old(ranges)@, __r1, write_cursor + 1, ranges@);
        } else {
            assert(ranges@ =~= old(ranges)@);
        }
    }
//@end

pub proof fn lemma_insert_contains(s: Seq<Range<usize>>, i: int, a: Range<usize>)
    requires 0 <= i <= s.len(),
    ensures forall|x: Range<usize>| #[trigger] s.insert(i, a).contains(x) <==> (s.contains(x) || x == a),
{
    let t = s.insert(i, a);
    assert forall|x: Range<usize>| #[trigger] t.contains(x) <==> (s.contains(x) || x == a) by {
        if t.contains(x) {
            let k = choose|k: int| 0 <= k < t.len() && t[k] == x;
            if k < i { assert(s[k] == x); } else if k == i { } else { assert(s[k - 1] == x); }
        }
        if s.contains(x) {
            let k = choose|k: int| 0 <= k < s.len() && s[k] == x;
            if k < i { assert(t[k] == x); } else { assert(t[k + 1] == x); }
        }
        if x == a { assert(t[i] == x); }
    }
}

pub proof fn lemma_insert_sorted(s: Seq<Range<usize>>, i: int, a: Range<usize>)
    requires
        0 <= i <= s.len(), sorted_by_start(s),
        forall|k: int| 0 <= k < i ==> (#[trigger] s[k]).start <= a.start,
        forall|k: int| i <= k < s.len() ==> a.start <= (#[trigger] s[k]).start,
    ensures sorted_by_start(s.insert(i, a)),
{
    let t = s.insert(i, a);
    assert forall|x: int, y: int| 0 <= x < y < t.len() implies (#[trigger] t[x]).start <= (#[trigger] t[y]).start by {
        let sx = if x < i { x } else { x - 1 };
        let sy = if y < i { y } else { y - 1 };
        if x != i && y != i { assert(s[sx].start <= s[sy].start); }
        else if x == i { assert(a.start <= s[sy].start); }
        else { assert(s[sx].start <= a.start); }
    }
}

//@fn id=merge_ranges file=code/formatter.rs name=merge_ranges props=C01,C02,C04,C12,C13,C14
//@ensures label=merge_ranges_members props=C01,C02,C04,C14
    old(ranges)@.len() == 0 ==> final(ranges)@ == old(ranges)@,
    old(ranges)@.len() > 0 ==> final(ranges)@.len() == old(ranges)@.len() + new_ranges@.len(),
    old(ranges)@.len() > 0 ==> forall|x: Range<usize>| #[trigger] final(ranges)@.contains(x) <==> (old(ranges)@.contains(x) || new_ranges@.contains(x)),
//@ensures label=merge_ranges_sorted props=C12,C13
    old(ranges)@.len() > 0 && sorted_by_start(old(ranges)@) ==> sorted_by_start(final(ranges)@),
//@loop 1
//@invariant
    ranges@.len() > 0,
    new_ranges@.len() <= __n0.len(),
    __n0 == __np,
    new_ranges@ =~= __n0.subrange(0, new_ranges@.len() as int),
    ranges@.len() + new_ranges@.len() == old(ranges)@.len() + __n0.len(),
    forall|x: Range<usize>| #[trigger] ranges@.contains(x) <==> (old(ranges)@.contains(x) || __n0.subrange(new_ranges@.len() as int, __n0.len() as int).contains(x)),
    sorted_by_start(old(ranges)@) ==> sorted_by_start(ranges@),
//@loop-ensures
    new_ranges@.len() == 0,
//@decreases
    new_ranges@.len()
//@breaktype 1 type="Option<usize>"
//@loop 2
//@invariant_except_break
    cursor < ranges@.len(),
    forall|k: int| cursor < k < ranges@.len() ==> (#[trigger] ranges@[k]).start >= new_range.start,
//@loop-ensures
    match __lv1 {
        Some(c) => c < ranges@.len() && ranges@[c as int].start < new_range.start
            && forall|k: int| c < k < ranges@.len() ==> (#[trigger] ranges@[k]).start >= new_range.start,
        None => forall|k: int| 0 <= k < ranges@.len() ==> (#[trigger] ranges@[k]).start >= new_range.start,
    },
//@decreases
    cursor
//@at before "let mut new_ranges = new_ranges;"
    let ghost __np = new_ranges@;
//@at before "while !new_ranges.is_empty()"
    let ghost __n0 = new_ranges@;
    proof {
        assert(__n0.subrange(__n0.len() as int, __n0.len() as int) =~= Seq::<Range<usize>>::empty());
    }
//@at loop 1 start
    let ghost __r0 = ranges@;
    let ghost __k0 = new_ranges@.len() as int;
//@at before "match cursor {" 2
    proof {
        let i: int = match cursor { Some(c) => c + 1, None => 0 };
        lemma_insert_contains(__r0, i, new_range);
        if sorted_by_start(__r0) {
            assert forall|k: int| 0 <= k < i implies (#[trigger] __r0[k]).start <= new_range.start by {
                assert(__r0[k].start <= __r0[i - 1].start);
            }
            lemma_insert_sorted(__r0, i, new_range);
        }
        let a = __n0.subrange(__k0 - 1, __n0.len() as int);
        let b = __n0.subrange(__k0, __n0.len() as int);
        assert(new_range == __n0[__k0 - 1]);
        assert(a =~= seq![new_range] + b);
        assert forall|x: Range<usize>| a.contains(x) <==> (b.contains(x) || x == new_range) by {
            if a.contains(x) {
                let k = choose|k: int| 0 <= k < a.len() && a[k] == x;
                if k > 0 { assert(b[k - 1] == x); }
            }
            if b.contains(x) {
                let k = choose|k: int| 0 <= k < b.len() && b[k] == x;
                assert(a[k + 1] == x);
            }
            if x == new_range { assert(a[0] == x); }
        }
    }
//@at body-end
    proof {
        assert(__n0.subrange(0, __n0.len() as int) =~= __n0);
    }
//@end
