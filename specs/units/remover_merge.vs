//@unit remover_merge
// L4: marker merging (merge_child_markers, merge_markers) and get_removed_pos of code/remover.rs.
//@include types.vs

pub mod remover {
use super::*;
//@item file=code/remover/marker/factory.rs kind=type name=RemovableRange
//@item file=code/remover.rs kind=type name=RemoveMarker
//@item file=code/remover.rs kind=type name=RemovedMarker
//@item file=code/remover.rs kind=struct name=RemovalRangeTree

pub struct Remover {}

//@include remover_vocab.vs

//@fn id=get_removed_pos file=code/remover.rs name=get_removed_pos props=C01,C04,C12,C15
//@ret r
//@requires
    forall|i: int| 0 <= i < markers@.len() ==> (#[trigger] markers@[i]).0.start <= markers@[i].0.end,
    forall|i: int, j: int| 0 <= i < j < markers@.len() ==> (#[trigger] markers@[i]).0.end <= (#[trigger] markers@[j]).0.start,
//@ensures label=removed_pos_exact props=C01,C04,C12,C15
    r@.len() == markers@.len(),
    forall|i: int| 0 <= i < r@.len() ==> (#[trigger] r@[i]).0 == markers@[i].0.start - removed_before(markers@, i) && r@[i].1 == markers@[i].1,
//@fold 1 type="(Vec<RemovedMarker>, usize)"
//@loop 1 iter=it
//@invariant
    forall|i: int| 0 <= i < markers@.len() ==> (#[trigger] markers@[i]).0.start <= markers@[i].0.end,
    forall|i: int, j: int| 0 <= i < j < markers@.len() ==> (#[trigger] markers@[i]).0.end <= (#[trigger] markers@[j]).0.start,
    it.seq() == markers@.as_ref(),
    __acc1.0@.len() == it.index@,
    __acc1.1 == removed_before(markers@, it.index@),
    it.index@ > 0 ==> __acc1.1 <= markers@[it.index@ - 1].0.end,
    forall|i: int| 0 <= i < it.index@ ==> (#[trigger] __acc1.0@[i]).0 == markers@[i].0.start - removed_before(markers@, i) && __acc1.0@[i].1 == markers@[i].1,
//@end

//@fn id=merge_child_markers file=code/remover.rs name=merge_child_markers in="impl Remover" props=C01,C02,C03
//@ret r
//@requires
    child_markers.obeys_prophetic_iter_laws(),
    child_markers.remaining().len() <= usize::MAX,
    child_markers.decrease() is Some,
//@ensures label=merge_child_exact props=C02,C03
    (r as int, *final(marker)) == mcm(marker_ref_ranges(child_markers.remaining()), *old(marker)),
//@desugar-for 1
//@loop 1
//@invariant_except_break
    __it1.obeys_prophetic_iter_laws(),
    __it1.decrease() is Some,
    cursor <= __s0.len() <= usize::MAX,
    marker_ref_ranges(__it1.remaining()) =~= __s0.skip(cursor as int),
    mcm(__s0, *old(marker)) == (cursor + mcm(__s0.skip(cursor as int), *marker).0, mcm(__s0.skip(cursor as int), *marker).1),
//@loop-ensures
    (cursor as int, *marker) == mcm(__s0, *old(marker)),
//@decreases
    __it1.decrease()->0
//@at before "loop {"
    let ghost __s0 = marker_ref_ranges(child_markers.remaining());
    proof { assert(__s0.skip(0) =~= __s0); }
//@at loop 1 start
    let ghost __rest = __s0.skip(cursor as int);
    let ghost __m0 = *marker;
//@at before "if marker.contains(&child_marker.start)"
    proof {
        assert(__rest.len() > 0);
        assert(__rest[0] == child_marker);
        assert(__rest.drop_first() =~= __s0.skip(cursor + 1));
    }
//@end

/// mm_spec has the properties promised to the callers: sortedness, emptiness, extent, EXACT COVERAGE (lemma_mm_core),
/// marker endpoints are node-range endpoints (lemma_mm_endpoints), pair indices are consistent (lemma_mm_pairs_sized) -
/// all PROVED by induction over the forest from the mcm lemmas.
pub proof fn lemma_mm_post(f: Seq<GTree>)
    requires exists|lo: int, hi: int| wf_forest(f, lo, hi), 2 * forest_size(f) < usize::MAX,
    ensures mm_post(f, mm_spec(f)),
{
    let (lo, hi) = choose|lo: int, hi: int| wf_forest(f, lo, hi);
    lemma_mm_core(f, lo, hi);
    lemma_mm_endpoints(f, lo, hi);
    lemma_mm_pairs_sized(f);
}

//@fn id=merge_markers file=code/remover.rs name=merge_markers in="impl Remover" props=C01,C02,C03,C04,C12,C15,C14
//@ret r
//@requires
    exists|lo: int, hi: int| wf_forest(vf(ranges@), lo, hi),
    2 * forest_size(vf(ranges@)) < usize::MAX,
//@ensures label=merge_markers_is_spec props=C01,C02,C03,C04,C12,C15
    r@ == mm_spec(vf(ranges@)),
//@ensures label=merge_markers_post props=C01,C02,C03,C04,C12,C15
    mm_post(vf(ranges@), r@),
//@fn-decreases
    ranges@
//@fold 1 type="Vec<RemoveMarker>"
//@loop 1 iter=it
//@invariant
    it.seq() == ranges@,
    exists|lo: int, hi: int| wf_forest(vf(ranges@), lo, hi),
    2 * forest_size(vf(ranges@)) < usize::MAX,
    __acc1@ == mm_spec(vf(ranges@).take(it.index@)),
//@loop 2 iter=it2
//@invariant
    start_cursor <= end_cursor <= child_markers@.len(),
    it2.seq() == child_markers@.subrange(start_cursor as int, end_cursor as int).as_ref(),
    current + (end_cursor - start_cursor) + 1 < usize::MAX,
    acc@ == __acc0 + seq![(__head, Some((current + (end_cursor - start_cursor) + 1) as usize))] + rebased(child_markers@, start_cursor as int, end_cursor as int, current as int).take(it2.index@),
//@at body-start
    hide(mm_spec); hide(forest_size); hide(wf_forest); hide(mm_post); hide(forest_covered); hide(forest_endpoint); hide(vt);
    proof { lemma_mm_post(vf(ranges@)); }
//@at before "for __x1 in"
    proof { lemma_mm_spec_empty(vf(ranges@)); }
//@at loop 1 start
    let ghost __i = it.index@;
    let ghost __f = vf(ranges@);
    let ghost __acc0 = __acc1@;
    proof {
        lemma_mm_spec_step(__f, __i);
        lemma_wf_child(__f, __i);
        lemma_vt_children(ranges@[__i]);
        lemma_forest_size_take(__f, __i);
        lemma_mm_len(__f.take(__i));
        lemma_mm_len(__f[__i].children);
    }
//@at before "let (mut marker, pair) = tree.range;"
    proof {
        assert(child_markers.len() == child_markers@.len());
        lemma_mcm_bounds(marker_ranges(child_markers@), tree.range.0);
        assert(marker_ref_ranges(child_markers@.as_ref()) =~= marker_ranges(child_markers@));
        assert(marker_ref_ranges(child_markers@.as_ref().reverse()) =~= marker_ranges(child_markers@).reverse());
        if tree.range.1 is Some { lemma_mcm_bounds(marker_ranges(child_markers@).reverse(), tree.range.1->0); }
    }
//@at before "for (child_marker, child_pair) in"
    let ghost __head = acc@.last().0;
    proof {
        assert(rebased(child_markers@, start_cursor as int, end_cursor as int, current as int).take(0) =~= Seq::<RemoveMarker>::empty());
    }
//@at loop 2 end
    proof {
        let rb = rebased(child_markers@, start_cursor as int, end_cursor as int, current as int);
        assert(rb.take(it2.index@ + 1) =~= rb.take(it2.index@).push(rb[it2.index@]));
    }
//@at after-loop 2
    proof {
        let rb = rebased(child_markers@, start_cursor as int, end_cursor as int, current as int);
        assert(rb.take(rb.len() as int) =~= rb);
    }
//@at after-loop 1
    proof { assert(vf(ranges@).take(ranges@.len() as int) =~= vf(ranges@)); }
//@end

pub proof fn lemma_mm_spec_empty(f: Seq<GTree>)
    ensures mm_spec(f.take(0)) == Seq::<RemoveMarker>::empty(),
{
    assert(f.take(0).len() == 0);
}
pub proof fn lemma_mm_spec_step(f: Seq<GTree>, i: int)
    requires 0 <= i < f.len(),
    ensures mm_spec(f.take(i + 1)) == mm_spec(f.take(i)) + tree_markers(f[i], mm_spec(f[i].children), mm_spec(f.take(i)).len() as int),
{
    assert(f.take(i + 1).drop_last() =~= f.take(i));
    assert(f.take(i + 1).last() == f[i]);
}
pub proof fn lemma_wf_child(f: Seq<GTree>, i: int)
    requires 0 <= i < f.len(), exists|lo: int, hi: int| wf_forest(f, lo, hi),
    ensures exists|lo: int, hi: int| wf_forest(f[i].children, lo, hi),
{
    let (lo, hi) = choose|lo: int, hi: int| wf_forest(f, lo, hi);
    assert(wf_forest(f[i].children, node_lo(f[i]), node_hi(f[i])));
}
pub proof fn lemma_forest_size_take(f: Seq<GTree>, i: int)
    requires 0 <= i < f.len(),
    ensures forest_size(f.take(i)) + 1 + forest_size(f[i].children) <= forest_size(f),
    decreases f.len() - i,
{
    if i + 1 == f.len() {
        assert(f.take(i) =~= f.drop_last());
    } else {
        lemma_forest_size_take(f.drop_last(), i);
        assert(f.drop_last().take(i) =~= f.take(i));
    }
}

} // mod remover
