#!/usr/bin/env python3
"""Confirm seeded changes and run the checks against them (scratch worktree; never touches /repo).
usage: seedcheck.py <seed-root> <id> [<id> ...]     e.g. seedcheck.py /tmp C01 C02
Each seed lives in <seed-root>/seed-<PROP>/<n>/{patch.diff,demo.rs,notes.md}."""
import json, os, subprocess, sys, shutil, time
WT = '/tmp/wt-verify'
def sh(cmd, cwd=None, env=None, timeout=1800):
    p = subprocess.run(cmd, shell=True, cwd=cwd, env=env, capture_output=True, text=True, timeout=timeout)
    return p.returncode, p.stdout + p.stderr
def main():
    root = sys.argv[1]
    props = sys.argv[2:]
    if not os.path.exists(WT):
        rc, out = sh(f'git -C /repo worktree add -q --detach {WT} HEAD')
        assert rc == 0, out
    results = []
    sys.path.insert(0, '/verif/extract')
    from extract import Generator
    g = Generator('/repo/chiritori/src', '/verif/specs')
    allprops = sorted({p for c in g.registry.values() for p in c['props'] + [q for e in c['ensures'] for q in e['props']]})
    for prop in props:
        d0 = f'{root}/seed-{prop}'
        for n in sorted(os.listdir(d0)):
            d = f'{d0}/{n}'
            if not os.path.exists(f'{d}/patch.diff'):
                continue
            r = {'seed': f'{prop}-{n}', 'property': prop}
            sh('git checkout -q -- . && git clean -fdq -e target && git checkout -q --detach main', cwd=WT)
            rc, out = sh(f'git apply --3way {d}/patch.diff || git apply {d}/patch.diff', cwd=WT)
            r['applies'] = rc == 0
            if rc != 0:
                r['apply_error'] = out[-400:]
                results.append(r); print(json.dumps(r)); continue
            sh('git reset -q', cwd=WT)
            rc, out = sh('cargo test --workspace --no-fail-fast --offline 2>&1 | grep -E "^test result|error" ', cwd=WT)
            r['suite_passes_with_change'] = ('FAILED' not in out and 'error' not in out and out.count('test result: ok') >= 3)
            os.makedirs(f'{WT}/chiritori/tests', exist_ok=True)
            shutil.copy(f'{d}/demo.rs', f'{WT}/chiritori/tests/demo.rs')
            rc, out = sh('cargo test --offline -p chiritori --test demo 2>&1 | tail -5', cwd=WT)
            r['demo_fails_with_change'] = 'test result: FAILED' in out or 'error' in out
            # run the checks against the changed tree
            env = dict(os.environ, CHIRITORI_REPO=WT, CHIRITORI_SRC=f'{WT}/chiritori/src', VERIF_OUT_DIR='/tmp/seedout')
            os.remove(f'{WT}/chiritori/tests/demo.rs')
            det = {p: {'rc': None, 'lines': []} for p in allprops}
            rc, out = sh('python3 /verif/bin/check --all --tier quick', cwd='/verif', env=env, timeout=3600)
            import re
            for l in out.splitlines():
                m = re.match(r'(VIOLATION|OK|UNDECIDED) property=(C\d+)', l)
                if m and m.group(2) in det:
                    k = {'VIOLATION': 1, 'OK': 0, 'UNDECIDED': 2}[m.group(1)]
                    dd = det[m.group(2)]
                    dd['rc'] = k if dd['rc'] is None else (1 if 1 in (k, dd['rc']) else max(k, dd['rc']))
                    if k: dd['lines'].append(l[:300])
            r['checks'] = det
            r['detected_by'] = [p for p, v in det.items() if v['rc'] == 1]
            r['undecided'] = [p for p, v in det.items() if v['rc'] == 2]
            sh('git checkout -q -- . && git clean -fdq -e target', cwd=WT)
            os.makedirs(f'{WT}/chiritori/tests', exist_ok=True)
            shutil.copy(f'{d}/demo.rs', f'{WT}/chiritori/tests/demo.rs')
            rc, out = sh('cargo test --offline -p chiritori --test demo 2>&1 | tail -5', cwd=WT)
            r['demo_passes_without_change'] = 'test result: ok' in out
            os.remove(f'{WT}/chiritori/tests/demo.rs')
            results.append(r)
            print(json.dumps({k: v for k, v in r.items() if k != 'checks'}), flush=True)
    json.dump(results, open(f'/tmp/seedcheck-{"-".join(props)}.json', 'w'), indent=1)
main()
