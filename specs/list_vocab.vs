// ---- listing vocabulary (needs RemoveMarker, ListItem, ItemStatus, find_line_spec in scope) ----
/// the text build_pretty_string_item renders (uninterpreted: C16 is not decided)
pub uninterp spec fn item_text(content: Seq<char>, start: usize, end: usize, is_removal: bool, coloring: bool, line_range: Option<(usize, usize)>) -> Seq<char>;

pub open spec fn line_range_spec(lm: Seq<usize>, range: Range<usize>) -> (usize, usize) {
    (find_line_spec(lm, range.start) as usize, find_line_spec(lm, (range.end - 1) as usize) as usize)
}

pub open spec fn lm_view(line_map: Option<&Vec<usize>>) -> Option<Seq<usize>> {
    match line_map { Some(m) => Some(m@), None => None }
}
/// C15 / C17, data side: one item per marker, in order, with the marker's first and last line number, the
/// rendered text of exactly that range, and status Ready iff the marker is flagged as a removal
pub open spec fn list_item_ok(content: Seq<char>, m: (RemoveMarker, bool), lm: Option<Seq<usize>>, it: ListItem) -> bool {
    &&& it.line_range == (match lm { Some(l) => Some(line_range_spec(l, m.0.0)), None => None::<(usize, usize)> })
    &&& it.annotated_code_block@ == item_text(content, m.0.0.start, m.0.0.end, m.1, false, it.line_range)
    &&& (it.current_status is Ready) == m.1
}
pub open spec fn markers_renderable(b: Seq<u8>, markers: Seq<(RemoveMarker, bool)>) -> bool {
    forall|i: int| 0 <= i < markers.len() ==> (#[trigger] markers[i]).0.0.start <= markers[i].0.0.end <= b.len() && markers[i].0.0.end >= 1
        && cb(b, markers[i].0.0.start as int) && cb(b, markers[i].0.0.end as int)
}

