// ---- vocabulary over parse trees (needs `ContentPart`, `tokenizer`, in scope) ----
/// the tokens of the parts in document order (C10: every token appears exactly once, in order)
pub open spec fn flatten<'a, 'b, 'c, 'd>(parts: Seq<ContentPart<'a, 'b, 'c, 'd>>) -> Seq<tokenizer::Token<'a, 'b, 'c>>
    decreases parts,
{
    if parts.len() == 0 { Seq::empty() } else {
        flatten(parts.drop_last()) + (match parts.last() {
            ContentPart::Text(t) => seq![*t.token],
            ContentPart::Element(el) => seq![*el.start_token] + flatten(el.children@) + seq![*el.end_token],
        })
    }
}
pub proof fn lemma_flatten_add<'a, 'b, 'c, 'd>(a: Seq<ContentPart<'a, 'b, 'c, 'd>>, b: Seq<ContentPart<'a, 'b, 'c, 'd>>)
    ensures flatten(a + b) == flatten(a) + flatten(b),
    decreases b.len(),
{
    if b.len() == 0 {
        assert(a + b =~= a);
        assert(flatten(a) + flatten(b) =~= flatten(a));
    } else {
        assert((a + b).drop_last() =~= a + b.drop_last());
        assert((a + b).last() == b.last());
        lemma_flatten_add(a, b.drop_last());
        let x = match b.last() {
            ContentPart::Text(t) => seq![*t.token],
            ContentPart::Element(el) => seq![*el.start_token] + flatten(el.children@) + seq![*el.end_token],
        };
        assert(flatten(a + b) =~= flatten(a) + flatten(b.drop_last()) + x);
        assert(flatten(a) + flatten(b) =~= flatten(a) + (flatten(b.drop_last()) + x));
    }
}
pub proof fn lemma_flatten_one<'a, 'b, 'c, 'd>(c: ContentPart<'a, 'b, 'c, 'd>)
    ensures flatten(seq![c]) == (match c {
        ContentPart::Text(t) => seq![*t.token],
        ContentPart::Element(el) => seq![*el.start_token] + flatten(el.children@) + seq![*el.end_token],
    }),
{
    assert(seq![c].drop_last() =~= Seq::<ContentPart<'a, 'b, 'c, 'd>>::empty());
    assert(flatten(seq![c].drop_last()) =~= Seq::<tokenizer::Token<'a, 'b, 'c>>::empty());
    assert(seq![c].last() == c);
    let x = match c {
        ContentPart::Text(t) => seq![*t.token],
        ContentPart::Element(el) => seq![*el.start_token] + flatten(el.children@) + seq![*el.end_token],
    };
    assert(Seq::<tokenizer::Token<'a, 'b, 'c>>::empty() + x =~= x);
}
pub proof fn lemma_flatten_singleton<'a, 'b, 'c, 'd>(s: Seq<ContentPart<'a, 'b, 'c, 'd>>, c: ContentPart<'a, 'b, 'c, 'd>)
    requires s.len() == 1, s[0] == c,
    ensures flatten(s) == flatten(seq![c]),
{
    assert(s =~= seq![c]);
}
pub proof fn lemma_flatten_empty<'a, 'b, 'c, 'd>()
    ensures forall|s: Seq<ContentPart<'a, 'b, 'c, 'd>>| s.len() == 0 ==> #[trigger] flatten(s) == Seq::<tokenizer::Token<'a, 'b, 'c>>::empty(),
{}

/// TRUSTED: a Vec<Token> (80-byte elements, one allocation of at most isize::MAX bytes) holds fewer than isize::MAX / 2 elements
#[verifier::external_body]
pub proof fn axiom_token_vec_len(v: &Vec<tokenizer::Token>)
    ensures 2 * v@.len() + 2 <= usize::MAX,
{}

// ---- C10 vocabulary: tag names and the tree as token values (needs stack_vocab.vs) ----
// (ep_name - the tag name element_parser::parse yields for a token - is defined in ep_vocab.vs)
pub type Tok<'a, 'b, 'c> = tokenizer::Token<'a, 'b, 'c>;
/// tag name of a token: element tokens that element_parser accepts
pub open spec fn tok_nm<'a, 'b, 'c>() -> spec_fn(Tok<'a, 'b, 'c>) -> Option<Seq<char>> {
    |t: Tok<'a, 'b, 'c>| if t.kind is Element { ep_name(t) } else { None }
}
/// the parse tree as a tree of token values
pub open spec fn gp<'a, 'b, 'c, 'd>(parts: Seq<ContentPart<'a, 'b, 'c, 'd>>) -> Seq<GP<Tok<'a, 'b, 'c>>>
    decreases parts,
{
    if parts.len() == 0 { Seq::empty() } else {
        gp(parts.drop_last()).push(match parts.last() {
            ContentPart::Text(t) => GP::Txt(*t.token),
            ContentPart::Element(el) => GP::El(*el.start_token, *el.end_token, gp(el.children@)),
        })
    }
}
pub proof fn lemma_gp_add<'a, 'b, 'c, 'd>(a: Seq<ContentPart<'a, 'b, 'c, 'd>>, b: Seq<ContentPart<'a, 'b, 'c, 'd>>)
    ensures gp(a + b) == gp(a) + gp(b),
    decreases b.len(),
{
    if b.len() == 0 {
        assert(a + b =~= a);
        assert(gp(a) + gp(b) =~= gp(a));
    } else {
        assert((a + b).drop_last() =~= a + b.drop_last());
        assert((a + b).last() == b.last());
        lemma_gp_add(a, b.drop_last());
        assert(gp(a + b) =~= gp(a) + gp(b));
    }
}
pub proof fn lemma_gp_one<'a, 'b, 'c, 'd>(s: Seq<ContentPart<'a, 'b, 'c, 'd>>, c: ContentPart<'a, 'b, 'c, 'd>)
    requires s.len() == 1, s[0] == c,
    ensures gp(s) == seq![match c {
        ContentPart::Text(t) => GP::Txt(*t.token),
        ContentPart::Element(el) => GP::El(*el.start_token, *el.end_token, gp(el.children@)),
    }],
{
    assert(s.drop_last() =~= Seq::<ContentPart<'a, 'b, 'c, 'd>>::empty());
    assert(s.last() == c);
    assert(gp(s.drop_last()) =~= Seq::<GP<Tok<'a, 'b, 'c>>>::empty());
    assert(gp(s) =~= seq![match c {
        ContentPart::Text(t) => GP::Txt(*t.token),
        ContentPart::Element(el) => GP::El(*el.start_token, *el.end_token, gp(el.children@)),
    }]);
}
