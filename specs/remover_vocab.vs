// ---- vocabulary over the range forest and the marker list (inside `mod remover`) ----
pub open spec fn node_lo(t: RemovalRangeTree) -> int { t.range.0.start as int }
pub open spec fn node_hi(t: RemovalRangeTree) -> int {
    match t.range.1 { Some(e) => e.end as int, None => t.range.0.end as int }
}
pub open spec fn node_ranges_ok(t: RemovalRangeTree) -> bool {
    &&& t.range.0.start <= t.range.0.end
    &&& match t.range.1 { Some(e) => t.range.0.end <= e.start && e.start <= e.end, None => true }
}
/// forest strictly inside (lo, hi): siblings ascending and disjoint, every node's children strictly inside its extent
pub open spec fn wf_forest(f: Seq<RemovalRangeTree>, lo: int, hi: int) -> bool
    decreases f,
{
    &&& forall|i: int| 0 <= i < f.len() ==> lo < node_lo(#[trigger] f[i]) && node_hi(f[i]) < hi && node_ranges_ok(f[i])
    &&& forall|i: int| 0 <= i < f.len() ==> wf_forest((#[trigger] f[i]).children@, node_lo(f[i]), node_hi(f[i]))
    &&& forall|i: int, j: int| 0 <= i < j < f.len() ==> node_hi(#[trigger] f[i]) <= node_lo(#[trigger] f[j])
}
/// byte p lies in the head or tail range of some node of the forest (any depth)
pub open spec fn forest_covered(f: Seq<RemovalRangeTree>, p: int) -> bool
    decreases f,
{
    exists|i: int| 0 <= i < f.len() && (
        rcontains_i((#[trigger] f[i]).range.0, p)
        || (f[i].range.1 matches Some(e) && rcontains_i(e, p))
        || forest_covered(f[i].children@, p))
}
pub open spec fn rcontains_i(m: Range<usize>, p: int) -> bool { m.start <= p < m.end }
/// x is the start or end of the head or tail range of some node of the forest
pub open spec fn forest_endpoint(f: Seq<RemovalRangeTree>, x: usize) -> bool
    decreases f,
{
    exists|i: int| 0 <= i < f.len() && (
        (#[trigger] f[i]).range.0.start == x || f[i].range.0.end == x
        || (f[i].range.1 matches Some(e) && (e.start == x || e.end == x))
        || forest_endpoint(f[i].children@, x))
}

pub open spec fn markers_sorted(m: Seq<RemoveMarker>) -> bool {
    &&& forall|i: int| 0 <= i < m.len() ==> (#[trigger] m[i]).0.start <= m[i].0.end
    &&& forall|i: int, j: int| 0 <= i < j < m.len() ==> (#[trigger] m[i]).0.end <= (#[trigger] m[j]).0.start
}
pub open spec fn markers_covered(m: Seq<RemoveMarker>, p: int) -> bool {
    exists|i: int| 0 <= i < m.len() && (#[trigger] m[i]).0.start <= p < m[i].0.end
}
pub open spec fn pairs_consistent(m: Seq<RemoveMarker>) -> bool {
    forall|i: int| 0 <= i < m.len() ==> ((#[trigger] m[i]).1 matches Some(j) ==> j < m.len() && j != i && m[j as int].1 == Some(i as usize))
}
/// what merge_markers promises about its result for the forest f
pub open spec fn mm_post(f: Seq<RemovalRangeTree>, out: Seq<RemoveMarker>) -> bool {
    &&& markers_sorted(out)
    &&& (f.len() == 0 <==> out.len() == 0)
    &&& forall|i: int| 0 <= i < out.len() ==> f.len() > 0 && node_lo(f[0]) <= (#[trigger] out[i]).0.start && out[i].0.end <= node_hi(f[f.len() - 1])
    &&& forall|p: int| #[trigger] markers_covered(out, p) <==> forest_covered(f, p)
    &&& forall|i: int| 0 <= i < out.len() ==> forest_endpoint(f, (#[trigger] out[i]).0.start) && forest_endpoint(f, out[i].0.end)
    &&& pairs_consistent(out)
}
