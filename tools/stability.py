#!/usr/bin/env python3
"""proof stability: verify every generated unit under N solver seeds; list any function that fails under some seed.
usage: stability.py [N] [unit ...]"""
import os, subprocess, sys, json, re
from concurrent.futures import ThreadPoolExecutor
ROOT = os.path.dirname(os.path.dirname(os.path.abspath(__file__)))
args = sys.argv[1:]
N = int(args[0]) if args and args[0].isdigit() else 6
units = [a for a in args if not a.isdigit()] or sorted(f[:-3] for f in os.listdir(ROOT + '/specs/units') if f.endswith('.vs'))
out = '/tmp/stability'
os.makedirs(out, exist_ok=True)
for u in units:
    subprocess.run(['python3', ROOT + '/bin/gen', u, '-o', f'{out}/{u}.rs'], capture_output=True)
seeds = [None] + [k * 7919 + 1 for k in range(1, N)] 
def one(job):
    u, sd = job
    cmd = ['verus', f'{out}/{u}.rs', '--rlimit', '40', '--multiple-errors', '20']
    if sd is not None:
        cmd += ['--smt-option', f'smt.random_seed={sd}']
    p = subprocess.run(cmd, capture_output=True, text=True)
    txt = p.stdout + p.stderr
    m = re.search(r'verification results:: (\d+) verified, (\d+) errors', txt)
    bad = re.findall(r'^error: (.*)\n\s+--> \S+?:(\d+)', txt, flags=re.M)
    names = []
    src = open(f'{out}/{u}.rs').read().split('\n')
    for msg, ln in bad:
        ln = int(ln)
        k = ln - 1
        while k >= 0 and not re.search(r'\bfn\s+\w+', src[k]):
            k -= 1
        names.append((re.search(r'\bfn\s+(\w+)', src[k]).group(1) if k >= 0 else '?', msg[:60]))
    return u, sd, (m.groups() if m else ('?', '?')), names
with ThreadPoolExecutor(8) as ex:
    res = list(ex.map(one, [(u, sd) for u in units for sd in seeds]))
flaky = 0
for u, sd, (v, e), names in res:
    if e != '0':
        flaky += 1
        print(f'{u} seed={sd}: {v} verified, {e} errors: {names}')
print(f'{len(res)} runs, {flaky} with errors')
