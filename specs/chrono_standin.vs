// ---- stand-in for the chrono crate (uninterpreted; chrono is a dependency and stays unverified) ----
/// stand-in for the `chrono` crate: the two types and two operations TimeLimitedEvaluator uses, with
/// UNINTERPRETED meaning (chrono itself is a dependency and stays unverified, DESIGN 6 C05)
pub mod chrono {
    use super::*;
    #[verifier::external_body]
    #[verifier::reject_recursive_types(Tz)]
    pub struct DateTime<Tz> { _p: std::marker::PhantomData<Tz> }
    pub struct Local {}
    pub struct FixedOffset {}
    #[derive(Debug)]
    pub struct ParseError {}
    /// the instant (seconds on the UTC time line) a DateTime denotes
    pub uninterp spec fn instant<Tz>(d: DateTime<Tz>) -> int;
    /// chrono's parser: Some(instant) when `s` matches `fmt`
    pub uninterp spec fn chrono_parse(s: Seq<char>, fmt: Seq<char>) -> Option<int>;
    impl DateTime<FixedOffset> {
        #[verifier::external_body]
        pub fn parse_from_str(s: &str, fmt: &str) -> (r: Result<DateTime<FixedOffset>, ParseError>)
            ensures
                r matches Ok(d) ==> chrono_parse(s@, fmt@) == Some(instant(d)),
                r is Err ==> chrono_parse(s@, fmt@) is None,
        { unimplemented!() }
    }
    /// `current < expires` of chrono (PartialOrd<DateTime<Tz2>> for DateTime<Tz>) compares instants
    impl vstd::std_specs::cmp::PartialEqSpecImpl<DateTime<FixedOffset>> for DateTime<Local> {
        open spec fn obeys_eq_spec() -> bool { true }
        open spec fn eq_spec(&self, other: &DateTime<FixedOffset>) -> bool { instant(*self) == instant(*other) }
    }
    impl PartialEq<DateTime<FixedOffset>> for DateTime<Local> {
        #[verifier::external_body]
        fn eq(&self, other: &DateTime<FixedOffset>) -> (r: bool) { unimplemented!() }
    }
    impl vstd::std_specs::cmp::PartialOrdSpecImpl<DateTime<FixedOffset>> for DateTime<Local> {
        open spec fn obeys_partial_cmp_spec() -> bool { true }
        open spec fn partial_cmp_spec(&self, other: &DateTime<FixedOffset>) -> Option<std::cmp::Ordering> {
            if instant(*self) < instant(*other) { Some(std::cmp::Ordering::Less) }
            else if instant(*self) == instant(*other) { Some(std::cmp::Ordering::Equal) }
            else { Some(std::cmp::Ordering::Greater) }
        }
    }
    impl PartialOrd<DateTime<FixedOffset>> for DateTime<Local> {
        #[verifier::external_body]
        fn partial_cmp(&self, other: &DateTime<FixedOffset>) -> (r: Option<std::cmp::Ordering>) { unimplemented!() }
    }
}

