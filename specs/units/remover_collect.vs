//@unit remover_collect
// L6 + L4 glue: is_skip, collect_removable_ranges, build_remove_marker, Remover::remove.
//@include types.vs
//@include builders_vocab.vs
//@include attrs_vocab.vs

pub mod builder {
use super::*;
use crate::parser::Element;
//@import trait_marker_builder
}
pub mod availability {
use super::*;
use crate::parser::Element;
//@import trait_marker_availability
}
pub mod factory {
use super::*;
use super::{availability::MarkerAvailability, builder::MarkerBuilder};
use crate::parser::Element;
//@item file=code/remover/marker/factory.rs kind=type name=RemoveStrategies
//@item file=code/remover/marker/factory.rs kind=type name=RemovableRange
//@include factory_vocab.vs
//@import create
}
pub mod removal_evaluator {
use super::*;
use crate::element_parser::Element;
//@import trait_removal_evaluator
}

pub mod remover {
use super::*;
use crate::element_parser::Element;
use crate::parser;
use crate::parser::ContentPart;
use crate::factory::{create, RemovableRange, RemoveStrategies, create_spec};
use crate::removal_evaluator::RemovalEvaluator;
use std::collections::HashMap;
//@item file=code/remover.rs kind=type name=RemoveMarker
//@item file=code/remover.rs kind=type name=RemovedMarker
//@item file=code/remover.rs kind=type name=RemovalEvaluators
//@item file=code/remover.rs kind=struct name=RemovalRangeTree
//@item file=code/remover.rs kind=struct name=Remover
//@include remover_vocab.vs
//@include collect_vocab.vs

//@fn id=remover_new file=code/remover.rs name=new in="impl Remover" props=C02,C03
//@ret r
//@ensures label=remover_new props=C02,C03
    r.removal_evaluators == removal_evaluators, r.remove_strategies == remove_strategies,
//@end

//@fn id=is_skip file=code/remover.rs name=is_skip props=C03,C04,C06
//@ret r
//@ensures label=is_skip_exact props=C06
    r == is_skip_spec(*el),
//@loop 1
//@invariant_except_break
    it_ok(__itA1),
    !__rA1,
    0 <= __n <= el.attrs@.len(),
    it_rem(__itA1) =~= el.attrs@.as_ref().skip(__n),
    forall|i: int| 0 <= i < __n ==> (#[trigger] el.attrs@[i]).name@ != "skip"@,
//@loop-ensures
    __rA1 == is_skip_spec(*el),
//@decreases
    IteratorSpec::decrease(&__itA1)->0
//@at before "loop {"
    let ghost mut __n: int = 0;
    proof { assert(el.attrs@.as_ref().skip(0) =~= el.attrs@.as_ref()); }
//@at loop 1 start
    let ghost __rest = it_rem(__itA1);
//@at before "let v = __xA1;"
    proof {
        assert(__rest[0] == __xA1);
        assert(*__xA1 == el.attrs@[__n]);
        assert(__rest.drop_first() =~= el.attrs@.as_ref().skip(__n + 1));
    }
//@at after "let v = __xA1;"
    proof { __n = __n + 1; }
//@end

//@fn id=collect file=code/remover.rs name=collect_removable_ranges in="impl Remover" props=C01,C02,C03,C04,C06,C17
//@ret r
//@requires
    all_el_wf(contents@),
//@ensures label=collect_is_spec props=C02,C03,C04,C06,C17
    (vf(r.0@), vf(r.1@)) == collect_spec(*self, contents@, collect_pending_removals),
//@fn-decreases
    contents@
//@fold 1 type="(Vec<RemovalRangeTree>, Vec<RemovalRangeTree>)"
//@closure 1 params="evaluator: &Box<dyn RemovalEvaluator>" ret="ret: Option<(RemovableRange, bool)>"
//@closure-requires
    el_wf(*el),
//@closure-ensures
    ret == status_after_eval(*self, *el, evaluator.spec_is_removal(el.start_element), collect_pending_removals),
//@closure 2 params="f: RemovableRange" ret="ret: (RemovableRange, bool)"
//@closure-ensures
    ret == (f, true),
//@closure 3 params="f: RemovableRange" ret="ret: (RemovableRange, bool)"
//@closure-ensures
    ret == (f, false),
//@closure 4 params="__p: (RemovableRange, bool)" ret="ret: Option<(RemovableRange, bool)>" bind=yes
//@closure-ensures
    ret == filter_empty(Some(__p)),
//@loop 1 iter=it
//@invariant
    all_el_wf(contents@),
    it.seq() == contents@.as_ref(),
    (vf(__acc1.0@), vf(__acc1.1@)) == collect_spec(*self, contents@.take(it.index@), collect_pending_removals),
//@at body-start
    broadcast use {axiom_string_key_model, axiom_map_contains_str, axiom_map_maps_str};
//@at loop 1 start
    broadcast use {axiom_string_key_model, axiom_map_contains_str, axiom_map_maps_str, axiom_into_seq_vec, axiom_range_is_empty_usize};
    let ghost __i = it.index@;
    let ghost __a0 = (vf(__acc1.0@), vf(__acc1.1@));
    proof {
        assert(contents@.take(__i + 1).drop_last() =~= contents@.take(__i));
        assert(contents@.take(__i + 1).last() == contents@[__i]);
    }
//@at before "if let Some((range, true)) = range {"
    let ghost __ch = (vf(children@), vf(pending_removal_children@));
    let ghost __t0 = removal_tree@;
    let ghost __p0 = pending_removal_tree@;
    proof {
        assert(range == elem_status(*self, *el, collect_pending_removals));
    }
//@at before "if let Some((range, true)) = range {"
    let ghost __cv = children@;
    let ghost __pv = pending_removal_children@;
//@at after "pending_removal_tree.extend(pending_removal_children);" 1
    proof {
        lemma_vf_push(__t0, removal_tree@.last());
        lemma_vt_children(removal_tree@.last());
        assert(removal_tree@ =~= __t0.push(removal_tree@.last()));
        assert(pending_removal_tree@ =~= __p0 + __pv);
        lemma_vf_add(__p0, __pv);
    }
//@at after "children: pending_removal_children, });"
    proof {
        lemma_vf_push(__p0, pending_removal_tree@.last());
        lemma_vt_children(pending_removal_tree@.last());
        assert(pending_removal_tree@ =~= __p0.push(pending_removal_tree@.last()));
        assert(removal_tree@ =~= __t0 + __cv);
        lemma_vf_add(__t0, __cv);
    }
//@at after "pending_removal_tree.extend(pending_removal_children);" 2
    proof {
        assert(removal_tree@ =~= __t0 + __cv);
        lemma_vf_add(__t0, __cv);
        assert(pending_removal_tree@ =~= __p0 + __pv);
        lemma_vf_add(__p0, __pv);
    }
//@at after-loop 1
    proof { assert(contents@.take(contents@.len() as int) =~= contents@); }
//@end

//@import merge_markers

//@fn id=build_remove_marker file=code/remover.rs name=build_remove_marker in="impl Remover" props=C01,C02,C03,C04,C15
//@ret r
//@requires
    all_el_wf(contents@),
    exists|lo: int, hi: int| wf_forest(collect_spec(*self, contents@, false).0, lo, hi),
    2 * forest_size(collect_spec(*self, contents@, false).0) < usize::MAX,
//@ensures label=build_remove_marker_post props=C02,C03,C04,C15
    mm_post(collect_spec(*self, contents@, false).0, r@),
    r@ == mm_spec(collect_spec(*self, contents@, false).0),
//@end

//@fn id=build_remove_marker_all file=code/remover.rs name=build_remove_marker_all in="impl Remover" props=C01,C17
//@ret r
//@requires
    all_el_wf(contents@),
    exists|lo: int, hi: int| wf_forest(collect_spec(*self, contents@, true).0, lo, hi),
    exists|lo: int, hi: int| wf_forest(collect_spec(*self, contents@, true).1, lo, hi),
    2 * forest_size(collect_spec(*self, contents@, true).0) < usize::MAX,
    2 * forest_size(collect_spec(*self, contents@, true).1) < usize::MAX,
//@ensures label=list_all_is_spec props=C17
    r@ == merge_all_final(mm_spec(collect_spec(*self, contents@, true).0), mm_spec(collect_spec(*self, contents@, true).1)),
//@ensures label=ready_once_in_order_pending_outside_ready props=C17
    ready_sub(r@) == mm_spec(collect_spec(*self, contents@, true).0),
    pending_sub(r@) == pend_kept(mm_spec(collect_spec(*self, contents@, true).0), mm_spec(collect_spec(*self, contents@, true).1), 0, mm_spec(collect_spec(*self, contents@, true).1).len() as int),
//@ensures label=combined_list_in_source_order_when_order_compatible props=C17
    order_compatible(mm_spec(collect_spec(*self, contents@, true).0), mm_spec(collect_spec(*self, contents@, true).1))
        ==> list_sorted_by_start(r@),
//@extendmap
//@tupleclone "v.clone()" arity=2
//@lettype merged_ranges type="Vec<(RemoveMarker, bool)>"
//@loop 1 iter=it
//@invariant
    it.seq() == __rs,
    ranges_pending@ == __ps,
    0 <= range_cursor <= __ps.len(),
    (merged_ranges@, range_cursor as int) == merge_all(__rs, __ps, it.index@),
//@loop 2
//@invariant
    ranges_pending@ == __ps,
    0 <= __c0 <= range_cursor <= __ps.len(),
    __m0 + consume_pending(range, __ps, __c0).0 == merged_ranges@ + consume_pending(range, __ps, range_cursor as int).0,
    consume_pending(range, __ps, __c0).1 == consume_pending(range, __ps, range_cursor as int).1,
//@loop-ensures
    ranges_pending@ == __ps,
    0 <= range_cursor <= __ps.len(),
    (merged_ranges@, range_cursor as int) == (__m0 + consume_pending(range, __ps, __c0).0, consume_pending(range, __ps, __c0).1),
//@decreases
    __ps.len() - range_cursor
//@loop 3 iter=it3
//@invariant
    ranges_pending@ == __ps,
    0 <= range_cursor < __ps.len(),
    it3.seq() == __ps.subrange(range_cursor as int, __ps.len() as int).as_ref(),
    merged_ranges@ == __m1 + pending_tail(__ps, range_cursor as int).take(it3.index@),
//@at body-start
    hide(collect_spec); hide(mm_spec); hide(wf_forest); hide(forest_size); hide(all_el_wf); hide(mm_post);
//@at before "let mut merged_ranges"
    let ghost __rs = ranges@;
    let ghost __ps = ranges_pending@;
    proof {
        // C17: both marker lists are sorted and disjoint, so the interleaving lists every ready marker once
        // and exactly the pending markers outside every ready marker
        let f0 = collect_spec(*self, contents@, true).0;
        let f1 = collect_spec(*self, contents@, true).1;
        let (lo0, hi0) = choose|lo: int, hi: int| wf_forest(f0, lo, hi);
        let (lo1, hi1) = choose|lo: int, hi: int| wf_forest(f1, lo, hi);
        lemma_mm_core(f0, lo0, hi0);
        lemma_mm_core(f1, lo1, hi1);
        assert(markers_sorted_by_start(mm_spec(f1)));
        lemma_merge_all_final_sub(mm_spec(f0), mm_spec(f1));
        if order_compatible(mm_spec(f0), mm_spec(f1)) { lemma_merge_all_final_sorted(mm_spec(f0), mm_spec(f1)); }
    }
//@at loop 1 start
    let ghost __m0 = merged_ranges@;
    let ghost __c0 = range_cursor as int;
    proof { lemma_consume_pending_bounds(range, __ps, __c0); }
//@at loop 2 start
    let ghost __mm = merged_ranges@;
    let ghost __cc = range_cursor as int;
//@at loop 2 end
    proof {
        let cp = consume_pending(range, __ps, __cc);
        let rest = consume_pending(range, __ps, __cc + 1);
        assert(merged_ranges@ + rest.0 =~= __mm + cp.0);
    }
//@at after-loop 2
    proof {
        assert(consume_pending(range, __ps, range_cursor as int).0 =~= Seq::<(RemoveMarker, bool)>::empty());
        assert(merged_ranges@ =~= __m0 + consume_pending(range, __ps, __c0).0);
    }
//@at loop 1 end
    proof {
        let n = it.index@;
        assert(__rs[n] == (range, idx));
    }
//@at before "if range_cursor < ranges_pending.len() {"
    let ghost __m1 = merged_ranges@;
    proof { assert(pending_tail(__ps, range_cursor as int).take(0) =~= Seq::<(RemoveMarker, bool)>::empty()); }
//@at loop 3 end
    proof {
        let pt = pending_tail(__ps, range_cursor as int);
        assert(pt.take(it3.index@ + 1) =~= pt.take(it3.index@).push(pt[it3.index@]));
    }
//@at after-loop 3
    proof {
        let pt = pending_tail(__ps, range_cursor as int);
        assert(pt.take(pt.len() as int) =~= pt);
    }
//@end

//@fn id=remove file=code/remover.rs name=remove in="impl Remover" props=C01,C02,C03,C04
//@ret r
//@requires
    all_el_wf(content@),
    exists|lo: int, hi: int| wf_forest(collect_spec(*self, content@, false).0, lo, hi),
    2 * forest_size(collect_spec(*self, content@, false).0) < usize::MAX,
    forall|x: usize| #[trigger] forest_endpoint(collect_spec(*self, content@, false).0, x) ==> x <= raw.spec_bytes().len() && cb(raw.spec_bytes(), x as int),
//@ensures label=remove_deletes_markers props=C01,C02,C03
    mm_post(collect_spec(*self, content@, false).0, r.1@),
    r.1@ == mm_spec(collect_spec(*self, content@, false).0),
    wf_ranges(marker_ranges(r.1@), raw.spec_bytes()),
    encode_utf8(r.0@) == del_from(raw.spec_bytes(), marker_ranges(r.1@), 0),
//@ensures label=remove_identity props=C04
    r.1@.len() == 0 ==> r.0@ == raw@,
//@loop 1 iter=it
//@invariant
    wf_ranges(marker_ranges(markers@), raw.spec_bytes()),
    it.seq() == markers@.as_ref().reverse(),
    encode_utf8(new_content@) == del_from(raw.spec_bytes(), marker_ranges(markers@), markers@.len() - it.index@),
    markers@.len() == 0 ==> new_content@ == raw@,
//@at body-start
    hide(collect_spec); hide(forest_endpoint); hide(forest_covered); hide(wf_forest); hide(all_el_wf); hide(mm_spec); hide(forest_size);
//@at before "let mut new_content"
    proof {
        let b = raw.spec_bytes();
        let m = marker_ranges(markers@);
        assert forall|i: int| 0 <= i < m.len() implies (#[trigger] m[i]).start <= m[i].end <= b.len()
            && is_char_boundary(b, m[i].start as int) && is_char_boundary(b, m[i].end as int) by {
            assert(m[i] == markers@[i].0);
        }
        assert forall|i: int, j: int| 0 <= i < j < m.len() implies (#[trigger] m[i]).end <= (#[trigger] m[j]).start by {
            assert(m[i] == markers@[i].0 && m[j] == markers@[j].0);
        }
        lemma_bytes_valid(raw);
        lemma_del(b, m, m.len() as int);
    }
//@at loop 1 start
    broadcast use {axiom_rb_range_start, axiom_rb_range_end};
    let ghost __k = markers@.len() - 1 - it.index@;
    let ghost __before = encode_utf8(new_content@);
    proof {
        lemma_bytes_valid(raw);
        lemma_del(raw.spec_bytes(), marker_ranges(markers@), __k + 1);
        assert(marker_ranges(markers@)[__k] == markers@[__k].0);
    }
//@at loop 1 end
    proof {
        reveal_strlit("");
        assert("".spec_bytes() =~= Seq::<u8>::empty());
        let w = marker_ranges(markers@);
        assert(encode_utf8(new_content@) =~= __before.subrange(0, w[__k].start as int) + __before.subrange(w[__k].end as int, __before.len() as int));
    }
//@end

} // mod remover
