// ---- the tokenizer as a pure function (C07/C08): automaton, scanning fold, flush, merge ----
/// ghost view of the automaton state: a partial delimiter match is the sequence of characters still expected
pub enum GState { Text, DelimiterStart(Seq<char>), InDelimiter, DelimiterEnd(Seq<char>) }

pub open spec fn check_start_spec(c: char, ds: Seq<char>) -> GState {
    if c == ds[0] { GState::DelimiterStart(ds.skip(1)) } else { GState::Text }
}
/// the transition function: (Some(is_element) when a token boundary is emitted BEFORE c, next state)
pub open spec fn get_state_spec(c: char, ds: Seq<char>, de: Seq<char>, g: GState) -> (Option<bool>, GState) {
    match g {
        GState::Text => match check_start_spec(c, ds) {
            GState::DelimiterStart(r) => (Some(false), GState::DelimiterStart(r)),
            _ => (None, GState::Text),
        },
        GState::DelimiterStart(r) => if r.len() > 0 {
            if c == r[0] { (None, GState::DelimiterStart(r.skip(1))) } else { (None, GState::Text) }
        } else { (None, GState::InDelimiter) },
        GState::InDelimiter => if c == de[0] { (None, GState::DelimiterEnd(de.skip(1))) } else { (None, GState::InDelimiter) },
        GState::DelimiterEnd(r) => if r.len() > 0 {
            if c == r[0] { (None, GState::DelimiterEnd(r.skip(1))) } else { (None, GState::InDelimiter) }
        } else { (Some(true), check_start_spec(c, ds)) },
    }
}
/// state of the scanning fold after the first n characters: (tokens, automaton state, byte_start, start)
pub open spec fn scan(cs: Seq<char>, ds: Seq<char>, de: Seq<char>, n: int) -> (Seq<GTok>, GState, int, int)
    decreases n,
{
    if n <= 0 { (Seq::empty(), GState::Text, 0, 0) } else {
        let p = scan(cs, ds, de, n - 1);
        let bp = char_byte_pos(cs, n - 1);
        let st = get_state_spec(cs[n - 1], ds, de, p.1);
        match st.0 {
            Some(is_el) => (
                if bp - p.2 > 0 { p.0.push(GTok { is_element: is_el, start: p.3, byte_start: p.2, end: n - 1, byte_end: bp }) } else { p.0 },
                st.1, bp, n - 1),
            None => (p.0, st.1, p.2, p.3),
        }
    }
}
/// tokens after the final flush
pub open spec fn flushed(cs: Seq<char>, ds: Seq<char>, de: Seq<char>) -> Seq<GTok> {
    let p = scan(cs, ds, de, cs.len() as int);
    if cs.len() == 0 { p.0 } else {
        let k = get_state_spec(' ', ds, de, p.1).0;
        p.0.push(GTok { is_element: k == Some(true), start: p.3, byte_start: p.2, end: cs.len() as int, byte_end: encode_utf8(cs).len() as int })
    }
}
/// adjacent text tokens merged (the last fold)
pub open spec fn merged(ts: Seq<GTok>, n: int) -> Seq<GTok>
    decreases n,
{
    if n <= 0 { Seq::empty() } else {
        let acc = merged(ts, n - 1);
        let cur = ts[n - 1];
        if acc.len() > 0 && !acc.last().is_element && !cur.is_element {
            acc.drop_last().push(GTok { end: cur.end, byte_end: cur.byte_end, ..acc.last() })
        } else { acc.push(cur) }
    }
}
pub open spec fn tokenize_spec(cs: Seq<char>, ds: Seq<char>, de: Seq<char>) -> Seq<GTok> {
    merged(flushed(cs, ds, de), flushed(cs, ds, de).len() as int)
}


// ---- C07/C08, clause "every tag token begins with the start delimiter, has at least one body character and ends
//      with the end delimiter": a consequence of tokenize_spec ----
pub open spec fn tag_span(cs: Seq<char>, ds: Seq<char>, de: Seq<char>, s: int, e: int) -> bool {
    &&& 0 <= s && s + ds.len() + 1 + de.len() <= e <= cs.len()
    &&& cs.subrange(s, s + ds.len()) == ds
    &&& cs.subrange(e - de.len(), e) == de
}
pub open spec fn toks_tagged(ts: Seq<GTok>, cs: Seq<char>, ds: Seq<char>, de: Seq<char>) -> bool {
    forall|i: int| 0 <= i < ts.len() ==> ((#[trigger] ts[i]).is_element ==> tag_span(cs, ds, de, ts[i].start, ts[i].end))
}
/// what the automaton state says about the span [st, n) still open after n characters
pub open spec fn state_inv(cs: Seq<char>, ds: Seq<char>, de: Seq<char>, n: int, g: GState, st: int) -> bool {
    &&& 0 <= st <= n <= cs.len()
    &&& match g {
        GState::Text => true,
        GState::DelimiterStart(r) => 1 <= n - st <= ds.len() && r == ds.skip(n - st) && cs.subrange(st, n) == ds.take(n - st),
        GState::InDelimiter => st + ds.len() + 1 <= n && cs.subrange(st, st + ds.len()) == ds,
        GState::DelimiterEnd(r) => exists|k: int| #![trigger de.skip(k)] 1 <= k <= de.len() && r == de.skip(k) && cs.subrange(n - k, n) == de.take(k)
            && st + ds.len() + 1 <= n - k && cs.subrange(st, st + ds.len()) == ds,
    }
}
pub proof fn lemma_scan_tagged(cs: Seq<char>, ds: Seq<char>, de: Seq<char>, n: int)
    requires 0 <= n <= cs.len(), ds.len() > 0, de.len() > 0,
    ensures toks_tagged(scan(cs, ds, de, n).0, cs, ds, de), state_inv(cs, ds, de, n, scan(cs, ds, de, n).1, scan(cs, ds, de, n).3),
    decreases n,
{
    if n > 0 {
        lemma_scan_tagged(cs, ds, de, n - 1);
        let p = scan(cs, ds, de, n - 1);
        let c = cs[n - 1];
        let st = get_state_spec(c, ds, de, p.1);
        let q = scan(cs, ds, de, n);
        let s0 = p.3;
        // the state invariant after consuming c
        match p.1 {
            GState::Text => {
                if c == ds[0] {
                    assert(ds.skip(1) =~= ds.skip(n - (n - 1)));
                    assert(cs.subrange(n - 1, n) =~= ds.take(1));
                }
            },
            GState::DelimiterStart(r) => {
                let k = n - 1 - s0;
                if r.len() > 0 {
                    assert(r[0] == ds[k]);
                    if c == r[0] {
                        assert(r.skip(1) =~= ds.skip(k + 1));
                        assert(cs.subrange(s0, n) =~= ds.take(k + 1));
                    }
                } else {
                    assert(k == ds.len());
                    assert(ds.take(k) =~= ds);
                }
            },
            GState::InDelimiter => {
                if c == de[0] {
                    assert(cs.subrange(n - 1, n) =~= de.take(1));
                    assert(state_inv(cs, ds, de, n, GState::DelimiterEnd(de.skip(1)), s0));
                }
            },
            GState::DelimiterEnd(r) => {
                let k = choose|k: int| #![trigger de.skip(k)] 1 <= k <= de.len() && r == de.skip(k) && cs.subrange(n - 1 - k, n - 1) == de.take(k)
                    && s0 + ds.len() + 1 <= n - 1 - k && cs.subrange(s0, s0 + ds.len()) == ds;
                if r.len() > 0 {
                    assert(r[0] == de[k]);
                    if c == r[0] {
                        assert(r.skip(1) =~= de.skip(k + 1));
                        assert(cs.subrange(n - 1 - k, n) =~= de.take(k + 1));
                        assert(state_inv(cs, ds, de, n, GState::DelimiterEnd(de.skip(k + 1)), s0));
                    }
                } else {
                    // the tag [s0, n-1) is complete
                    assert(k == de.len());
                    assert(de.take(k) =~= de);
                    assert(tag_span(cs, ds, de, s0, n - 1));
                    if c == ds[0] {
                        assert(ds.skip(1) =~= ds.skip(n - (n - 1)));
                        assert(cs.subrange(n - 1, n) =~= ds.take(1));
                    }
                }
            },
        }
        assert(state_inv(cs, ds, de, n, q.1, q.3));
        assert forall|i: int| 0 <= i < q.0.len() implies ((#[trigger] q.0[i]).is_element ==> tag_span(cs, ds, de, q.0[i].start, q.0[i].end)) by {
            if i < p.0.len() { assert(q.0[i] == p.0[i]); }
        }
    }
}
pub proof fn lemma_merged_tagged(ts: Seq<GTok>, n: int, cs: Seq<char>, ds: Seq<char>, de: Seq<char>)
    requires 0 <= n <= ts.len(), toks_tagged(ts, cs, ds, de),
    ensures toks_tagged(merged(ts, n), cs, ds, de),
    decreases n,
{
    if n > 0 {
        lemma_merged_tagged(ts, n - 1, cs, ds, de);
        let acc = merged(ts, n - 1);
        let cur = ts[n - 1];
        let r = merged(ts, n);
        assert forall|i: int| 0 <= i < r.len() implies ((#[trigger] r[i]).is_element ==> tag_span(cs, ds, de, r[i].start, r[i].end)) by {
            if acc.len() > 0 && !acc.last().is_element && !cur.is_element {
                if i < acc.len() - 1 { assert(r[i] == acc[i]); }
            } else {
                if i < acc.len() { assert(r[i] == acc[i]); }
            }
        }
    }
}
/// C07 (tag delimiters) and C08 (at least one body character) for the tokenizer as a function
pub proof fn lemma_tokenize_tagged(cs: Seq<char>, ds: Seq<char>, de: Seq<char>)
    requires ds.len() > 0, de.len() > 0,
    ensures toks_tagged(tokenize_spec(cs, ds, de), cs, ds, de),
{
    let n = cs.len() as int;
    lemma_scan_tagged(cs, ds, de, n);
    let p = scan(cs, ds, de, n);
    let f = flushed(cs, ds, de);
    assert(toks_tagged(f, cs, ds, de)) by {
        if cs.len() > 0 {
            let k = get_state_spec(' ', ds, de, p.1).0;
            if k == Some(true) {
                // only a completed end delimiter flushes as a tag
                assert(p.1 is DelimiterEnd);
                let r = p.1->DelimiterEnd_0;
                assert(r.len() == 0);
                let kk = choose|kk: int| #![trigger de.skip(kk)] 1 <= kk <= de.len() && r == de.skip(kk) && cs.subrange(n - kk, n) == de.take(kk)
                    && p.3 + ds.len() + 1 <= n - kk && cs.subrange(p.3, p.3 + ds.len()) == ds;
                assert(kk == de.len());
                assert(de.take(kk) =~= de);
                assert(tag_span(cs, ds, de, p.3, n));
            }
            assert forall|i: int| 0 <= i < f.len() implies ((#[trigger] f[i]).is_element ==> tag_span(cs, ds, de, f[i].start, f[i].end)) by {
                if i < p.0.len() { assert(f[i] == p.0[i]); }
            }
        }
    }
    lemma_merged_tagged(f, f.len() as int, cs, ds, de);
}
