// ---- vocabulary over the range forest and the marker list (inside `mod remover`) ----
/// ghost mirror of RemovalRangeTree (Seq instead of Vec)
pub struct GTree { pub range: RemovableRange, pub children: Seq<GTree> }
pub open spec fn vt(t: RemovalRangeTree) -> GTree
    decreases t,
{
    GTree { range: t.range, children: Seq::new(t.children@.len(), |i: int| if 0 <= i < t.children@.len() { vt(t.children@[i]) } else { arbitrary() }) }
}
pub open spec fn vf(f: Seq<RemovalRangeTree>) -> Seq<GTree> { Seq::new(f.len(), |i: int| vt(f[i])) }
pub proof fn lemma_vf_push(f: Seq<RemovalRangeTree>, t: RemovalRangeTree)
    ensures vf(f.push(t)) == vf(f).push(vt(t)),
{ assert(vf(f.push(t)) =~= vf(f).push(vt(t))); }
pub proof fn lemma_vf_add(f: Seq<RemovalRangeTree>, g: Seq<RemovalRangeTree>)
    ensures vf(f + g) == vf(f) + vf(g),
{ assert(vf(f + g) =~= vf(f) + vf(g)); }
pub proof fn lemma_vt_children(t: RemovalRangeTree)
    ensures vt(t).children == vf(t.children@), vt(t).range == t.range,
{ assert(vt(t).children =~= vf(t.children@)); }

pub open spec fn node_lo(t: GTree) -> int { t.range.0.start as int }
pub open spec fn node_hi(t: GTree) -> int {
    match t.range.1 { Some(e) => e.end as int, None => t.range.0.end as int }
}
pub open spec fn node_ranges_ok(t: GTree) -> bool {
    &&& t.range.0.start < t.range.0.end
    &&& match t.range.1 { Some(e) => t.range.0.end <= e.start && e.start <= e.end, None => true }
}
/// forest strictly inside (lo, hi): siblings ascending and disjoint, every node's children strictly inside its extent
pub open spec fn wf_forest(f: Seq<GTree>, lo: int, hi: int) -> bool
    decreases f,
{
    &&& forall|i: int| 0 <= i < f.len() ==> lo < node_lo(#[trigger] f[i]) && node_hi(f[i]) < hi && node_ranges_ok(f[i])
    &&& forall|i: int| 0 <= i < f.len() ==> wf_forest((#[trigger] f[i]).children, node_lo(f[i]), node_hi(f[i]))
    &&& forall|i: int, j: int| 0 <= i < j < f.len() ==> node_hi(#[trigger] f[i]) <= node_lo(#[trigger] f[j])
}
pub open spec fn rcontains_i(m: Range<usize>, p: int) -> bool { m.start <= p < m.end }
pub open spec fn node_self_covered(t: GTree, p: int) -> bool {
    rcontains_i(t.range.0, p) || (t.range.1 matches Some(e) && rcontains_i(e, p))
}
/// byte p lies in the head or tail range of some node of the forest (any depth)
pub open spec fn forest_covered(f: Seq<GTree>, p: int) -> bool
    decreases f,
{
    exists|i: int| 0 <= i < f.len() && (node_self_covered(#[trigger] f[i], p) || forest_covered(f[i].children, p))
}
pub open spec fn node_self_endpoint(t: GTree, x: usize) -> bool {
    t.range.0.start == x || t.range.0.end == x || (t.range.1 matches Some(e) && (e.start == x || e.end == x))
}
/// x is the start or end of the head or tail range of some node of the forest
pub open spec fn forest_endpoint(f: Seq<GTree>, x: usize) -> bool
    decreases f,
{
    exists|i: int| 0 <= i < f.len() && (node_self_endpoint(#[trigger] f[i], x) || forest_endpoint(f[i].children, x))
}

pub open spec fn markers_sorted(m: Seq<RemoveMarker>) -> bool {
    &&& forall|i: int| 0 <= i < m.len() ==> (#[trigger] m[i]).0.start <= m[i].0.end
    &&& forall|i: int, j: int| 0 <= i < j < m.len() ==> (#[trigger] m[i]).0.end <= (#[trigger] m[j]).0.start
}
pub open spec fn markers_covered(m: Seq<RemoveMarker>, p: int) -> bool {
    exists|i: int| 0 <= i < m.len() && (#[trigger] m[i]).0.start <= p < m[i].0.end
}
pub open spec fn pairs_consistent(m: Seq<RemoveMarker>) -> bool {
    forall|i: int| 0 <= i < m.len() ==> ((#[trigger] m[i]).1 matches Some(j) ==> j < m.len() && j != i && m[j as int].1 == Some(i as usize))
}
/// what merge_markers promises about its result for the forest f
pub open spec fn mm_post(f: Seq<GTree>, out: Seq<RemoveMarker>) -> bool {
    &&& markers_sorted(out)
    &&& (f.len() == 0 <==> out.len() == 0)
    &&& forall|i: int| 0 <= i < out.len() ==> f.len() > 0 && node_lo(f[0]) <= (#[trigger] out[i]).0.start && out[i].0.end <= node_hi(f[f.len() - 1])
    &&& forall|p: int| #[trigger] markers_covered(out, p) <==> forest_covered(f, p)
    &&& forall|i: int| 0 <= i < out.len() ==> forest_endpoint(f, (#[trigger] out[i]).0.start) && forest_endpoint(f, out[i].0.end)
    &&& pairs_consistent(out)
}

// ---- merge_markers as a spec function (mirrors the fold; built on mcm) ----
pub open spec fn rebased(cm: Seq<RemoveMarker>, sc: int, ec: int, cur: int) -> Seq<RemoveMarker> {
    Seq::new((ec - sc) as nat, |k: int| (cm[sc + k].0, match cm[sc + k].1 {
        Some(p) => if sc <= p < ec { Some((p - sc + cur + 1) as usize) } else { None },
        None => None,
    }))
}
/// the markers produced for one tree, given the merged markers `cm` of its children; `cur` = index of the first one
pub open spec fn tree_markers(t: GTree, cm: Seq<RemoveMarker>, cur: int) -> Seq<RemoveMarker> {
    let cr = marker_ranges(cm);
    let a = mcm(cr, t.range.0);
    match t.range.1 {
        Some(tail) => {
            let b = mcm(cr.reverse(), tail);
            let ec = cm.len() - b.0;
            if a.0 > ec {
                seq![(Range { start: a.1.start, end: b.1.end }, None::<usize>)]
            } else {
                seq![(a.1, Some((cur + (ec - a.0) + 1) as usize))] + rebased(cm, a.0, ec, cur) + seq![(b.1, Some(cur as usize))]
            }
        },
        None => seq![(a.1, None::<usize>)],
    }
}
pub open spec fn mm_spec(f: Seq<GTree>) -> Seq<RemoveMarker>
    decreases f,
{
    if f.len() == 0 { Seq::empty() } else {
        let prev = mm_spec(f.drop_last());
        prev + tree_markers(f.last(), mm_spec(f.last().children), prev.len() as int)
    }
}
/// number of nodes of the forest
pub open spec fn forest_size(f: Seq<GTree>) -> nat
    decreases f,
{
    if f.len() == 0 { 0 } else { forest_size(f.drop_last()) + 1 + forest_size(f.last().children) }
}
pub proof fn lemma_mcm_bounds(s: Seq<Range<usize>>, m: Range<usize>)
    ensures 0 <= mcm(s, m).0 <= s.len(),
    decreases s.len(),
{
    if s.len() > 0 && touches(m, s[0]) { lemma_mcm_bounds(s.drop_first(), hull(m, s[0])); }
}
pub proof fn lemma_mm_len(f: Seq<GTree>)
    ensures mm_spec(f).len() <= 2 * forest_size(f), f.len() > 0 ==> mm_spec(f).len() > 0,
    decreases f,
{
    if f.len() > 0 {
        lemma_mm_len(f.drop_last());
        lemma_mm_len(f.last().children);
        let cm = mm_spec(f.last().children);
        lemma_mcm_bounds(marker_ranges(cm), f.last().range.0);
        if f.last().range.1 is Some { lemma_mcm_bounds(marker_ranges(cm).reverse(), f.last().range.1->0); }
    }
}

// ---- lemmas: mm_spec has the promised properties (sortedness, extent, coverage) ----
pub open spec fn svalid(s: Seq<Range<usize>>) -> bool { forall|i: int| 0 <= i < s.len() ==> (#[trigger] s[i]).start <= s[i].end }
pub open spec fn cov_prefix(s: Seq<Range<usize>>, c: int, p: int) -> bool { exists|i: int| 0 <= i < c && i < s.len() && rcontains_i(#[trigger] s[i], p) }
pub proof fn lemma_mcm(s: Seq<Range<usize>>, m: Range<usize>)
    requires m.start <= m.end, svalid(s),
    ensures ({
        let r = mcm(s, m);
        &&& 0 <= r.0 <= s.len()
        &&& r.1.start <= m.start && m.end <= r.1.end
        &&& forall|p: int| rcontains_i(r.1, p) <==> (rcontains_i(m, p) || cov_prefix(s, r.0, p))
        &&& r.0 < s.len() ==> !touches(r.1, s[r.0])
        &&& (r.1.start == m.start || exists|i: int| 0 <= i < r.0 && (#[trigger] s[i]).start == r.1.start)
        &&& (r.1.end == m.end || exists|i: int| 0 <= i < r.0 && (#[trigger] s[i]).end == r.1.end)
        &&& forall|i: int| 0 <= i < r.0 ==> r.1.start <= (#[trigger] s[i]).start && s[i].end <= r.1.end
    }),
    decreases s.len(),
{
    if s.len() > 0 && touches(m, s[0]) {
        let t = s.drop_first();
        let h = hull(m, s[0]);
        assert(s[0].start <= s[0].end);
        assert(svalid(t)) by { assert forall|i: int| 0 <= i < t.len() implies (#[trigger] t[i]).start <= t[i].end by { assert(t[i] == s[i + 1]); } }
        lemma_mcm(t, h);
        let r = mcm(t, h);
        let c = r.0 + 1;
        assert forall|p: int| rcontains_i(r.1, p) <==> (rcontains_i(m, p) || cov_prefix(s, c, p)) by {
            if rcontains_i(r.1, p) {
                if rcontains_i(h, p) {
                    if !rcontains_i(m, p) { assert(rcontains_i(s[0], p)); }
                } else {
                    let i = choose|i: int| 0 <= i < r.0 && i < t.len() && rcontains_i(#[trigger] t[i], p);
                    assert(rcontains_i(s[i + 1], p));
                }
            }
            if rcontains_i(m, p) { assert(rcontains_i(h, p)); }
            if cov_prefix(s, c, p) {
                let i = choose|i: int| 0 <= i < c && i < s.len() && rcontains_i(#[trigger] s[i], p);
                if i == 0 { assert(rcontains_i(h, p)); } else { assert(rcontains_i(t[i - 1], p)); assert(cov_prefix(t, r.0, p)); }
            }
        }
        if r.0 < t.len() { assert(t[r.0] == s[c]); }
        if r.1.start != m.start {
            if r.1.start == h.start { assert(s[0].start == r.1.start); }
            else { let i = choose|i: int| 0 <= i < r.0 && (#[trigger] t[i]).start == r.1.start; assert(s[i + 1].start == r.1.start); }
        }
        assert forall|i: int| 0 <= i < c implies r.1.start <= (#[trigger] s[i]).start && s[i].end <= r.1.end by {
            if i > 0 { assert(t[i - 1] == s[i]); }
        }
        if r.1.end != m.end {
            if r.1.end == h.end { assert(s[0].end == r.1.end); }
            else { let i = choose|i: int| 0 <= i < r.0 && (#[trigger] t[i]).end == r.1.end; assert(s[i + 1].end == r.1.end); }
        }
    } else {
        assert forall|p: int| rcontains_i(m, p) <==> (rcontains_i(m, p) || cov_prefix(s, 0, p)) by {}
    }
}
pub open spec fn markers_inside(m: Seq<RemoveMarker>, lo: int, hi: int) -> bool {
    forall|i: int| 0 <= i < m.len() ==> lo < (#[trigger] m[i]).0.start && m[i].0.end < hi
}
pub proof fn lemma_mcm_all(s: Seq<Range<usize>>, m: Range<usize>)
    requires svalid(s), forall|i: int| 0 <= i < s.len() ==> m.start <= (#[trigger] s[i]).start < m.end && s[i].end <= m.end,
    ensures mcm(s, m) == (s.len() as int, m),
    decreases s.len(),
{
    if s.len() > 0 {
        assert(m.start <= s[0].start < m.end);
        assert(hull(m, s[0]) == m);
        let t = s.drop_first();
        assert forall|i: int| 0 <= i < t.len() implies m.start <= (#[trigger] t[i]).start < m.end && t[i].end <= m.end by { assert(t[i] == s[i + 1]); }
        assert(svalid(t)) by { assert forall|i: int| 0 <= i < t.len() implies (#[trigger] t[i]).start <= t[i].end by { assert(t[i] == s[i + 1]); } }
        lemma_mcm_all(t, m);
    }
}
pub proof fn lemma_tree_nopair(h: Range<usize>, cm: Seq<RemoveMarker>)
    requires h.start < h.end, markers_sorted(cm), markers_inside(cm, h.start as int, h.end as int),
    ensures ({
        let a = mcm(marker_ranges(cm), h);
        &&& a.1 == h
        &&& forall|p: int| rcontains_i(h, p) <==> (rcontains_i(h, p) || markers_covered(cm, p))
    }),
{
    let cr = marker_ranges(cm);
    assert(svalid(cr)) by { assert forall|i: int| 0 <= i < cr.len() implies (#[trigger] cr[i]).start <= cr[i].end by { assert(cr[i] == cm[i].0); } }
    assert forall|i: int| 0 <= i < cr.len() implies h.start <= (#[trigger] cr[i]).start < h.end && cr[i].end <= h.end by { assert(cr[i] == cm[i].0); }
    lemma_mcm_all(cr, h);
    assert forall|p: int| markers_covered(cm, p) implies rcontains_i(h, p) by {
        let i = choose|i: int| 0 <= i < cm.len() && (#[trigger] cm[i]).0.start <= p < cm[i].0.end;
    }
}
pub open spec fn pair_out(h: Range<usize>, t: Range<usize>, cm: Seq<RemoveMarker>, cur: int) -> Seq<RemoveMarker> {
    let cr = marker_ranges(cm);
    let a = mcm(cr, h);
    let b = mcm(cr.reverse(), t);
    let ec = cm.len() - b.0;
    if a.0 > ec {
        seq![(Range { start: a.1.start, end: b.1.end }, None::<usize>)]
    } else {
        seq![(a.1, Some((cur + (ec - a.0) + 1) as usize))] + rebased(cm, a.0, ec, cur) + seq![(b.1, Some(cur as usize))]
    }
}
pub open spec fn pair_facts(h: Range<usize>, t: Range<usize>, cr: Seq<Range<usize>>, sc: int, hp: Range<usize>, bc: int, tp: Range<usize>) -> bool {
    let n = cr.len() as int;
    let ec = n - bc;
    &&& 0 <= sc <= n && 0 <= bc <= n
    &&& hp.start == h.start && h.end <= hp.end && tp.end == t.end && tp.start <= t.start
    &&& forall|p: int| #[trigger] rcontains_i(hp, p) <==> (rcontains_i(h, p) || exists|q: int| 0 <= q < sc && rcontains_i(#[trigger] cr[q], p))
    &&& forall|p: int| #[trigger] rcontains_i(tp, p) <==> (rcontains_i(t, p) || exists|j: int| ec <= j < n && rcontains_i(#[trigger] cr[j], p))
    &&& forall|i: int| 0 <= i < sc ==> (#[trigger] cr[i]).end <= hp.end
    &&& forall|j: int| ec <= j < n ==> tp.start <= (#[trigger] cr[j]).start
    &&& (sc <= ec ==> hp.end <= tp.start)
    &&& (sc <= ec && sc < n ==> hp.end <= cr[sc].start)
    &&& (sc <= ec && ec > 0 ==> cr[ec - 1].end <= tp.start)
    &&& (sc > ec ==> tp.start <= hp.end)
    &&& (hp.end == h.end || exists|i: int| 0 <= i < sc && (#[trigger] cr[i]).end == hp.end)
    &&& (tp.start == t.start || exists|j: int| ec <= j < n && (#[trigger] cr[j]).start == tp.start)
}
pub open spec fn children_ok(h: Range<usize>, t: Range<usize>, cr: Seq<Range<usize>>) -> bool {
    &&& forall|i: int| 0 <= i < cr.len() ==> h.start < (#[trigger] cr[i]).start && cr[i].start <= cr[i].end && cr[i].end < t.end
    &&& forall|i: int, j: int| 0 <= i < j < cr.len() ==> (#[trigger] cr[i]).end <= (#[trigger] cr[j]).start
}
pub proof fn lemma_pair_facts(h: Range<usize>, t: Range<usize>, cr: Seq<Range<usize>>)
    requires h.start < h.end <= t.start <= t.end, children_ok(h, t, cr),
    ensures pair_facts(h, t, cr, mcm(cr, h).0, mcm(cr, h).1, mcm(cr.reverse(), t).0, mcm(cr.reverse(), t).1),
{
    let rv = cr.reverse();
    let n = cr.len() as int;
    assert(svalid(cr));
    assert(svalid(rv)) by { assert forall|i: int| 0 <= i < rv.len() implies (#[trigger] rv[i]).start <= rv[i].end by { assert(rv[i] == cr[n - 1 - i]); } }
    lemma_mcm(cr, h);
    lemma_mcm(rv, t);
    let a = mcm(cr, h);
    let b = mcm(rv, t);
    let sc = a.0; let hp = a.1; let bc = b.0; let tp = b.1; let ec = n - bc;
    assert(hp.start == h.start) by {
        if hp.start != h.start { let i = choose|i: int| 0 <= i < sc && (#[trigger] cr[i]).start == hp.start; assert(h.start < cr[i].start); }
    }
    assert(tp.end == t.end) by {
        if tp.end != t.end { let i = choose|i: int| 0 <= i < bc && (#[trigger] rv[i]).end == tp.end; assert(rv[i] == cr[n - 1 - i]); assert(cr[n - 1 - i].end < t.end); }
    }
    assert forall|p: int| #[trigger] rcontains_i(hp, p) <==> (rcontains_i(h, p) || exists|q: int| 0 <= q < sc && rcontains_i(#[trigger] cr[q], p)) by {
        if cov_prefix(cr, sc, p) { let q = choose|q: int| 0 <= q < sc && q < cr.len() && rcontains_i(#[trigger] cr[q], p); assert(0 <= q < sc && rcontains_i(cr[q], p)); }
        if exists|q: int| 0 <= q < sc && rcontains_i(#[trigger] cr[q], p) { let q = choose|q: int| 0 <= q < sc && rcontains_i(#[trigger] cr[q], p); assert(cov_prefix(cr, sc, p)); }
    }
    assert forall|p: int| #[trigger] rcontains_i(tp, p) <==> (rcontains_i(t, p) || exists|j: int| ec <= j < n && rcontains_i(#[trigger] cr[j], p)) by {
        if cov_prefix(rv, bc, p) {
            let i = choose|i: int| 0 <= i < bc && i < rv.len() && rcontains_i(#[trigger] rv[i], p);
            assert(rv[i] == cr[n - 1 - i]);
            assert(ec <= n - 1 - i < n && rcontains_i(cr[n - 1 - i], p));
        }
        if exists|j: int| ec <= j < n && rcontains_i(#[trigger] cr[j], p) {
            let j = choose|j: int| ec <= j < n && rcontains_i(#[trigger] cr[j], p);
            assert(rv[n - 1 - j] == cr[j]);
            assert(0 <= n - 1 - j < bc && n - 1 - j < rv.len() && rcontains_i(rv[n - 1 - j], p));
            assert(cov_prefix(rv, bc, p));
        }
    }
    assert forall|j: int| ec <= j < n implies tp.start <= (#[trigger] cr[j]).start by {
        assert(rv[n - 1 - j] == cr[j]);
        assert(tp.start <= rv[n - 1 - j].start);
    }
    if tp.start != t.start {
        let q = choose|q: int| 0 <= q < bc && (#[trigger] rv[q]).start == tp.start;
        assert(rv[q] == cr[n - 1 - q]);
        assert(ec <= n - 1 - q < n && cr[n - 1 - q].start == tp.start);
    }
    if sc < n { assert(!touches(hp, cr[sc])); }
    if bc < n { assert(rv[bc] == cr[ec - 1]); assert(!touches(tp, cr[ec - 1])); }
    if sc <= ec {
        if sc < n { assert(cr[sc].start >= hp.end); }
        if ec > 0 { assert(cr[ec - 1].end <= tp.start); }
        assert(hp.end <= tp.start) by {
            if hp.end != h.end {
                let i = choose|i: int| 0 <= i < sc && (#[trigger] cr[i]).end == hp.end;
                assert(cr[i].end <= cr[ec - 1].end) by { if i < ec - 1 { assert(cr[i].end <= cr[ec - 1].start); } }
            } else if tp.start != t.start {
                let q = choose|q: int| 0 <= q < bc && (#[trigger] rv[q]).start == tp.start;
                assert(rv[q] == cr[n - 1 - q]);
                let j = n - 1 - q;
                assert(cr[sc].start <= cr[j].start) by { if sc < j { assert(cr[sc].end <= cr[j].start); } }
            }
        }
    } else {
        let k = ec;
        assert(rv[n - 1 - k] == cr[k]);
        assert(tp.start <= rv[n - 1 - k].start && cr[k].end <= hp.end);
    }
}
pub proof fn lemma_pair_merged(h: Range<usize>, t: Range<usize>, cm: Seq<RemoveMarker>, sc: int, hp: Range<usize>, bc: int, tp: Range<usize>)
    requires
        h.start < h.end <= t.start <= t.end, children_ok(h, t, marker_ranges(cm)),
        pair_facts(h, t, marker_ranges(cm), sc, hp, bc, tp), sc > cm.len() - bc,
    ensures ({
        let out = seq![(Range { start: hp.start, end: tp.end }, None::<usize>)];
        &&& markers_sorted(out)
        &&& forall|i: int| 0 <= i < out.len() ==> h.start <= (#[trigger] out[i]).0.start && out[i].0.end <= t.end
        &&& forall|p: int| #[trigger] markers_covered(out, p) <==> (rcontains_i(h, p) || rcontains_i(t, p) || markers_covered(cm, p))
    }),
{
    let cr = marker_ranges(cm);
    let n = cm.len() as int;
    let ec = n - bc;
    let out = seq![(Range { start: hp.start, end: tp.end }, None::<usize>)];
    assert forall|p: int| #[trigger] markers_covered(out, p) <==> (rcontains_i(h, p) || rcontains_i(t, p) || markers_covered(cm, p)) by {
        if markers_covered(out, p) {
            let i = choose|i: int| 0 <= i < out.len() && (#[trigger] out[i]).0.start <= p < out[i].0.end;
            assert(rcontains_i(hp, p) || rcontains_i(tp, p));
            if rcontains_i(hp, p) && !rcontains_i(h, p) {
                let q = choose|q: int| 0 <= q < sc && rcontains_i(#[trigger] cr[q], p);
                assert(cr[q] == cm[q].0);
                assert(cm[q].0.start <= p < cm[q].0.end);
            } else if rcontains_i(tp, p) && !rcontains_i(t, p) && !rcontains_i(h, p) {
                let j = choose|j: int| ec <= j < n && rcontains_i(#[trigger] cr[j], p);
                assert(cr[j] == cm[j].0);
                assert(cm[j].0.start <= p < cm[j].0.end);
            }
        }
        if rcontains_i(h, p) { assert(rcontains_i(hp, p)); assert(out[0].0.start <= p < out[0].0.end); }
        if rcontains_i(t, p) { assert(rcontains_i(tp, p)); assert(out[0].0.start <= p < out[0].0.end); }
        if markers_covered(cm, p) {
            let q = choose|q: int| 0 <= q < cm.len() && (#[trigger] cm[q]).0.start <= p < cm[q].0.end;
            assert(cr[q] == cm[q].0);
            assert(out[0].0.start <= p < out[0].0.end);
        }
    }
}
pub proof fn lemma_pair_normal(h: Range<usize>, t: Range<usize>, cm: Seq<RemoveMarker>, cur: int, sc: int, hp: Range<usize>, bc: int, tp: Range<usize>)
    requires
        h.start < h.end <= t.start <= t.end, children_ok(h, t, marker_ranges(cm)),
        pair_facts(h, t, marker_ranges(cm), sc, hp, bc, tp), sc <= cm.len() - bc,
    ensures ({
        let ec = cm.len() - bc;
        let out = seq![(hp, Some((cur + (ec - sc) + 1) as usize))] + rebased(cm, sc, ec, cur) + seq![(tp, Some(cur as usize))];
        &&& markers_sorted(out)
        &&& forall|i: int| 0 <= i < out.len() ==> h.start <= (#[trigger] out[i]).0.start && out[i].0.end <= t.end
        &&& forall|p: int| #[trigger] markers_covered(out, p) <==> (rcontains_i(h, p) || rcontains_i(t, p) || markers_covered(cm, p))
    }),
{
    let cr = marker_ranges(cm);
    let n = cm.len() as int;
    let ec = n - bc;
    let mid = rebased(cm, sc, ec, cur);
    let first = (hp, Some((cur + (ec - sc) + 1) as usize));
    let last = (tp, Some(cur as usize));
    let out = seq![first] + mid + seq![last];
    let m = out.len() as int;
    assert(m == ec - sc + 2);
    assert(out[0] == first);
    assert(out[m - 1] == last);
    assert forall|k: int| 0 <= k < ec - sc implies (#[trigger] out[k + 1]).0 == cr[sc + k] by { assert(out[k + 1] == mid[k]); assert(cr[sc + k] == cm[sc + k].0); }
    assert forall|i: int| 0 <= i < m implies (#[trigger] out[i]).0.start <= out[i].0.end && h.start <= out[i].0.start && out[i].0.end <= t.end by {
        if 0 < i < m - 1 { assert(out[(i - 1) + 1].0 == cr[sc + (i - 1)]); }
    }
    assert forall|i: int, j: int| 0 <= i < j < m implies (#[trigger] out[i]).0.end <= (#[trigger] out[j]).0.start by {
        if 0 < i { assert(out[(i - 1) + 1].0 == cr[sc + (i - 1)]); }
        if j < m - 1 { assert(out[(j - 1) + 1].0 == cr[sc + (j - 1)]); }
        if i == 0 && j < m - 1 {
            assert(cr[sc].start <= cr[sc + (j - 1)].start) by { if j - 1 > 0 { assert(cr[sc].end <= cr[sc + (j - 1)].start); } }
        } else if i > 0 && j == m - 1 {
            assert(cr[sc + (i - 1)].end <= cr[ec - 1].end) by { if sc + (i - 1) < ec - 1 { assert(cr[sc + (i - 1)].end <= cr[ec - 1].start); } }
        } else if i > 0 {
            assert(cr[sc + (i - 1)].end <= cr[sc + (j - 1)].start);
        }
    }
    assert forall|p: int| #[trigger] markers_covered(out, p) <==> (rcontains_i(h, p) || rcontains_i(t, p) || markers_covered(cm, p)) by {
        if markers_covered(out, p) {
            let i = choose|i: int| 0 <= i < out.len() && (#[trigger] out[i]).0.start <= p < out[i].0.end;
            if i == 0 {
                assert(rcontains_i(hp, p));
                if !rcontains_i(h, p) { let q = choose|q: int| 0 <= q < sc && rcontains_i(#[trigger] cr[q], p); assert(cr[q] == cm[q].0); assert(cm[q].0.start <= p < cm[q].0.end); }
            } else if i == m - 1 {
                assert(rcontains_i(tp, p));
                if !rcontains_i(t, p) { let j = choose|j: int| ec <= j < n && rcontains_i(#[trigger] cr[j], p); assert(cr[j] == cm[j].0); assert(cm[j].0.start <= p < cm[j].0.end); }
            } else {
                assert(out[(i - 1) + 1].0 == cr[sc + (i - 1)]);
                assert(cr[sc + (i - 1)] == cm[sc + (i - 1)].0);
                assert(cm[sc + (i - 1)].0.start <= p < cm[sc + (i - 1)].0.end);
            }
        }
        if rcontains_i(h, p) { assert(rcontains_i(hp, p)); assert(out[0].0.start <= p < out[0].0.end); }
        if rcontains_i(t, p) { assert(rcontains_i(tp, p)); assert(out[m - 1].0.start <= p < out[m - 1].0.end); }
        if markers_covered(cm, p) {
            let q = choose|q: int| 0 <= q < cm.len() && (#[trigger] cm[q]).0.start <= p < cm[q].0.end;
            assert(cr[q] == cm[q].0);
            assert(rcontains_i(cr[q], p));
            if q < sc { assert(rcontains_i(hp, p)); assert(out[0].0.start <= p < out[0].0.end); }
            else if q >= ec { assert(rcontains_i(tp, p)); assert(out[m - 1].0.start <= p < out[m - 1].0.end); }
            else { assert(out[(q - sc) + 1].0 == cr[sc + (q - sc)]); assert(out[q - sc + 1].0.start <= p < out[q - sc + 1].0.end); }
        }
    }
}

pub proof fn lemma_forest_covered_split(f: Seq<GTree>, p: int)
    requires f.len() > 0,
    ensures forest_covered(f, p) <==> (forest_covered(f.drop_last(), p) || node_self_covered(f.last(), p) || forest_covered(f.last().children, p)),
{
    let g = f.drop_last();
    if forest_covered(f, p) {
        let i = choose|i: int| 0 <= i < f.len() && (node_self_covered(#[trigger] f[i], p) || forest_covered(f[i].children, p));
        if i < g.len() { assert(g[i] == f[i]); }
    }
    if forest_covered(g, p) {
        let i = choose|i: int| 0 <= i < g.len() && (node_self_covered(#[trigger] g[i], p) || forest_covered(g[i].children, p));
        assert(f[i] == g[i]);
    }
    if node_self_covered(f.last(), p) || forest_covered(f.last().children, p) { assert(f[f.len() - 1] == f.last()); }
}

/// properties of the markers produced for one tree t (segment `tm`), given its children's merged markers cm
pub open spec fn tree_seg_ok(t: GTree, cm: Seq<RemoveMarker>, tm: Seq<RemoveMarker>) -> bool {
    &&& markers_sorted(tm) && tm.len() > 0
    &&& forall|i: int| 0 <= i < tm.len() ==> node_lo(t) <= (#[trigger] tm[i]).0.start && tm[i].0.end <= node_hi(t)
    &&& forall|p: int| #[trigger] markers_covered(tm, p) <==> (node_self_covered(t, p) || markers_covered(cm, p))
}
pub proof fn lemma_tree_seg(t: GTree, cm: Seq<RemoveMarker>, cur: int)
    requires node_ranges_ok(t), markers_sorted(cm), markers_inside(cm, node_lo(t), node_hi(t)),
    ensures tree_seg_ok(t, cm, tree_markers(t, cm, cur)),
{
    let tm = tree_markers(t, cm, cur);
    let h = t.range.0;
    let cr = marker_ranges(cm);
    assert forall|i: int| 0 <= i < cm.len() implies (#[trigger] cr[i]) == cm[i].0 by {}
    match t.range.1 {
        Some(tail) => {
            assert(children_ok(h, tail, cr)) by {
                assert forall|i: int| 0 <= i < cr.len() implies h.start < (#[trigger] cr[i]).start && cr[i].start <= cr[i].end && cr[i].end < tail.end by { assert(cr[i] == cm[i].0); }
                assert forall|i: int, j: int| 0 <= i < j < cr.len() implies (#[trigger] cr[i]).end <= (#[trigger] cr[j]).start by { assert(cr[i] == cm[i].0 && cr[j] == cm[j].0); }
            }
            lemma_pair_facts(h, tail, cr);
            let a = mcm(cr, h);
            let b = mcm(cr.reverse(), tail);
            if a.0 > cm.len() - b.0 { lemma_pair_merged(h, tail, cm, a.0, a.1, b.0, b.1); }
            else { lemma_pair_normal(h, tail, cm, cur, a.0, a.1, b.0, b.1); }
        },
        None => {
            lemma_tree_nopair(h, cm);
            assert(tm =~= seq![(h, None::<usize>)]);
            assert forall|p: int| #[trigger] markers_covered(tm, p) <==> (node_self_covered(t, p) || markers_covered(cm, p)) by {
                if markers_covered(tm, p) { let i = choose|i: int| 0 <= i < tm.len() && (#[trigger] tm[i]).0.start <= p < tm[i].0.end; }
                if rcontains_i(h, p) { assert(tm[0].0.start <= p < tm[0].0.end); }
            }
        },
    }
}

/// what lemma_mm_core establishes (the C02/C03 part of mm_post: sortedness, extent, exact coverage)
pub open spec fn mm_core(f: Seq<GTree>, out: Seq<RemoveMarker>, lo: int, hi: int) -> bool {
    &&& markers_sorted(out)
    &&& (f.len() == 0 <==> out.len() == 0)
    &&& markers_inside(out, lo, hi)
    &&& forall|i: int| 0 <= i < out.len() ==> f.len() > 0 && node_lo(f[0]) <= (#[trigger] out[i]).0.start && out[i].0.end <= node_hi(f[f.len() - 1])
    &&& forall|p: int| #[trigger] markers_covered(out, p) <==> forest_covered(f, p)
}
pub proof fn lemma_mm_core(f: Seq<GTree>, lo: int, hi: int)
    requires wf_forest(f, lo, hi),
    ensures mm_core(f, mm_spec(f), lo, hi),
    decreases f,
{
    if f.len() > 0 {
        let g = f.drop_last();
        let t = f.last();
        assert(t == f[f.len() - 1]);
        assert(wf_forest(g, lo, hi)) by {
            assert forall|i: int| 0 <= i < g.len() implies lo < node_lo(#[trigger] g[i]) && node_hi(g[i]) < hi && node_ranges_ok(g[i]) by { assert(g[i] == f[i]); }
            assert forall|i: int| 0 <= i < g.len() implies wf_forest((#[trigger] g[i]).children, node_lo(g[i]), node_hi(g[i])) by { assert(g[i] == f[i]); }
            assert forall|i: int, j: int| 0 <= i < j < g.len() implies node_hi(#[trigger] g[i]) <= node_lo(#[trigger] g[j]) by { assert(g[i] == f[i] && g[j] == f[j]); }
        }
        lemma_mm_core(g, lo, hi);
        lemma_mm_core(t.children, node_lo(t), node_hi(t));
        let prev = mm_spec(g);
        let cm = mm_spec(t.children);
        let tm = tree_markers(t, cm, prev.len() as int);
        lemma_tree_seg(t, cm, prev.len() as int);
        lemma_mm_concat(f, prev, cm, tm, lo, hi);
    }
}
pub proof fn lemma_mm_concat(f: Seq<GTree>, prev: Seq<RemoveMarker>, cm: Seq<RemoveMarker>, tm: Seq<RemoveMarker>, lo: int, hi: int)
    requires
        f.len() > 0, wf_forest(f, lo, hi),
        mm_core(f.drop_last(), prev, lo, hi),
        forall|p: int| #[trigger] markers_covered(cm, p) <==> forest_covered(f.last().children, p),
        tree_seg_ok(f.last(), cm, tm),
    ensures mm_core(f, prev + tm, lo, hi),
{
    let g = f.drop_last();
    let t = f.last();
    let out = prev + tm;
    assert(t == f[f.len() - 1]);
    assert forall|i: int| 0 <= i < out.len() implies node_lo(f[0]) <= (#[trigger] out[i]).0.start && out[i].0.end <= node_hi(f[f.len() - 1])
        && out[i].0.start <= out[i].0.end && lo < out[i].0.start && out[i].0.end < hi by {
        if i < prev.len() {
            assert(out[i] == prev[i]);
            assert(g[0] == f[0]);
            assert(g[g.len() - 1] == f[g.len() - 1]);
            assert(node_hi(f[g.len() - 1]) <= node_lo(f[f.len() - 1]));
            assert(node_ranges_ok(f[f.len() - 1]));
        } else {
            assert(out[i] == tm[i - prev.len()]);
            if g.len() > 0 { assert(node_hi(f[0]) <= node_lo(f[f.len() - 1])); assert(node_ranges_ok(f[0])); }
        }
    }
    assert forall|i: int, j: int| 0 <= i < j < out.len() implies (#[trigger] out[i]).0.end <= (#[trigger] out[j]).0.start by {
        if j < prev.len() { assert(out[i] == prev[i] && out[j] == prev[j]); }
        else if i >= prev.len() { assert(out[i] == tm[i - prev.len()] && out[j] == tm[j - prev.len()]); }
        else {
            assert(out[i] == prev[i] && out[j] == tm[j - prev.len()]);
            assert(g[g.len() - 1] == f[g.len() - 1]);
            assert(node_hi(f[g.len() - 1]) <= node_lo(f[f.len() - 1]));
        }
    }
    assert forall|p: int| #[trigger] markers_covered(out, p) <==> forest_covered(f, p) by {
        lemma_forest_covered_split(f, p);
        if markers_covered(out, p) {
            let i = choose|i: int| 0 <= i < out.len() && (#[trigger] out[i]).0.start <= p < out[i].0.end;
            if i < prev.len() { assert(prev[i] == out[i]); assert(markers_covered(prev, p)); }
            else { assert(tm[i - prev.len()] == out[i]); assert(markers_covered(tm, p)); }
        }
        if markers_covered(prev, p) {
            let i = choose|i: int| 0 <= i < prev.len() && (#[trigger] prev[i]).0.start <= p < prev[i].0.end;
            assert(out[i] == prev[i]);
        }
        if markers_covered(tm, p) {
            let i = choose|i: int| 0 <= i < tm.len() && (#[trigger] tm[i]).0.start <= p < tm[i].0.end;
            assert(out[prev.len() + i] == tm[i]);
        }
    }
}

// ---- endpoints: every endpoint of a marker of mm_spec is an endpoint of a node range ----
pub open spec fn cm_endpoint(cm: Seq<RemoveMarker>, x: usize) -> bool {
    exists|k: int| 0 <= k < cm.len() && ((#[trigger] cm[k]).0.start == x || cm[k].0.end == x)
}
pub open spec fn seg_endpoints_ok(t: GTree, cm: Seq<RemoveMarker>, tm: Seq<RemoveMarker>) -> bool {
    forall|i: int| 0 <= i < tm.len() ==> (node_self_endpoint(t, (#[trigger] tm[i]).0.start) || cm_endpoint(cm, tm[i].0.start))
        && (node_self_endpoint(t, tm[i].0.end) || cm_endpoint(cm, tm[i].0.end))
}
pub proof fn lemma_tree_seg_endpoints(t: GTree, cm: Seq<RemoveMarker>, cur: int)
    requires node_ranges_ok(t), markers_sorted(cm), markers_inside(cm, node_lo(t), node_hi(t)),
    ensures seg_endpoints_ok(t, cm, tree_markers(t, cm, cur)),
{
    let tm = tree_markers(t, cm, cur);
    let h = t.range.0;
    let cr = marker_ranges(cm);
    let n = cm.len() as int;
    assert forall|i: int| 0 <= i < cm.len() implies (#[trigger] cr[i]) == cm[i].0 by {}
    match t.range.1 {
        Some(tail) => {
            assert(children_ok(h, tail, cr)) by {
                assert forall|i: int| 0 <= i < cr.len() implies h.start < (#[trigger] cr[i]).start && cr[i].start <= cr[i].end && cr[i].end < tail.end by { assert(cr[i] == cm[i].0); }
                assert forall|i: int, j: int| 0 <= i < j < cr.len() implies (#[trigger] cr[i]).end <= (#[trigger] cr[j]).start by { assert(cr[i] == cm[i].0 && cr[j] == cm[j].0); }
            }
            lemma_pair_facts(h, tail, cr);
            let a = mcm(cr, h);
            let b = mcm(cr.reverse(), tail);
            let sc = a.0; let hp = a.1; let bc = b.0; let tp = b.1; let ec = n - bc;
            assert(node_self_endpoint(t, hp.start) && node_self_endpoint(t, tp.end));
            assert(node_self_endpoint(t, hp.end) || cm_endpoint(cm, hp.end)) by {
                if hp.end != h.end { let i = choose|i: int| 0 <= i < sc && (#[trigger] cr[i]).end == hp.end; assert(cm[i].0.end == hp.end); }
            }
            assert(node_self_endpoint(t, tp.start) || cm_endpoint(cm, tp.start)) by {
                if tp.start != tail.start { let j = choose|j: int| ec <= j < n && (#[trigger] cr[j]).start == tp.start; assert(cm[j].0.start == tp.start); }
            }
            if sc > ec {
                assert(tm =~= seq![(Range { start: hp.start, end: tp.end }, None::<usize>)]);
            } else {
                let mid = rebased(cm, sc, ec, cur);
                let first = (hp, Some((cur + (ec - sc) + 1) as usize));
                let last = (tp, Some(cur as usize));
                assert(tm =~= seq![first] + mid + seq![last]);
                assert forall|i: int| 0 <= i < tm.len() implies (node_self_endpoint(t, (#[trigger] tm[i]).0.start) || cm_endpoint(cm, tm[i].0.start))
                    && (node_self_endpoint(t, tm[i].0.end) || cm_endpoint(cm, tm[i].0.end)) by {
                    if 0 < i < tm.len() - 1 {
                        assert(tm[i] == mid[i - 1]);
                        assert(tm[i].0 == cm[sc + (i - 1)].0);
                    }
                }
            }
        },
        None => {
            lemma_tree_nopair(h, cm);
            assert(tm =~= seq![(h, None::<usize>)]);
        },
    }
}
pub proof fn lemma_forest_endpoint_split(f: Seq<GTree>, x: usize)
    requires f.len() > 0,
    ensures forest_endpoint(f, x) <==> (forest_endpoint(f.drop_last(), x) || node_self_endpoint(f.last(), x) || forest_endpoint(f.last().children, x)),
{
    let g = f.drop_last();
    if forest_endpoint(f, x) {
        let i = choose|i: int| 0 <= i < f.len() && (node_self_endpoint(#[trigger] f[i], x) || forest_endpoint(f[i].children, x));
        if i < g.len() { assert(g[i] == f[i]); }
    }
    if forest_endpoint(g, x) {
        let i = choose|i: int| 0 <= i < g.len() && (node_self_endpoint(#[trigger] g[i], x) || forest_endpoint(g[i].children, x));
        assert(f[i] == g[i]);
    }
    if node_self_endpoint(f.last(), x) || forest_endpoint(f.last().children, x) { assert(f[f.len() - 1] == f.last()); }
}
pub open spec fn mm_endpoints(f: Seq<GTree>, out: Seq<RemoveMarker>) -> bool {
    forall|i: int| 0 <= i < out.len() ==> forest_endpoint(f, (#[trigger] out[i]).0.start) && forest_endpoint(f, out[i].0.end)
}
pub proof fn lemma_mm_endpoints(f: Seq<GTree>, lo: int, hi: int)
    requires wf_forest(f, lo, hi),
    ensures mm_endpoints(f, mm_spec(f)),
    decreases f,
{
    if f.len() > 0 {
        let g = f.drop_last();
        let t = f.last();
        assert(t == f[f.len() - 1]);
        assert(wf_forest(g, lo, hi)) by {
            assert forall|i: int| 0 <= i < g.len() implies lo < node_lo(#[trigger] g[i]) && node_hi(g[i]) < hi && node_ranges_ok(g[i]) by { assert(g[i] == f[i]); }
            assert forall|i: int| 0 <= i < g.len() implies wf_forest((#[trigger] g[i]).children, node_lo(g[i]), node_hi(g[i])) by { assert(g[i] == f[i]); }
            assert forall|i: int, j: int| 0 <= i < j < g.len() implies node_hi(#[trigger] g[i]) <= node_lo(#[trigger] g[j]) by { assert(g[i] == f[i] && g[j] == f[j]); }
        }
        lemma_mm_endpoints(g, lo, hi);
        lemma_mm_endpoints(t.children, node_lo(t), node_hi(t));
        lemma_mm_core(t.children, node_lo(t), node_hi(t));
        let prev = mm_spec(g);
        let cm = mm_spec(t.children);
        let tm = tree_markers(t, cm, prev.len() as int);
        lemma_tree_seg_endpoints(t, cm, prev.len() as int);
        let out = prev + tm;
        assert forall|i: int| 0 <= i < out.len() implies forest_endpoint(f, (#[trigger] out[i]).0.start) && forest_endpoint(f, out[i].0.end) by {
            lemma_forest_endpoint_split(f, out[i].0.start);
            lemma_forest_endpoint_split(f, out[i].0.end);
            if i < prev.len() { assert(out[i] == prev[i]); }
            else {
                let k = i - prev.len();
                assert(out[i] == tm[k]);
                if cm_endpoint(cm, tm[k].0.start) {
                    let q = choose|q: int| 0 <= q < cm.len() && ((#[trigger] cm[q]).0.start == tm[k].0.start || cm[q].0.end == tm[k].0.start);
                    assert(forest_endpoint(t.children, cm[q].0.start) && forest_endpoint(t.children, cm[q].0.end));
                }
                if cm_endpoint(cm, tm[k].0.end) {
                    let q = choose|q: int| 0 <= q < cm.len() && ((#[trigger] cm[q]).0.start == tm[k].0.end || cm[q].0.end == tm[k].0.end);
                    assert(forest_endpoint(t.children, cm[q].0.start) && forest_endpoint(t.children, cm[q].0.end));
                }
            }
        }
    }
}

// ---- pair indices of mm_spec are consistent ----
/// the segment tm placed at index cur is self-consistent: every pair index points into the segment, to a different
/// marker, whose pair index points back
pub open spec fn seg_pairs_ok(tm: Seq<RemoveMarker>, cur: int) -> bool {
    forall|k: int| 0 <= k < tm.len() ==> ((#[trigger] tm[k]).1 matches Some(j) ==>
        cur <= j < cur + tm.len() && j != cur + k && tm[j - cur].1 == Some((cur + k) as usize))
}
pub proof fn lemma_tree_seg_pairs(t: GTree, cm: Seq<RemoveMarker>, cur: int)
    requires pairs_consistent(cm), 0 <= cur, cur + cm.len() + 2 <= usize::MAX,
    ensures seg_pairs_ok(tree_markers(t, cm, cur), cur),
{
    let tm = tree_markers(t, cm, cur);
    let cr = marker_ranges(cm);
    let n = cm.len() as int;
    lemma_mcm_bounds(cr, t.range.0);
    match t.range.1 {
        Some(tail) => {
            lemma_mcm_bounds(cr.reverse(), tail);
            let a = mcm(cr, t.range.0);
            let b = mcm(cr.reverse(), tail);
            let sc = a.0; let ec = n - b.0;
            if sc > ec {
                assert(tm =~= seq![(Range { start: a.1.start, end: b.1.end }, None::<usize>)]);
            } else {
                let mid = rebased(cm, sc, ec, cur);
                let first = (a.1, Some((cur + (ec - sc) + 1) as usize));
                let last = (b.1, Some(cur as usize));
                assert(tm =~= seq![first] + mid + seq![last]);
                let m = tm.len() as int;
                assert(m == ec - sc + 2);
                assert(tm[0] == first && tm[m - 1] == last);
                assert forall|k: int| 0 <= k < m implies ((#[trigger] tm[k]).1 matches Some(j) ==>
                    cur <= j < cur + m && j != cur + k && tm[j - cur].1 == Some((cur + k) as usize)) by {
                    if 0 < k < m - 1 {
                        assert(tm[k] == mid[k - 1]);
                        let c = cm[sc + (k - 1)];
                        if tm[k].1 is Some {
                            let p = c.1->0 as int;
                            assert(sc <= p < ec);
                            // consistency of the child list
                            assert(cm[p].1 == Some((sc + (k - 1)) as usize) && p != sc + (k - 1));
                            let j = p - sc + cur + 1;
                            assert(tm[j - cur] == mid[p - sc]);
                        }
                    }
                }
            }
        },
        None => { assert(tm =~= seq![(a_of(cr, t), None::<usize>)]) by { assert(tm.len() == 1); } },
    }
}
pub open spec fn a_of(cr: Seq<Range<usize>>, t: GTree) -> Range<usize> { mcm(cr, t.range.0).1 }

pub proof fn lemma_mm_pairs_sized(f: Seq<GTree>)
    requires 2 * forest_size(f) < usize::MAX,
    ensures pairs_consistent(mm_spec(f)),
    decreases f,
{
    if f.len() > 0 {
        let g = f.drop_last();
        let t = f.last();
        lemma_mm_pairs_sized(g);
        lemma_mm_pairs_sized(t.children);
        lemma_mm_len(g);
        lemma_mm_len(t.children);
        let prev = mm_spec(g);
        let cm = mm_spec(t.children);
        let cur = prev.len() as int;
        let tm = tree_markers(t, cm, cur);
        lemma_tree_seg_pairs(t, cm, cur);
        let out = prev + tm;
        assert(mm_spec(f) == out);
        assert forall|i: int| 0 <= i < out.len() implies ((#[trigger] out[i]).1 matches Some(j) ==> j < out.len() && j != i && out[j as int].1 == Some(i as usize)) by {
            if i < cur {
                assert(out[i] == prev[i]);
                if prev[i].1 is Some { let j = prev[i].1->0 as int; assert(out[j] == prev[j]); }
            } else {
                let k = i - cur;
                assert(out[i] == tm[k]);
                if tm[k].1 is Some { let j = tm[k].1->0 as int; assert(out[j] == tm[j - cur]); }
            }
        }
    }
}

// ---- build_remove_marker_all: interleaving ready and pending markers (mirror of the loops) ----
/// pending markers consumed in front of the ready marker r, starting at cursor c: (items listed, new cursor)
pub open spec fn consume_pending(r: Range<usize>, p: Seq<RemoveMarker>, c: int) -> (Seq<(RemoveMarker, bool)>, int)
    decreases p.len() - c,
{
    if 0 <= c < p.len() && p[c].0.start < r.end {
        let rest = consume_pending(r, p, c + 1);
        let squash = rcontains(r, p[c].0.start) && rcontains(r, p[c].0.end);
        ((if squash { Seq::empty() } else { seq![(p[c], false)] }) + rest.0, rest.1)
    } else { (Seq::empty(), c) }
}
/// list and pending cursor after the first n ready markers
pub open spec fn merge_all(rs: Seq<RemoveMarker>, p: Seq<RemoveMarker>, n: int) -> (Seq<(RemoveMarker, bool)>, int)
    decreases n,
{
    if n <= 0 { (Seq::empty(), 0) } else {
        let prev = merge_all(rs, p, n - 1);
        let cp = consume_pending(rs[n - 1].0, p, prev.1);
        (prev.0 + cp.0 + seq![(rs[n - 1], true)], cp.1)
    }
}
pub open spec fn pending_tail(p: Seq<RemoveMarker>, c: int) -> Seq<(RemoveMarker, bool)> {
    Seq::new((p.len() - c) as nat, |k: int| (p[c + k], false))
}
pub open spec fn merge_all_final(rs: Seq<RemoveMarker>, p: Seq<RemoveMarker>) -> Seq<(RemoveMarker, bool)> {
    let m = merge_all(rs, p, rs.len() as int);
    m.0 + (if m.1 < p.len() { pending_tail(p, m.1) } else { Seq::empty() })
}
pub proof fn lemma_consume_pending_bounds(r: Range<usize>, p: Seq<RemoveMarker>, c: int)
    requires 0 <= c <= p.len(),
    ensures c <= consume_pending(r, p, c).1 <= p.len(),
    decreases p.len() - c,
{
    if c < p.len() && p[c].0.start < r.end { lemma_consume_pending_bounds(r, p, c + 1); }
}

// ---- C17: what the interleaving yields (pure consequences of merge_all_final) ----
pub open spec fn ready_sub(l: Seq<(RemoveMarker, bool)>) -> Seq<RemoveMarker>
    decreases l.len(),
{
    if l.len() == 0 { Seq::empty() } else if l.last().1 { ready_sub(l.drop_last()).push(l.last().0) } else { ready_sub(l.drop_last()) }
}
pub open spec fn pending_sub(l: Seq<(RemoveMarker, bool)>) -> Seq<RemoveMarker>
    decreases l.len(),
{
    if l.len() == 0 { Seq::empty() } else if !l.last().1 { pending_sub(l.drop_last()).push(l.last().0) } else { pending_sub(l.drop_last()) }
}
/// the pending marker x lies inside (both ends half-open-contained in) one of the ready markers
pub open spec fn inside_some(rs: Seq<RemoveMarker>, x: RemoveMarker) -> bool {
    exists|n: int| 0 <= n < rs.len() && rcontains((#[trigger] rs[n]).0, x.0.start) && rcontains(rs[n].0, x.0.end)
}
/// the pending markers a <= c < b that are not inside a ready marker, in order
pub open spec fn pend_kept(rs: Seq<RemoveMarker>, p: Seq<RemoveMarker>, a: int, b: int) -> Seq<RemoveMarker>
    decreases b - a,
{
    if b <= a { Seq::empty() } else if inside_some(rs, p[b - 1]) { pend_kept(rs, p, a, b - 1) } else { pend_kept(rs, p, a, b - 1).push(p[b - 1]) }
}
pub open spec fn markers_sorted_by_start(p: Seq<RemoveMarker>) -> bool {
    forall|i: int, j: int| 0 <= i <= j < p.len() ==> (#[trigger] p[i]).0.start <= (#[trigger] p[j]).0.start
}
pub proof fn lemma_sub_add(a: Seq<(RemoveMarker, bool)>, b: Seq<(RemoveMarker, bool)>)
    ensures ready_sub(a + b) == ready_sub(a) + ready_sub(b), pending_sub(a + b) == pending_sub(a) + pending_sub(b),
    decreases b.len(),
{
    if b.len() == 0 {
        assert(a + b =~= a);
        assert(ready_sub(a) + ready_sub(b) =~= ready_sub(a));
        assert(pending_sub(a) + pending_sub(b) =~= pending_sub(a));
    } else {
        assert((a + b).drop_last() =~= a + b.drop_last());
        assert((a + b).last() == b.last());
        lemma_sub_add(a, b.drop_last());
        assert(ready_sub(a + b) =~= ready_sub(a) + ready_sub(b));
        assert(pending_sub(a + b) =~= pending_sub(a) + pending_sub(b));
    }
}
pub proof fn lemma_sub_one(x: (RemoveMarker, bool))
    ensures ready_sub(seq![x]) == (if x.1 { seq![x.0] } else { Seq::empty() }),
            pending_sub(seq![x]) == (if x.1 { Seq::empty() } else { seq![x.0] }),
{
    assert(seq![x].drop_last() =~= Seq::<(RemoveMarker, bool)>::empty());
    assert(seq![x].last() == x);
    assert(ready_sub(seq![x].drop_last()) =~= Seq::<RemoveMarker>::empty());
    assert(pending_sub(seq![x].drop_last()) =~= Seq::<RemoveMarker>::empty());
    assert(ready_sub(seq![x]) =~= (if x.1 { seq![x.0] } else { Seq::empty() }));
    assert(pending_sub(seq![x]) =~= (if x.1 { Seq::empty() } else { seq![x.0] }));
}
pub proof fn lemma_pend_kept_split(rs: Seq<RemoveMarker>, p: Seq<RemoveMarker>, a: int, m: int, b: int)
    requires a <= m <= b,
    ensures pend_kept(rs, p, a, b) == pend_kept(rs, p, a, m) + pend_kept(rs, p, m, b),
    decreases b - m,
{
    if b == m { assert(pend_kept(rs, p, a, m) + pend_kept(rs, p, m, b) =~= pend_kept(rs, p, a, m)); }
    else {
        lemma_pend_kept_split(rs, p, a, m, b - 1);
        assert(pend_kept(rs, p, a, b) =~= pend_kept(rs, p, a, m) + pend_kept(rs, p, m, b));
    }
}
/// the pending markers consumed in front of ready marker n: no ready items; exactly the ones not inside a ready marker
pub proof fn lemma_consume_pending_sub(rs: Seq<RemoveMarker>, n: int, p: Seq<RemoveMarker>, c: int)
    requires
        0 <= n < rs.len(), 0 <= c <= p.len(), markers_sorted(rs), markers_sorted_by_start(p),
        n > 0 && c < p.len() ==> p[c].0.start >= rs[n - 1].0.end,
    ensures
        ready_sub(consume_pending(rs[n].0, p, c).0) == Seq::<RemoveMarker>::empty(),
        pending_sub(consume_pending(rs[n].0, p, c).0) == pend_kept(rs, p, c, consume_pending(rs[n].0, p, c).1),
        c <= consume_pending(rs[n].0, p, c).1 <= p.len(),
        consume_pending(rs[n].0, p, c).1 < p.len() ==> p[consume_pending(rs[n].0, p, c).1].0.start >= rs[n].0.end,
    decreases p.len() - c,
{
    let r = rs[n].0;
    let e = Seq::<RemoveMarker>::empty();
    if c < p.len() && p[c].0.start < r.end {
        assert(c + 1 < p.len() ==> p[c + 1].0.start >= p[c].0.start);
        lemma_consume_pending_sub(rs, n, p, c + 1);
        let rest = consume_pending(r, p, c + 1);
        let squash = rcontains(r, p[c].0.start) && rcontains(r, p[c].0.end);
        let head = if squash { Seq::<(RemoveMarker, bool)>::empty() } else { seq![(p[c], false)] };
        lemma_sub_add(head, rest.0);
        if !squash { lemma_sub_one((p[c], false)); }
        // inside some ready marker <==> inside this one
        assert(inside_some(rs, p[c]) == squash) by {
            if squash { assert(rcontains(rs[n].0, p[c].0.start)); }
            if inside_some(rs, p[c]) {
                let m = choose|m: int| 0 <= m < rs.len() && rcontains((#[trigger] rs[m]).0, p[c].0.start) && rcontains(rs[m].0, p[c].0.end);
                if m < n { assert(rs[m].0.end <= rs[n - 1].0.end) by { if m < n - 1 { assert(rs[m].0.end <= rs[n - 1].0.start); } } }
                if m > n { assert(rs[n].0.end <= rs[m].0.start); }
                assert(m == n);
            }
        }
        lemma_pend_kept_split(rs, p, c, c + 1, rest.1);
        assert(pend_kept(rs, p, c, c + 1) =~= (if squash { e } else { seq![p[c]] })) by {
            assert(pend_kept(rs, p, c, c) =~= e);
        }
        assert(e + ready_sub(rest.0) =~= ready_sub(rest.0));
    } else {
        assert(pend_kept(rs, p, c, c) =~= e);
    }
}
pub proof fn lemma_merge_all_sub(rs: Seq<RemoveMarker>, p: Seq<RemoveMarker>, n: int)
    requires 0 <= n <= rs.len(), markers_sorted(rs), markers_sorted_by_start(p),
    ensures
        ready_sub(merge_all(rs, p, n).0) == rs.take(n),
        pending_sub(merge_all(rs, p, n).0) == pend_kept(rs, p, 0, merge_all(rs, p, n).1),
        0 <= merge_all(rs, p, n).1 <= p.len(),
        n > 0 && merge_all(rs, p, n).1 < p.len() ==> p[merge_all(rs, p, n).1].0.start >= rs[n - 1].0.end,
    decreases n,
{
    if n <= 0 {
        assert(rs.take(0) =~= Seq::<RemoveMarker>::empty());
    } else {
        lemma_merge_all_sub(rs, p, n - 1);
        let prev = merge_all(rs, p, n - 1);
        lemma_consume_pending_sub(rs, n - 1, p, prev.1);
        let cp = consume_pending(rs[n - 1].0, p, prev.1);
        lemma_sub_add(prev.0 + cp.0, seq![(rs[n - 1], true)]);
        lemma_sub_add(prev.0, cp.0);
        lemma_sub_one((rs[n - 1], true));
        lemma_pend_kept_split(rs, p, 0, prev.1, cp.1);
        assert(rs.take(n) =~= rs.take(n - 1).push(rs[n - 1]));
        assert(ready_sub(merge_all(rs, p, n).0) =~= rs.take(n));
        assert(pending_sub(merge_all(rs, p, n).0) =~= pend_kept(rs, p, 0, cp.1));
    }
}
/// C17: the Ready items of the full listing are exactly the ready markers (each once, in order) and its Pending
/// items are exactly the pending markers that do not lie inside a ready marker (each once, in order)
pub proof fn lemma_merge_all_final_sub(rs: Seq<RemoveMarker>, p: Seq<RemoveMarker>)
    requires markers_sorted(rs), markers_sorted_by_start(p),
    ensures
        ready_sub(merge_all_final(rs, p)) == rs,
        pending_sub(merge_all_final(rs, p)) == pend_kept(rs, p, 0, p.len() as int),
{
    let n = rs.len() as int;
    lemma_merge_all_sub(rs, p, n);
    let m = merge_all(rs, p, n);
    assert(rs.take(n) =~= rs);
    let e = Seq::<RemoveMarker>::empty();
    if m.1 < p.len() {
        let t = pending_tail(p, m.1);
        lemma_sub_add(m.0, t);
        lemma_pending_tail_sub(rs, p, m.1, p.len() as int);
        assert(t.take(p.len() - m.1) =~= t);
        lemma_pend_kept_split(rs, p, 0, m.1, p.len() as int);
        assert(rs + e =~= rs);
    } else {
        assert(m.0 + Seq::<(RemoveMarker, bool)>::empty() =~= m.0);
    }
}
/// the pending markers behind the last ready marker are all listed
pub proof fn lemma_pending_tail_sub(rs: Seq<RemoveMarker>, p: Seq<RemoveMarker>, c: int, b: int)
    requires 0 <= c <= b <= p.len(), markers_sorted(rs), markers_sorted_by_start(p),
        rs.len() > 0 && c < p.len() ==> p[c].0.start >= rs[rs.len() - 1].0.end,
    ensures
        ready_sub(pending_tail(p, c).take(b - c)) == Seq::<RemoveMarker>::empty(),
        pending_sub(pending_tail(p, c).take(b - c)) == pend_kept(rs, p, c, b),
    decreases b - c,
{
    let t = pending_tail(p, c).take(b - c);
    if b == c {
        assert(t =~= Seq::<(RemoveMarker, bool)>::empty());
    } else {
        lemma_pending_tail_sub(rs, p, c, b - 1);
        assert(t.drop_last() =~= pending_tail(p, c).take(b - 1 - c));
        assert(t.last() == (p[b - 1], false));
        assert(!inside_some(rs, p[b - 1])) by {
            if inside_some(rs, p[b - 1]) {
                let m = choose|m: int| 0 <= m < rs.len() && rcontains((#[trigger] rs[m]).0, p[b - 1].0.start) && rcontains(rs[m].0, p[b - 1].0.end);
                assert(p[c].0.start <= p[b - 1].0.start);
                if m < rs.len() - 1 { assert(rs[m].0.end <= rs[rs.len() - 1].0.start); }
            }
        }
    }
}

// ---- every merged marker ends at a positive offset (get_line_range computes `range.end - 1`) ----
pub proof fn lemma_mcm_grows(s: Seq<Range<usize>>, m: Range<usize>)
    ensures mcm(s, m).1.end >= m.end, mcm(s, m).1.start <= m.start,
    decreases s.len(),
{
    if s.len() > 0 && touches(m, s[0]) { lemma_mcm_grows(s.drop_first(), hull(m, s[0])); }
}
pub proof fn lemma_mm_end_pos(f: Seq<GTree>, lo: int, hi: int)
    requires wf_forest(f, lo, hi),
    ensures forall|i: int| 0 <= i < mm_spec(f).len() ==> (#[trigger] mm_spec(f)[i]).0.end >= 1,
    decreases f,
{
    if f.len() > 0 {
        let g = f.drop_last();
        let t = f.last();
        assert(t == f[f.len() - 1]);
        assert(wf_forest(g, lo, hi)) by {
            assert forall|i: int| 0 <= i < g.len() implies lo < node_lo(#[trigger] g[i]) && node_hi(g[i]) < hi && node_ranges_ok(g[i]) by { assert(g[i] == f[i]); }
            assert forall|i: int| 0 <= i < g.len() implies wf_forest((#[trigger] g[i]).children, node_lo(g[i]), node_hi(g[i])) by { assert(g[i] == f[i]); }
            assert forall|i: int, j: int| 0 <= i < j < g.len() implies node_hi(#[trigger] g[i]) <= node_lo(#[trigger] g[j]) by { assert(g[i] == f[i] && g[j] == f[j]); }
        }
        lemma_mm_end_pos(g, lo, hi);
        lemma_mm_end_pos(t.children, node_lo(t), node_hi(t));
        let prev = mm_spec(g);
        let cm = mm_spec(t.children);
        let cr = marker_ranges(cm);
        let tm = tree_markers(t, cm, prev.len() as int);
        assert(node_ranges_ok(t));
        lemma_mcm_grows(cr, t.range.0);
        lemma_mcm_bounds(cr, t.range.0);
        if t.range.1 is Some {
            lemma_mcm_grows(cr.reverse(), t.range.1->0);
            lemma_mcm_bounds(cr.reverse(), t.range.1->0);
        }
        assert forall|i: int| 0 <= i < tm.len() implies (#[trigger] tm[i]).0.end >= 1 by {
            let a = mcm(cr, t.range.0);
            match t.range.1 {
                Some(tail) => {
                    let b = mcm(cr.reverse(), tail);
                    let ec = cm.len() - b.0;
                    if a.0 > ec { } else {
                        if 0 < i < tm.len() - 1 {
                            let rb = rebased(cm, a.0, ec, prev.len() as int);
                            assert(tm[i] == rb[i - 1]);
                            assert(rb[i - 1].0 == cm[a.0 + i - 1].0);
                        }
                    }
                },
                None => {},
            }
        }
        assert forall|i: int| 0 <= i < mm_spec(f).len() implies (#[trigger] mm_spec(f)[i]).0.end >= 1 by {
            if i < prev.len() { assert(mm_spec(f)[i] == prev[i]); } else { assert(mm_spec(f)[i] == tm[i - prev.len()]); }
        }
    }
}

// ---- C17: source order of the combined listing, under the hypothesis order_compatible ----
/// every pending marker that begins before the end of a ready marker is either squashed by it (both ends
/// half-open-contained, the code's test) or begins no later than it. Nested-or-disjoint regions where a nested
/// region ends strictly before its parent satisfy this; it is a HYPOTHESIS here (not proved from the forest).
pub open spec fn order_compatible(rs: Seq<RemoveMarker>, p: Seq<RemoveMarker>) -> bool {
    forall|n: int, c: int| 0 <= n < rs.len() && 0 <= c < p.len() && (#[trigger] p[c]).0.start < (#[trigger] rs[n]).0.end ==>
        (rcontains(rs[n].0, p[c].0.start) && rcontains(rs[n].0, p[c].0.end)) || p[c].0.start <= rs[n].0.start
}
pub open spec fn istart(x: (RemoveMarker, bool)) -> int { x.0.0.start as int }
pub open spec fn list_sorted_by_start(l: Seq<(RemoveMarker, bool)>) -> bool {
    forall|i: int, j: int| 0 <= i <= j < l.len() ==> istart(#[trigger] l[i]) <= istart(#[trigger] l[j])
}
pub open spec fn list_between(l: Seq<(RemoveMarker, bool)>, lo: int, hi: int) -> bool {
    forall|i: int| 0 <= i < l.len() ==> lo <= istart(#[trigger] l[i]) <= hi
}
pub proof fn lemma_list_sorted_append(a: Seq<(RemoveMarker, bool)>, b: Seq<(RemoveMarker, bool)>, lo: int, mid: int, hi: int)
    requires list_sorted_by_start(a), list_sorted_by_start(b), list_between(a, lo, mid), list_between(b, mid, hi), lo <= mid <= hi,
    ensures list_sorted_by_start(a + b), list_between(a + b, lo, hi),
{
    let l = a + b;
    assert forall|i: int| 0 <= i < l.len() implies lo <= istart(#[trigger] l[i]) <= hi by {
        if i < a.len() { assert(l[i] == a[i]); } else { assert(l[i] == b[i - a.len()]); }
    }
    assert forall|i: int, j: int| 0 <= i <= j < l.len() implies istart(#[trigger] l[i]) <= istart(#[trigger] l[j]) by {
        if i < a.len() { assert(l[i] == a[i]); } else { assert(l[i] == b[i - a.len()]); }
        if j < a.len() { assert(l[j] == a[j]); } else { assert(l[j] == b[j - a.len()]); }
    }
}
/// the pending markers listed in front of ready marker n are in order, begin at or after the cursor's marker and
/// no later than the ready marker
pub proof fn lemma_consume_pending_sorted(rs: Seq<RemoveMarker>, n: int, p: Seq<RemoveMarker>, c: int, lo: int)
    requires
        0 <= n < rs.len(), 0 <= c <= p.len(), markers_sorted_by_start(p), order_compatible(rs, p),
        c < p.len() ==> lo <= p[c].0.start,
        lo <= rs[n].0.start,
    ensures
        list_sorted_by_start(consume_pending(rs[n].0, p, c).0),
        list_between(consume_pending(rs[n].0, p, c).0, lo, rs[n].0.start as int),
    decreases p.len() - c,
{
    let r = rs[n].0;
    if c < p.len() && p[c].0.start < r.end {
        let s = p[c].0.start as int;
        assert(c + 1 < p.len() ==> p[c + 1].0.start >= p[c].0.start);
        let squash = rcontains(r, p[c].0.start) && rcontains(r, p[c].0.end);
        let rest = consume_pending(r, p, c + 1);
        let head = if squash { Seq::<(RemoveMarker, bool)>::empty() } else { seq![(p[c], false)] };
        if squash {
            lemma_consume_pending_sorted(rs, n, p, c + 1, lo);
            assert(head + rest.0 =~= rest.0);
        } else {
            assert(p[c].0.start <= rs[n].0.start);
            lemma_consume_pending_sorted(rs, n, p, c + 1, s);
            assert(head[0] == (p[c], false));
            assert(list_sorted_by_start(head));
            assert(list_between(head, lo, s));
            lemma_list_sorted_append(head, rest.0, lo, s, r.start as int);
        }
    }
}
pub proof fn lemma_merge_all_sorted(rs: Seq<RemoveMarker>, p: Seq<RemoveMarker>, n: int)
    requires 0 <= n <= rs.len(), markers_sorted(rs), markers_sorted_by_start(p), order_compatible(rs, p),
    ensures
        list_sorted_by_start(merge_all(rs, p, n).0),
        n > 0 ==> list_between(merge_all(rs, p, n).0, 0, rs[n - 1].0.start as int),
        n == 0 ==> merge_all(rs, p, n).0.len() == 0,
    decreases n,
{
    if n > 0 {
        lemma_merge_all_sorted(rs, p, n - 1);
        lemma_merge_all_sub(rs, p, n - 1);
        let prev = merge_all(rs, p, n - 1);
        let r = rs[n - 1];
        let mid: int = if n > 1 { rs[n - 2].0.start as int } else { 0 };
        if n > 1 {
            assert(rs[n - 2].0.start <= rs[n - 2].0.end);
            assert(rs[n - 2].0.end <= rs[n - 1].0.start);
        }
        lemma_consume_pending_sorted(rs, n - 1, p, prev.1, mid);
        let cp = consume_pending(r.0, p, prev.1);
        assert(list_between(prev.0, 0, mid));
        lemma_list_sorted_append(prev.0, cp.0, 0, mid, r.0.start as int);
        let one = seq![(r, true)];
        assert(one[0] == (r, true));
        assert(list_sorted_by_start(one));
        assert(list_between(one, r.0.start as int, r.0.start as int));
        lemma_list_sorted_append(prev.0 + cp.0, one, 0, r.0.start as int, r.0.start as int);
    }
}
/// C17 (conditional): when the two marker lists are order-compatible, the combined listing is in source order
pub proof fn lemma_merge_all_final_sorted(rs: Seq<RemoveMarker>, p: Seq<RemoveMarker>)
    requires markers_sorted(rs), markers_sorted_by_start(p), order_compatible(rs, p),
    ensures list_sorted_by_start(merge_all_final(rs, p)),
{
    let n = rs.len() as int;
    lemma_merge_all_sorted(rs, p, n);
    lemma_merge_all_sub(rs, p, n);
    let m = merge_all(rs, p, n);
    if m.1 < p.len() {
        let t = pending_tail(p, m.1);
        let mid: int = if n > 0 { rs[n - 1].0.start as int } else { 0 };
        if n > 0 { assert(rs[n - 1].0.start <= rs[n - 1].0.end); }
        assert forall|i: int| 0 <= i < t.len() implies mid <= istart(#[trigger] t[i]) <= usize::MAX by {
            assert(t[i] == (p[m.1 + i], false));
            assert(p[m.1].0.start <= p[m.1 + i].0.start);
        }
        assert forall|i: int, j: int| 0 <= i <= j < t.len() implies istart(#[trigger] t[i]) <= istart(#[trigger] t[j]) by {
            assert(t[i] == (p[m.1 + i], false));
            assert(t[j] == (p[m.1 + j], false));
            assert(p[m.1 + i].0.start <= p[m.1 + j].0.start);
        }
        if n == 0 { assert(m.0 + t =~= t); } else {
            lemma_list_sorted_append(m.0, t, 0, mid, usize::MAX as int);
        }
    } else {
        assert(m.0 + Seq::<(RemoveMarker, bool)>::empty() =~= m.0);
    }
}
