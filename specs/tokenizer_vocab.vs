// ---- vocabulary over token lists (inside `mod tokenizer`) ----
/// ghost view of a token (the text is described separately by tok_value_ok)
pub struct GTok { pub is_element: bool, pub start: int, pub byte_start: int, pub end: int, pub byte_end: int }
pub open spec fn tv(t: Token) -> GTok {
    GTok { is_element: t.kind is Element, start: t.start as int, byte_start: t.byte_start as int, end: t.end as int, byte_end: t.byte_end as int }
}
pub open spec fn tvs(ts: Seq<Token>) -> Seq<GTok> { Seq::new(ts.len(), |i: int| tv(ts[i])) }
/// the token's offsets are in bounds and on character boundaries (so `&source[byte_start..byte_end]` cannot panic),
/// its text is exactly that slice of the source (through the assumed std contract of str slicing, rule R14),
/// and an element token carries the configured delimiters.
pub open spec fn tok_ok(t: Token, b: Seq<u8>, ds: &str, de: &str) -> bool {
    &&& t.byte_start <= t.byte_end <= b.len()
    &&& cb(b, t.byte_start as int) && cb(b, t.byte_end as int)
    &&& t.value.spec_bytes() == b.subrange(t.byte_start as int, t.byte_end as int)
    &&& t.kind matches TokenKind::Element(e) ==> e.delimiter_start == ds && e.delimiter_end == de
}
pub open spec fn toks_ok(ts: Seq<Token>, b: Seq<u8>, ds: &str, de: &str) -> bool {
    forall|i: int| 0 <= i < ts.len() ==> tok_ok(#[trigger] ts[i], b, ds, de)
}
/// C07: the tokens are non-empty, contiguous from character 0 to character `upto`, and their byte offsets are
/// the byte offsets of their character offsets (so end - start is the number of characters of the slice)
pub open spec fn tok_chain(ts: Seq<Token>, cs: Seq<char>, upto: int) -> bool {
    &&& forall|i: int| 0 <= i < ts.len() ==> (#[trigger] ts[i]).start < ts[i].end <= cs.len()
            && ts[i].byte_start == char_byte_pos(cs, ts[i].start as int) && ts[i].byte_end == char_byte_pos(cs, ts[i].end as int)
    &&& forall|i: int| 0 <= i < ts.len() - 1 ==> (#[trigger] ts[i]).end == ts[i + 1].start
    &&& ts.len() > 0 ==> ts[0].start == 0 && ts[ts.len() - 1].end == upto
    &&& ts.len() == 0 ==> upto == 0
}
pub open spec fn no_adjacent_text(ts: Seq<Token>) -> bool {
    forall|i: int| 0 <= i < ts.len() - 1 ==> !((#[trigger] ts[i]).kind is Text && ts[i + 1].kind is Text)
}


/// C07: the texts of the first n tokens, concatenated (as bytes)
pub open spec fn tok_concat(ts: Seq<Token>, n: int) -> Seq<u8>
    decreases n,
{
    if n <= 0 { Seq::empty() } else { tok_concat(ts, n - 1) + ts[n - 1].value.spec_bytes() }
}
/// what toks_ok and tok_chain say about token k, without quantifiers
pub proof fn lemma_tok_facts(ts: Seq<Token>, cs: Seq<char>, b: Seq<u8>, ds: &str, de: &str, k: int)
    requires toks_ok(ts, b, ds, de), tok_chain(ts, cs, cs.len() as int), b == encode_utf8(cs), 0 <= k < ts.len(),
    ensures
        0 <= ts[k].byte_start <= ts[k].byte_end <= b.len(),
        ts[k].value.spec_bytes() == b.subrange(ts[k].byte_start as int, ts[k].byte_end as int),
        k == 0 ==> ts[k].byte_start == 0,
        k > 0 ==> ts[k - 1].byte_end == ts[k].byte_start,
        k == ts.len() - 1 ==> ts[k].byte_end == b.len(),
{
    let t = ts[k];
    assert(tok_ok(t, b, ds, de));
    assert(t.start < t.end <= cs.len() && t.byte_start == char_byte_pos(cs, t.start as int) && t.byte_end == char_byte_pos(cs, t.end as int));
    lemma_char_pos_mono(cs, 0, cs.len() as int);
    if k > 0 {
        let p = ts[k - 1];
        assert(p.start < p.end <= cs.len() && p.byte_end == char_byte_pos(cs, p.end as int));
        assert(ts[k - 1].end == ts[k - 1 + 1].start);
    }
}
/// tokens that are slices of the source and partition it concatenate to the source
pub proof fn lemma_tok_concat(ts: Seq<Token>, cs: Seq<char>, b: Seq<u8>, ds: &str, de: &str, n: int)
    requires toks_ok(ts, b, ds, de), tok_chain(ts, cs, cs.len() as int), b == encode_utf8(cs), 0 <= n <= ts.len(),
    ensures tok_concat(ts, n) == b.subrange(0, if n == 0 { 0 } else { ts[n - 1].byte_end as int }),
        n == ts.len() ==> tok_concat(ts, n) == b,
    decreases n,
{
    hide(toks_ok); hide(tok_chain);
    if n == 0 {
        assert(tok_concat(ts, 0) =~= b.subrange(0, 0));
        if ts.len() == 0 {
            assert(cs.len() == 0) by { reveal(tok_chain); }
            lemma_char_pos_mono(cs, 0, 0);
            assert(b =~= b.subrange(0, 0));
        }
    } else {
        lemma_tok_concat(ts, cs, b, ds, de, n - 1);
        lemma_tok_facts(ts, cs, b, ds, de, n - 1);
        let t = ts[n - 1];
        let prev_end: int = if n == 1 { 0 } else { ts[n - 2].byte_end as int };
        assert(tok_concat(ts, n - 1) == b.subrange(0, prev_end));
        assert(prev_end == t.byte_start);
        assert(tok_concat(ts, n) == tok_concat(ts, n - 1) + t.value.spec_bytes());
        assert(b.subrange(0, t.byte_start as int) + b.subrange(t.byte_start as int, t.byte_end as int) =~= b.subrange(0, t.byte_end as int));
        if n == ts.len() {
            assert(b.subrange(0, b.len() as int) =~= b);
        }
    }
}
