//@unit element_parser
// L10: element_parser::parse — the attribute state machine, mirrored on the OFFSETS it slices at.
// The text of names/values is tied to these offsets through the assumed std contract of str slicing (rule R14,
// prelude `str_slice` / `str_slice_from`): `element_ok`.
//@include types.vs

pub mod ep {
use super::*;
use crate::tokenizer;
use crate::element_parser::{Element, Attribute};

//@include ep_vocab.vs
pub proof fn lemma_pscan_step(cs: Seq<char>, n: int)
    requires 0 <= n,
    ensures pscan(cs, n + 1) == pstep(pscan(cs, n).0, pscan(cs, n).1, char_byte_pos(cs, n), cs[n]),
        pscan(cs, 0) == (PState::NameBegin, Seq::<POff>::empty()),
{}
/// an ASCII character occupies one byte
pub proof fn lemma_ascii_char_one_byte(cs: Seq<char>, n: int)
    requires 0 <= n < cs.len(), (cs[n] as u32) < 0x80,
    ensures char_byte_pos(cs, n + 1) == char_byte_pos(cs, n) + 1,
{
    assert(cs.take(n + 1) =~= cs.take(n) + seq![cs[n]]);
    encode_utf8_concat(cs.take(n), seq![cs[n]]);
    reveal_with_fuel(encode_utf8, 3);
    assert(seq![cs[n]].drop_first() =~= Seq::<char>::empty());
}

//@fn id=element_parse file=element_parser.rs name=parse props=C01,C06,C09
//@ret r
//@ensures label=parse_decision props=C01,C09
    !(token.kind is Element) ==> r is None,
    token.kind is Element ==> (r is Some <==> parse_ok(target_of(*token))),
    token.kind is Element && r is Some ==> r->0.attrs@.len() == pfinal(target_of(*token)).1.len() - 1,
//@ensures label=parse_slices_are_the_machine_ranges props=C09
    token.kind is Element && r is Some ==> element_ok(r->0, pfinal(target_of(*token)).1, encode_utf8(target_of(*token))),
//@ensures label=parse_name_is_the_first_range props=C09,C10
    (r is Some) == (ep_name(*token) is Some),
    r matches Some(e) ==> e.name@ == ep_name(*token)->0,
//@strslice target
//@hoist State
//@fold 1 type="(Vec<(&str, Option<&str>)>, State)"
//@mapcollect 1 type="Vec<Attribute>"
//@desugar-for 1
//@loop 1
//@invariant_except_break
    it_ok(__it1),
    0 <= __n <= target@.len(),
    target.spec_bytes() == encode_utf8(target@),
    target.spec_bytes().len() <= isize::MAX,
    it_rem(__it1) =~= char_index_seq(target@).skip(__n),
    (psv(__acc1.1), __offs) == pscan(target@, __n),
    __acc1.0@.len() == __offs.len(),
    pairs_ok(__acc1.0@, __offs, target.spec_bytes()),
    pstate_wf(psv(__acc1.1), __offs, target@, __n),
//@loop-ensures
    target.spec_bytes() == encode_utf8(target@),
    (psv(__acc1.1), __offs) == pscan(target@, target@.len() as int),
    __acc1.0@.len() == __offs.len(),
    pairs_ok(__acc1.0@, __offs, target.spec_bytes()),
    pstate_wf(psv(__acc1.1), __offs, target@, target@.len() as int),
//@decreases
    IteratorSpec::decrease(&__it1)->0
//@loop 2 iter=it2
//@invariant
    __vM1@.len() == it2.index@,
    it2.seq() == pairs@.subrange(1, pairs@.len() as int).as_ref(),
    forall|i: int| 0 <= i < __vM1@.len() ==> attr_ok(#[trigger] __vM1@[i], __fo[i + 1], __tb),
    pairs_ok(pairs@, __fo, __tb),
    pairs@.len() >= 1,
//@at loop 2 start
    let ghost __k = it2.index@;
    let ghost __v0 = __vM1@;
    proof {
        assert(pairs@.len() >= 1);
        assert(pairs@.subrange(1, pairs@.len() as int).as_ref().len() == pairs@.len() - 1);
        assert(0 <= __k < it2.seq().len());
        assert(__xM1 == it2.seq()[__k]);
        assert(it2.seq()[__k] == pairs@.subrange(1, pairs@.len() as int).as_ref()[__k]);
        assert(*__xM1 == pairs@[__k + 1]);
        assert(pair_ok(pairs@[__k + 1], __fo[__k + 1], __tb));
    }
//@at loop 2 end
    proof {
        assert(__vM1@ =~= __v0.push(__vM1@[__k]));
        assert(attr_ok(__vM1@[__k], __fo[__k + 1], __tb));
    }
//@at before "Some(Element { name, attrs })"
    proof {
        reveal(ep_name);
        assert(name.spec_bytes() == encode_utf8(name@));
        encode_utf8_decode_utf8(name@);
    }
//@at body-start
    broadcast use {axiom_trim_start_str, axiom_trim_end_str};
    proof { reveal(ep_name); }
//@at before "let (mut pairs, last_state) ="
    let ghost mut __n: int = 0;
    let ghost mut __offs: Seq<POff> = Seq::empty();
//@at before "loop {"
    proof {
        axiom_str_len_isize(target);
        assert(char_index_seq(target@).skip(0) =~= char_index_seq(target@));
        lemma_pscan_step(target@, 0);
        lemma_char_pos_mono(target@, 0, 0);
    }
//@at loop 1 start
    let ghost __rest = it_rem(__it1);
    let ghost __o0 = __offs;
    let ghost __s0 = psv(__acc1.1);
//@at before "let (mut pairs, mut state) = __acc1;"
    proof {
        assert(__rest[0] == __x1);
        assert(__rest.drop_first() =~= char_index_seq(target@).skip(__n + 1));
        lemma_pscan_step(target@, __n);
        lemma_char_pos_mono(target@, __n, target@.len() as int);
        lemma_char_pos_mono(target@, __n, __n + 1);
        lemma_char_pos_boundary(target@, __n);
        lemma_char_pos_boundary(target@, __n + 1);
        if (target@[__n] as u32) < 0x80 { lemma_ascii_char_one_byte(target@, __n); }
        lemma_state_pos(psv(__acc1.1), __offs, target@, __n);
    }
//@at before "pairs.push((" 1
    proof { __offs = __offs.push(POff { ns: start as int, ne: pos as int, val: None }); }
//@at before "pairs.push((" 2
    proof { __offs = __offs.push(POff { ns: start as int, ne: pos as int, val: None }); }
//@at before "pairs.last_mut().unwrap().1 = Some(" 1
    proof { __offs = set_last_val(__offs, start as int, pos as int); }
//@at before "pairs.last_mut().unwrap().1 = Some(" 2
    proof { __offs = set_last_val(__offs, start as int, pos as int); }
//@at before "(pairs, state)"
    proof {
        lemma_pstate_wf_step(__s0, __o0, target@, __n);
        __n = __n + 1;
    }
//@at before "if let State::Name(start) = last_state {"
    proof {
        lemma_char_pos_mono(target@, 0, target@.len() as int);
        lemma_state_pos(psv(last_state), __offs, target@, target@.len() as int);
    }
//@at before "if last_state == State::ParseError"
    let ghost __fo = pfinal(target_of(*token)).1;
    let ghost __tb = encode_utf8(target_of(*token));
//@at before "(pairs, last_state)" 2
    proof {
        assert(target@ == target_of(*token));
        assert(__offs == pfinal(target@).1);
        assert(pairs_ok(pairs@, pfinal(target_of(*token)).1, encode_utf8(target_of(*token))));
    }
//@at before "pairs.push((" 3
    proof {
        lemma_char_pos_boundary(target@, target@.len() as int);
        assert(psv(last_state) == PState::Name(start as int));
        assert(start <= target.spec_bytes().len());
        assert(cb(target.spec_bytes(), start as int));
        __offs = __offs.push(POff { ns: start as int, ne: target.spec_bytes().len() as int, val: None });
    }
//@end

//@include grammar_vocab.vs

/// mirror of the hoisted local enum
pub open spec fn psv(s: State) -> PState {
    match s {
        State::NameBegin => PState::NameBegin,
        State::Name(p) => PState::Name(p as int),
        State::NameEnd => PState::NameEnd,
        State::ValueBegin => PState::ValueBegin,
        State::ValueWithNoQuote => PState::ValueWithNoQuote,
        State::ValueWithDoubleQuote(p) => PState::ValueWithDoubleQuote(p as int),
        State::ValueWithSingleQuote(p) => PState::ValueWithSingleQuote(p as int),
        State::ParseError => PState::ParseError,
    }
}
/// offsets stored in the state are byte offsets of characters already seen; value states have a pair to fill in
pub open spec fn pstate_wf(st: PState, offs: Seq<POff>, cs: Seq<char>, n: int) -> bool {
    match st {
        PState::Name(s) => exists|k: int| 0 <= k < n && s == char_byte_pos(cs, k),
        PState::ValueWithDoubleQuote(s) => offs.len() > 0 && exists|k: int| 0 <= k <= n && s == char_byte_pos(cs, k),
        PState::ValueWithSingleQuote(s) => offs.len() > 0 && exists|k: int| 0 <= k <= n && s == char_byte_pos(cs, k),
        PState::ValueBegin => offs.len() > 0,
        PState::NameEnd => offs.len() > 0,
        _ => true,
    }
}
pub proof fn lemma_state_pos(st: PState, offs: Seq<POff>, cs: Seq<char>, n: int)
    requires pstate_wf(st, offs, cs, n), 0 <= n <= cs.len(),
    ensures
        st matches PState::Name(s) ==> 0 <= s <= char_byte_pos(cs, n) && cb(encode_utf8(cs), s),
        st matches PState::ValueWithDoubleQuote(s) ==> 0 <= s <= char_byte_pos(cs, n) && cb(encode_utf8(cs), s),
        st matches PState::ValueWithSingleQuote(s) ==> 0 <= s <= char_byte_pos(cs, n) && cb(encode_utf8(cs), s),
{
    match st {
        PState::Name(s) => {
            let k = choose|k: int| 0 <= k < n && s == char_byte_pos(cs, k);
            lemma_char_pos_boundary(cs, k); lemma_char_pos_mono(cs, k, n);
        },
        PState::ValueWithDoubleQuote(s) => {
            let k = choose|k: int| 0 <= k <= n && s == char_byte_pos(cs, k);
            lemma_char_pos_boundary(cs, k); lemma_char_pos_mono(cs, k, n);
        },
        PState::ValueWithSingleQuote(s) => {
            let k = choose|k: int| 0 <= k <= n && s == char_byte_pos(cs, k);
            lemma_char_pos_boundary(cs, k); lemma_char_pos_mono(cs, k, n);
        },
        _ => {},
    }
}
pub proof fn lemma_pstate_wf_step(st: PState, offs: Seq<POff>, cs: Seq<char>, n: int)
    requires pstate_wf(st, offs, cs, n), 0 <= n < cs.len(),
    ensures pstate_wf(pstep(st, offs, char_byte_pos(cs, n), cs[n]).0, pstep(st, offs, char_byte_pos(cs, n), cs[n]).1, cs, n + 1),
{
    let c = cs[n];
    let pos = char_byte_pos(cs, n);
    let r = pstep(st, offs, pos, c);
    if c == '"' || c == '\'' { lemma_ascii_char_one_byte(cs, n); }
    match r.0 {
        PState::Name(s) => {
            if st is Name && st->Name_0 == s {
                let k = choose|k: int| 0 <= k < n && s == char_byte_pos(cs, k);
                assert(0 <= k < n + 1 && s == char_byte_pos(cs, k));
            } else {
                assert(0 <= n < n + 1 && s == char_byte_pos(cs, n));
            }
        },
        PState::ValueWithDoubleQuote(s) => {
            if st is ValueWithDoubleQuote {
                let k = choose|k: int| 0 <= k <= n && s == char_byte_pos(cs, k);
                assert(0 <= k <= n + 1 && s == char_byte_pos(cs, k));
            } else {
                assert(0 <= n + 1 <= n + 1 && s == char_byte_pos(cs, n + 1));
            }
        },
        PState::ValueWithSingleQuote(s) => {
            if st is ValueWithSingleQuote {
                let k = choose|k: int| 0 <= k <= n && s == char_byte_pos(cs, k);
                assert(0 <= k <= n + 1 && s == char_byte_pos(cs, k));
            } else {
                assert(0 <= n + 1 <= n + 1 && s == char_byte_pos(cs, n + 1));
            }
        },
        _ => {},
    }
}
impl vstd::std_specs::cmp::PartialEqSpecImpl for State {
    open spec fn obeys_eq_spec() -> bool { true }
    open spec fn eq_spec(&self, other: &Self) -> bool { psv(*self) == psv(*other) }
}
impl PartialEq for State {
    #[verifier::external_body]
    fn eq(&self, other: &Self) -> (r: bool) { unimplemented!() }
}

} // mod ep
