// ---- vocabulary over the range forest and the marker list (inside `mod remover`) ----
/// ghost mirror of RemovalRangeTree (Seq instead of Vec)
pub struct GTree { pub range: RemovableRange, pub children: Seq<GTree> }
pub open spec fn vt(t: RemovalRangeTree) -> GTree
    decreases t,
{
    GTree { range: t.range, children: Seq::new(t.children@.len(), |i: int| if 0 <= i < t.children@.len() { vt(t.children@[i]) } else { arbitrary() }) }
}
pub open spec fn vf(f: Seq<RemovalRangeTree>) -> Seq<GTree> { Seq::new(f.len(), |i: int| vt(f[i])) }
pub proof fn lemma_vf_push(f: Seq<RemovalRangeTree>, t: RemovalRangeTree)
    ensures vf(f.push(t)) == vf(f).push(vt(t)),
{ assert(vf(f.push(t)) =~= vf(f).push(vt(t))); }
pub proof fn lemma_vf_add(f: Seq<RemovalRangeTree>, g: Seq<RemovalRangeTree>)
    ensures vf(f + g) == vf(f) + vf(g),
{ assert(vf(f + g) =~= vf(f) + vf(g)); }
pub proof fn lemma_vt_children(t: RemovalRangeTree)
    ensures vt(t).children == vf(t.children@), vt(t).range == t.range,
{ assert(vt(t).children =~= vf(t.children@)); }

pub open spec fn node_lo(t: GTree) -> int { t.range.0.start as int }
pub open spec fn node_hi(t: GTree) -> int {
    match t.range.1 { Some(e) => e.end as int, None => t.range.0.end as int }
}
pub open spec fn node_ranges_ok(t: GTree) -> bool {
    &&& t.range.0.start < t.range.0.end
    &&& match t.range.1 { Some(e) => t.range.0.end <= e.start && e.start <= e.end, None => true }
}
/// forest strictly inside (lo, hi): siblings ascending and disjoint, every node's children strictly inside its extent
pub open spec fn wf_forest(f: Seq<GTree>, lo: int, hi: int) -> bool
    decreases f,
{
    &&& forall|i: int| 0 <= i < f.len() ==> lo < node_lo(#[trigger] f[i]) && node_hi(f[i]) < hi && node_ranges_ok(f[i])
    &&& forall|i: int| 0 <= i < f.len() ==> wf_forest((#[trigger] f[i]).children, node_lo(f[i]), node_hi(f[i]))
    &&& forall|i: int, j: int| 0 <= i < j < f.len() ==> node_hi(#[trigger] f[i]) <= node_lo(#[trigger] f[j])
}
pub open spec fn rcontains_i(m: Range<usize>, p: int) -> bool { m.start <= p < m.end }
pub open spec fn node_self_covered(t: GTree, p: int) -> bool {
    rcontains_i(t.range.0, p) || (t.range.1 matches Some(e) && rcontains_i(e, p))
}
/// byte p lies in the head or tail range of some node of the forest (any depth)
pub open spec fn forest_covered(f: Seq<GTree>, p: int) -> bool
    decreases f,
{
    exists|i: int| 0 <= i < f.len() && (node_self_covered(#[trigger] f[i], p) || forest_covered(f[i].children, p))
}
pub open spec fn node_self_endpoint(t: GTree, x: usize) -> bool {
    t.range.0.start == x || t.range.0.end == x || (t.range.1 matches Some(e) && (e.start == x || e.end == x))
}
/// x is the start or end of the head or tail range of some node of the forest
pub open spec fn forest_endpoint(f: Seq<GTree>, x: usize) -> bool
    decreases f,
{
    exists|i: int| 0 <= i < f.len() && (node_self_endpoint(#[trigger] f[i], x) || forest_endpoint(f[i].children, x))
}

pub open spec fn markers_sorted(m: Seq<RemoveMarker>) -> bool {
    &&& forall|i: int| 0 <= i < m.len() ==> (#[trigger] m[i]).0.start <= m[i].0.end
    &&& forall|i: int, j: int| 0 <= i < j < m.len() ==> (#[trigger] m[i]).0.end <= (#[trigger] m[j]).0.start
}
pub open spec fn markers_covered(m: Seq<RemoveMarker>, p: int) -> bool {
    exists|i: int| 0 <= i < m.len() && (#[trigger] m[i]).0.start <= p < m[i].0.end
}
pub open spec fn pairs_consistent(m: Seq<RemoveMarker>) -> bool {
    forall|i: int| 0 <= i < m.len() ==> ((#[trigger] m[i]).1 matches Some(j) ==> j < m.len() && j != i && m[j as int].1 == Some(i as usize))
}
/// what merge_markers promises about its result for the forest f
pub open spec fn mm_post(f: Seq<GTree>, out: Seq<RemoveMarker>) -> bool {
    &&& markers_sorted(out)
    &&& (f.len() == 0 <==> out.len() == 0)
    &&& forall|i: int| 0 <= i < out.len() ==> f.len() > 0 && node_lo(f[0]) <= (#[trigger] out[i]).0.start && out[i].0.end <= node_hi(f[f.len() - 1])
    &&& forall|p: int| #[trigger] markers_covered(out, p) <==> forest_covered(f, p)
    &&& forall|i: int| 0 <= i < out.len() ==> forest_endpoint(f, (#[trigger] out[i]).0.start) && forest_endpoint(f, out[i].0.end)
    &&& pairs_consistent(out)
}

// ---- merge_markers as a spec function (mirrors the fold; built on mcm) ----
pub open spec fn rebased(cm: Seq<RemoveMarker>, sc: int, ec: int, cur: int) -> Seq<RemoveMarker> {
    Seq::new((ec - sc) as nat, |k: int| (cm[sc + k].0, match cm[sc + k].1 {
        Some(p) => if sc <= p < ec { Some((p - sc + cur + 1) as usize) } else { None },
        None => None,
    }))
}
/// the markers produced for one tree, given the merged markers `cm` of its children; `cur` = index of the first one
pub open spec fn tree_markers(t: GTree, cm: Seq<RemoveMarker>, cur: int) -> Seq<RemoveMarker> {
    let cr = marker_ranges(cm);
    let a = mcm(cr, t.range.0);
    match t.range.1 {
        Some(tail) => {
            let b = mcm(cr.reverse(), tail);
            let ec = cm.len() - b.0;
            if a.0 > ec {
                seq![(Range { start: a.1.start, end: b.1.end }, None::<usize>)]
            } else {
                seq![(a.1, Some((cur + (ec - a.0) + 1) as usize))] + rebased(cm, a.0, ec, cur) + seq![(b.1, Some(cur as usize))]
            }
        },
        None => seq![(a.1, None::<usize>)],
    }
}
pub open spec fn mm_spec(f: Seq<GTree>) -> Seq<RemoveMarker>
    decreases f,
{
    if f.len() == 0 { Seq::empty() } else {
        let prev = mm_spec(f.drop_last());
        prev + tree_markers(f.last(), mm_spec(f.last().children), prev.len() as int)
    }
}
/// number of nodes of the forest
pub open spec fn forest_size(f: Seq<GTree>) -> nat
    decreases f,
{
    if f.len() == 0 { 0 } else { forest_size(f.drop_last()) + 1 + forest_size(f.last().children) }
}
pub proof fn lemma_mcm_bounds(s: Seq<Range<usize>>, m: Range<usize>)
    ensures 0 <= mcm(s, m).0 <= s.len(),
    decreases s.len(),
{
    if s.len() > 0 && touches(m, s[0]) { lemma_mcm_bounds(s.drop_first(), hull(m, s[0])); }
}
pub proof fn lemma_mm_len(f: Seq<GTree>)
    ensures mm_spec(f).len() <= 2 * forest_size(f), f.len() > 0 ==> mm_spec(f).len() > 0,
    decreases f,
{
    if f.len() > 0 {
        lemma_mm_len(f.drop_last());
        lemma_mm_len(f.last().children);
        let cm = mm_spec(f.last().children);
        lemma_mcm_bounds(marker_ranges(cm), f.last().range.0);
        if f.last().range.1 is Some { lemma_mcm_bounds(marker_ranges(cm).reverse(), f.last().range.1->0); }
    }
}
