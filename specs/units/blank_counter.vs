//@unit blank_counter
// code/utils/blank_counter.rs: the two character counters used by the (unverified) list renderer.

/// occurrences of c among the first n characters
pub open spec fn count_char(cs: Seq<char>, c: char, n: int) -> int
    decreases n,
{
    if n <= 0 { 0 } else { count_char(cs, c, n - 1) + (if cs[n - 1] == c { 1int } else { 0int }) }
}
pub proof fn lemma_count_le(cs: Seq<char>, c: char, n: int)
    requires 0 <= n,
    ensures 0 <= count_char(cs, c, n) <= n,
    decreases n,
{
    if n > 0 { lemma_count_le(cs, c, n - 1); }
}

//@fn id=count_blank file=code/utils/blank_counter.rs name=count props=C01
//@ret r
//@ensures label=count_exact props=C01
    r as int == count_char(s@, ' ', s@.len() as int),
//@fold 1 type="usize"
//@desugar-for 1
//@loop 1
//@invariant_except_break
    it_ok(__it1),
    0 <= __n <= s@.len(),
    it_rem(__it1) =~= s@.skip(__n),
    __acc1 as int == count_char(s@, ' ', __n),
//@loop-ensures
    __acc1 as int == count_char(s@, ' ', s@.len() as int),
//@decreases
    IteratorSpec::decrease(&__it1)->0
//@at before "loop {"
    let ghost mut __n: int = 0;
    proof { assert(s@.skip(0) =~= s@); }
//@at loop 1 start
    let ghost __rest = it_rem(__it1);
    proof { lemma_count_le(s@, ' ', __n); axiom_str_len_isize(s); lemma_chars_le_bytes(s@, s@.len() as int); lemma_char_pos_mono(s@, 0, s@.len() as int); }
//@at before "let v = __x1;"
    proof {
        assert(__rest[0] == __x1);
        assert(__x1 == s@[__n]);
        assert(__rest.drop_first() =~= s@.skip(__n + 1));
        __n = __n + 1;
    }
//@end

//@fn id=count_tabspace file=code/utils/blank_counter.rs name=count_tabspace props=C01
//@ret r
//@ensures label=count_tab_exact props=C01
    r as int == count_char(s@, '\t', s@.len() as int),
//@fold 1 type="usize"
//@desugar-for 1
//@loop 1
//@invariant_except_break
    it_ok(__it1),
    0 <= __n <= s@.len(),
    it_rem(__it1) =~= s@.skip(__n),
    __acc1 as int == count_char(s@, '\t', __n),
//@loop-ensures
    __acc1 as int == count_char(s@, '\t', s@.len() as int),
//@decreases
    IteratorSpec::decrease(&__it1)->0
//@at before "loop {"
    let ghost mut __n: int = 0;
    proof { assert(s@.skip(0) =~= s@); }
//@at loop 1 start
    let ghost __rest = it_rem(__it1);
    proof { lemma_count_le(s@, '\t', __n); axiom_str_len_isize(s); lemma_chars_le_bytes(s@, s@.len() as int); lemma_char_pos_mono(s@, 0, s@.len() as int); }
//@at before "let v = __x1;"
    proof {
        assert(__rest[0] == __x1);
        assert(__x1 == s@[__n]);
        assert(__rest.drop_first() =~= s@.skip(__n + 1));
        __n = __n + 1;
    }
//@end
