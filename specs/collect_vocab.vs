// ---- vocabulary for collect_removable_ranges (inside `mod remover`, after Remover and remover_vocab) ----
pub open spec fn is_skip_spec(el: crate::element_parser::Element) -> bool { has_attr(el.attrs@, "skip"@) }

pub open spec fn status_after_eval(r: Remover, el: crate::parser::Element, ready: bool, pending: bool) -> Option<(RemovableRange, bool)> {
    if !ready && !pending { None } else {
        match create_spec(r.remove_strategies@, el) { Some(rng) => Some((rng, ready)), None => None }
    }
}
pub open spec fn filter_empty(x: Option<(RemovableRange, bool)>) -> Option<(RemovableRange, bool)> {
    match x { Some(st) => if st.0.0.start < st.0.0.end { Some(st) } else { None }, None => None }
}
/// what collect_removable_ranges decides for ONE element: Some((extent, is_ready)) or None.
/// skip wins; the tag name must be registered; a condition that does not hold gives a pending entry only when
/// pending entries are collected; an empty extent (unwrap-block that cannot be unwrapped) gives nothing.
pub open spec fn elem_status(r: Remover, el: crate::parser::Element, pending: bool) -> Option<(RemovableRange, bool)> {
    if is_skip_spec(el.start_element) { None } else {
        match str_lookup(r.removal_evaluators@, el.start_element.name@) {
            None => None,
            Some(ev) => filter_empty(status_after_eval(r, el, ev.spec_is_removal(el.start_element), pending)),
        }
    }
}

pub open spec fn part_lo(c: crate::parser::ContentPart) -> int {
    match c { crate::parser::ContentPart::Element(el) => el.start_token.byte_start as int, crate::parser::ContentPart::Text(t) => t.token.byte_start as int }
}
pub open spec fn part_hi(c: crate::parser::ContentPart) -> int {
    match c { crate::parser::ContentPart::Element(el) => el.end_token.byte_end as int, crate::parser::ContentPart::Text(t) => t.token.byte_end as int }
}
/// the shape parser::parse promises (ASSUMED, C10 is not decided): parts lie in [a, b], in order, elements
/// have non-empty ordered tags and their children lie between the tags
pub open spec fn parts_wf(parts: Seq<crate::parser::ContentPart>, a: int, b: int) -> bool
    decreases parts,
{
    &&& forall|i: int| 0 <= i < parts.len() ==> a <= part_lo(#[trigger] parts[i]) <= part_hi(parts[i]) <= b
    &&& forall|i: int, j: int| 0 <= i < j < parts.len() ==> part_hi(#[trigger] parts[i]) <= part_lo(#[trigger] parts[j])
    &&& forall|i: int| 0 <= i < parts.len() ==> (#[trigger] parts[i] matches crate::parser::ContentPart::Element(el) ==>
            el_wf(el) && parts_wf(el.children@, el.start_token.byte_end as int, el.end_token.byte_start as int))
}

/// byte p lies in the removable extent of an element (any depth) whose status is Some((_, want_ready))
pub open spec fn parts_covered(r: Remover, parts: Seq<crate::parser::ContentPart>, pending: bool, want_ready: bool, p: int) -> bool
    decreases parts,
{
    exists|i: int| 0 <= i < parts.len() && (#[trigger] parts[i] matches crate::parser::ContentPart::Element(el) && (
        (elem_status(r, el, pending) matches Some(st) && st.1 == want_ready
            && (rcontains_i(st.0.0, p) || (st.0.1 matches Some(e) && rcontains_i(e, p))))
        || parts_covered(r, el.children@, pending, want_ready, p)))
}

/// every element (any depth) has non-empty, ordered tags
pub open spec fn all_el_wf(parts: Seq<crate::parser::ContentPart>) -> bool
    decreases parts,
{
    forall|i: int| 0 <= i < parts.len() ==> (#[trigger] parts[i] matches crate::parser::ContentPart::Element(el) ==> el_wf(el) && all_el_wf(el.children@))
}

/// the two forests collect_removable_ranges builds, as a spec function that mirrors the fold
pub open spec fn collect_spec(r: Remover, parts: Seq<crate::parser::ContentPart>, pending: bool) -> (Seq<GTree>, Seq<GTree>)
    decreases parts,
{
    if parts.len() == 0 { (Seq::empty(), Seq::empty()) } else {
        let prev = collect_spec(r, parts.drop_last(), pending);
        match parts.last() {
            crate::parser::ContentPart::Text(_) => prev,
            crate::parser::ContentPart::Element(el) => {
                let ch = collect_spec(r, el.children@, pending);
                match elem_status(r, el, pending) {
                    Some(st) => if st.1 {
                        (prev.0.push(GTree { range: st.0, children: ch.0 }), prev.1 + ch.1)
                    } else {
                        (prev.0 + ch.0, prev.1.push(GTree { range: st.0, children: ch.1 }))
                    },
                    None => (prev.0 + ch.0, prev.1 + ch.1),
                }
            },
        }
    }
}

// ---- well-formedness of the forests collect_spec builds ----
/// every strategy's builder keeps its structural promise on well-formed elements (established for the two concrete
/// builders in the glue unit; for `dyn` builders it is the trait contract of MarkerBuilder::build lifted to spec_build)
pub open spec fn strategies_ok(s: Seq<(Box<dyn crate::availability::MarkerAvailability>, Box<dyn crate::builder::MarkerBuilder>)>) -> bool {
    forall|i: int, el: crate::parser::Element| 0 <= i < s.len() && el_wf(el) ==> builder_ok(el, #[trigger] s[i].1.spec_build(el))
}
pub proof fn lemma_create_spec_ok(s: Seq<(Box<dyn crate::availability::MarkerAvailability>, Box<dyn crate::builder::MarkerBuilder>)>, el: crate::parser::Element)
    requires strategies_ok(s), el_wf(el),
    ensures create_spec(s, el) matches Some(x) ==> builder_ok(el, x),
{
    if exists|i: int| crate::factory::first_available(s, el, i) {
        let i = choose|i: int| crate::factory::first_available(s, el, i);
        assert(builder_ok(el, s[i].1.spec_build(el)));
    }
}
pub proof fn lemma_wf_forest_weaken(f: Seq<GTree>, lo: int, hi: int, lo2: int, hi2: int)
    requires wf_forest(f, lo, hi), lo2 <= lo, hi <= hi2,
    ensures wf_forest(f, lo2, hi2),
{}
/// two forests side by side
pub proof fn lemma_wf_forest_add(f: Seq<GTree>, g: Seq<GTree>, lo: int, mid: int, hi: int)
    requires wf_forest(f, lo, mid + 1), wf_forest(g, mid - 1, hi), lo < mid < hi,
    ensures wf_forest(f + g, lo, hi),
{
    let r = f + g;
    assert forall|i: int| 0 <= i < r.len() implies lo < node_lo(#[trigger] r[i]) && node_hi(r[i]) < hi && node_ranges_ok(r[i])
        && wf_forest(r[i].children, node_lo(r[i]), node_hi(r[i])) by {
        if i < f.len() { assert(r[i] == f[i]); } else { assert(r[i] == g[i - f.len()]); }
    }
    assert forall|i: int, j: int| 0 <= i < j < r.len() implies node_hi(#[trigger] r[i]) <= node_lo(#[trigger] r[j]) by {
        if j < f.len() { assert(r[i] == f[i] && r[j] == f[j]); }
        else if i >= f.len() { assert(r[i] == g[i - f.len()] && r[j] == g[j - f.len()]); }
        else { assert(r[i] == f[i] && r[j] == g[j - f.len()]); }
    }
}
pub proof fn lemma_wf_forest_push(f: Seq<GTree>, t: GTree, lo: int, mid: int, hi: int)
    requires wf_forest(f, lo, mid + 1), mid <= node_lo(t), lo < node_lo(t), node_hi(t) < hi, node_ranges_ok(t), wf_forest(t.children, node_lo(t), node_hi(t)),
    ensures wf_forest(f.push(t), lo, hi),
{
    let r = f.push(t);
    assert forall|i: int| 0 <= i < r.len() implies lo < node_lo(#[trigger] r[i]) && node_hi(r[i]) < hi && node_ranges_ok(r[i])
        && wf_forest(r[i].children, node_lo(r[i]), node_hi(r[i])) by {
        if i < f.len() { assert(r[i] == f[i]); }
    }
    assert forall|i: int, j: int| 0 <= i < j < r.len() implies node_hi(#[trigger] r[i]) <= node_lo(#[trigger] r[j]) by {
        if j < f.len() { assert(r[i] == f[i] && r[j] == f[j]); } else { assert(r[i] == f[i]); }
    }
}
pub proof fn lemma_parts_wf_prefix(parts: Seq<crate::parser::ContentPart>, a: int, b: int)
    requires parts_wf(parts, a, b), parts.len() > 0,
    ensures parts_wf(parts.drop_last(), a, if parts.len() > 1 { part_hi(parts[parts.len() - 2]) } else { a }),
        (if parts.len() > 1 { part_hi(parts[parts.len() - 2]) } else { a }) <= part_lo(parts.last()),
        a <= (if parts.len() > 1 { part_hi(parts[parts.len() - 2]) } else { a }),
{
    let g = parts.drop_last();
    let n = parts.len() as int;
    let m = if n > 1 { part_hi(parts[n - 2]) } else { a };
    assert forall|i: int| 0 <= i < g.len() implies a <= part_lo(#[trigger] g[i]) <= part_hi(g[i]) <= m by {
        assert(g[i] == parts[i]);
        if i < n - 2 { assert(part_hi(parts[i]) <= part_lo(parts[n - 2])); }
    }
    assert forall|i: int, j: int| 0 <= i < j < g.len() implies part_hi(#[trigger] g[i]) <= part_lo(#[trigger] g[j]) by { assert(g[i] == parts[i] && g[j] == parts[j]); }
    assert forall|i: int| 0 <= i < g.len() implies (#[trigger] g[i] matches crate::parser::ContentPart::Element(el) ==>
            el_wf(el) && parts_wf(el.children@, el.start_token.byte_end as int, el.end_token.byte_start as int)) by { assert(g[i] == parts[i]); }
    if n > 1 { assert(part_hi(parts[n - 2]) <= part_lo(parts[n - 1])); }
}

/// both forests of collect_spec lie in [a, b] and are well formed when the parts are (the parser contract) and the
/// strategies keep their promise
pub proof fn lemma_collect_wf(r: Remover, parts: Seq<crate::parser::ContentPart>, pending: bool, a: int, b: int)
    requires parts_wf(parts, a, b), a <= b, strategies_ok(r.remove_strategies@),
    ensures wf_forest(collect_spec(r, parts, pending).0, a - 1, b + 1), wf_forest(collect_spec(r, parts, pending).1, a - 1, b + 1),
    decreases parts,
{
    if parts.len() > 0 {
        let n = parts.len() as int;
        let g = parts.drop_last();
        let m = if n > 1 { part_hi(parts[n - 2]) } else { a };
        lemma_parts_wf_prefix(parts, a, b);
        lemma_collect_wf(r, g, pending, a, m);
        let prev = collect_spec(r, g, pending);
        assert(parts.last() == parts[n - 1]);
        match parts.last() {
            crate::parser::ContentPart::Text(_) => {
                lemma_wf_forest_weaken(prev.0, a - 1, m + 1, a - 1, b + 1);
                lemma_wf_forest_weaken(prev.1, a - 1, m + 1, a - 1, b + 1);
            },
            crate::parser::ContentPart::Element(el) => {
                let ts = el.start_token.byte_start as int; let te = el.start_token.byte_end as int;
                let es = el.end_token.byte_start as int; let ee = el.end_token.byte_end as int;
                assert(el_wf(el) && parts_wf(el.children@, te, es));
                assert(m <= ts && ee <= b);
                lemma_collect_wf(r, el.children@, pending, te, es);
                let ch = collect_spec(r, el.children@, pending);
                match elem_status(r, el, pending) {
                    Some(st) => {
                        lemma_create_spec_ok(r.remove_strategies@, el);
                        let t = GTree { range: st.0, children: if st.1 { ch.0 } else { ch.1 } };
                        assert(builder_ok(el, st.0));
                        assert(node_lo(t) == ts && node_hi(t) == ee && node_ranges_ok(t));
                        if st.1 {
                            lemma_wf_forest_weaken(ch.0, te - 1, es + 1, ts, ee);
                            lemma_wf_forest_push(prev.0, t, a - 1, m, b + 1);
                            lemma_wf_forest_weaken(ch.1, te - 1, es + 1, m - 1, b + 1);
                            lemma_wf_forest_add(prev.1, ch.1, a - 1, m, b + 1);
                        } else {
                            lemma_wf_forest_weaken(ch.1, te - 1, es + 1, ts, ee);
                            lemma_wf_forest_push(prev.1, t, a - 1, m, b + 1);
                            lemma_wf_forest_weaken(ch.0, te - 1, es + 1, m - 1, b + 1);
                            lemma_wf_forest_add(prev.0, ch.0, a - 1, m, b + 1);
                        }
                    },
                    None => {
                        lemma_wf_forest_weaken(ch.0, te - 1, es + 1, m - 1, b + 1);
                        lemma_wf_forest_add(prev.0, ch.0, a - 1, m, b + 1);
                        lemma_wf_forest_weaken(ch.1, te - 1, es + 1, m - 1, b + 1);
                        lemma_wf_forest_add(prev.1, ch.1, a - 1, m, b + 1);
                    },
                }
            },
        }
    }
}

// ---- endpoints of the forests are character boundaries of the content ----
pub open spec fn pos_ok(b: Seq<u8>, x: usize) -> bool { x <= b.len() && cb(b, x as int) }
pub open spec fn el_on_b(el: crate::parser::Element, b: Seq<u8>) -> bool {
    pos_ok(b, el.start_token.byte_start) && pos_ok(b, el.start_token.byte_end) && pos_ok(b, el.end_token.byte_start) && pos_ok(b, el.end_token.byte_end)
}
pub open spec fn parts_on_b(parts: Seq<crate::parser::ContentPart>, b: Seq<u8>) -> bool
    decreases parts,
{
    forall|i: int| 0 <= i < parts.len() ==> (#[trigger] parts[i] matches crate::parser::ContentPart::Element(el) ==> el_on_b(el, b) && parts_on_b(el.children@, b))
}
pub open spec fn range_on_b(rng: RemovableRange, b: Seq<u8>) -> bool {
    pos_ok(b, rng.0.start) && pos_ok(b, rng.0.end) && (rng.1 matches Some(e) ==> pos_ok(b, e.start) && pos_ok(b, e.end))
}
pub open spec fn strategies_bounded(s: Seq<(Box<dyn crate::availability::MarkerAvailability>, Box<dyn crate::builder::MarkerBuilder>)>, b: Seq<u8>) -> bool {
    forall|i: int, el: crate::parser::Element| 0 <= i < s.len() && el_wf(el) && el_on_b(el, b) ==> range_on_b(#[trigger] s[i].1.spec_build(el), b)
}
pub open spec fn forest_on_b(f: Seq<GTree>, b: Seq<u8>) -> bool {
    forall|x: usize| #[trigger] forest_endpoint(f, x) ==> pos_ok(b, x)
}
pub proof fn lemma_forest_on_b_add(f: Seq<GTree>, g: Seq<GTree>, b: Seq<u8>)
    requires forest_on_b(f, b), forest_on_b(g, b),
    ensures forest_on_b(f + g, b),
{
    let r = f + g;
    assert forall|x: usize| #[trigger] forest_endpoint(r, x) implies pos_ok(b, x) by {
        let i = choose|i: int| 0 <= i < r.len() && (node_self_endpoint(#[trigger] r[i], x) || forest_endpoint(r[i].children, x));
        if i < f.len() { assert(r[i] == f[i]); assert(forest_endpoint(f, x)); }
        else { assert(r[i] == g[i - f.len()]); assert(forest_endpoint(g, x)); }
    }
}
pub proof fn lemma_forest_on_b_push(f: Seq<GTree>, t: GTree, b: Seq<u8>)
    requires forest_on_b(f, b), range_on_b(t.range, b), forest_on_b(t.children, b),
    ensures forest_on_b(f.push(t), b),
{
    let r = f.push(t);
    assert forall|x: usize| #[trigger] forest_endpoint(r, x) implies pos_ok(b, x) by {
        let i = choose|i: int| 0 <= i < r.len() && (node_self_endpoint(#[trigger] r[i], x) || forest_endpoint(r[i].children, x));
        if i < f.len() { assert(r[i] == f[i]); assert(forest_endpoint(f, x)); }
        else { assert(r[i] == t); }
    }
}
pub proof fn lemma_collect_on_b(r: Remover, parts: Seq<crate::parser::ContentPart>, pending: bool, b: Seq<u8>)
    requires all_el_wf(parts), parts_on_b(parts, b), strategies_bounded(r.remove_strategies@, b),
    ensures forest_on_b(collect_spec(r, parts, pending).0, b), forest_on_b(collect_spec(r, parts, pending).1, b),
    decreases parts,
{
    if parts.len() > 0 {
        let n = parts.len() as int;
        let g = parts.drop_last();
        assert(all_el_wf(g) && parts_on_b(g, b)) by {
            assert forall|i: int| 0 <= i < g.len() implies (#[trigger] g[i] matches crate::parser::ContentPart::Element(el) ==> el_wf(el) && all_el_wf(el.children@) && el_on_b(el, b) && parts_on_b(el.children@, b)) by { assert(g[i] == parts[i]); }
        }
        lemma_collect_on_b(r, g, pending, b);
        let prev = collect_spec(r, g, pending);
        assert(parts.last() == parts[n - 1]);
        match parts.last() {
            crate::parser::ContentPart::Text(_) => {},
            crate::parser::ContentPart::Element(el) => {
                lemma_collect_on_b(r, el.children@, pending, b);
                let ch = collect_spec(r, el.children@, pending);
                match elem_status(r, el, pending) {
                    Some(st) => {
                        let s = r.remove_strategies@;
                        assert(range_on_b(st.0, b)) by {
                            let i = choose|i: int| crate::factory::first_available(s, el, i);
                            assert(range_on_b(s[i].1.spec_build(el), b));
                        }
                        if st.1 {
                            lemma_forest_on_b_push(prev.0, GTree { range: st.0, children: ch.0 }, b);
                            lemma_forest_on_b_add(prev.1, ch.1, b);
                        } else {
                            lemma_forest_on_b_push(prev.1, GTree { range: st.0, children: ch.1 }, b);
                            lemma_forest_on_b_add(prev.0, ch.0, b);
                        }
                    },
                    None => {
                        lemma_forest_on_b_add(prev.0, ch.0, b);
                        lemma_forest_on_b_add(prev.1, ch.1, b);
                    },
                }
            },
        }
    } else {
        assert forall|x: usize| !forest_endpoint(Seq::<GTree>::empty(), x) by {}
    }
}

// ---- size of the forests ----
pub open spec fn count_elements(parts: Seq<crate::parser::ContentPart>) -> nat
    decreases parts,
{
    if parts.len() == 0 { 0 } else {
        count_elements(parts.drop_last()) + (match parts.last() { crate::parser::ContentPart::Element(el) => 1 + count_elements(el.children@), _ => 0 })
    }
}
pub proof fn lemma_forest_size_add(f: Seq<GTree>, g: Seq<GTree>)
    ensures forest_size(f + g) == forest_size(f) + forest_size(g),
    decreases g.len(),
{
    if g.len() == 0 { assert(f + g =~= f); }
    else {
        assert((f + g).drop_last() =~= f + g.drop_last());
        assert((f + g).last() == g.last());
        lemma_forest_size_add(f, g.drop_last());
    }
}
pub proof fn lemma_forest_size_push(f: Seq<GTree>, t: GTree)
    ensures forest_size(f.push(t)) == forest_size(f) + 1 + forest_size(t.children),
{
    assert(f.push(t).drop_last() =~= f);
    assert(f.push(t).last() == t);
}
pub proof fn lemma_collect_size(r: Remover, parts: Seq<crate::parser::ContentPart>, pending: bool)
    ensures forest_size(collect_spec(r, parts, pending).0) + forest_size(collect_spec(r, parts, pending).1) <= count_elements(parts),
    decreases parts,
{
    if parts.len() > 0 {
        let g = parts.drop_last();
        lemma_collect_size(r, g, pending);
        let prev = collect_spec(r, g, pending);
        match parts.last() {
            crate::parser::ContentPart::Text(_) => {},
            crate::parser::ContentPart::Element(el) => {
                lemma_collect_size(r, el.children@, pending);
                let ch = collect_spec(r, el.children@, pending);
                match elem_status(r, el, pending) {
                    Some(st) => {
                        if st.1 { lemma_forest_size_push(prev.0, GTree { range: st.0, children: ch.0 }); lemma_forest_size_add(prev.1, ch.1); }
                        else { lemma_forest_size_push(prev.1, GTree { range: st.0, children: ch.1 }); lemma_forest_size_add(prev.0, ch.0); }
                    },
                    None => { lemma_forest_size_add(prev.0, ch.0); lemma_forest_size_add(prev.1, ch.1); },
                }
            },
        }
    }
}
/// well-formed parts in [a, b] contain at most b - a elements (every element owns at least the first byte of its opening tag)
pub proof fn lemma_count_elements(parts: Seq<crate::parser::ContentPart>, a: int, b: int)
    requires parts_wf(parts, a, b), a <= b,
    ensures count_elements(parts) <= b - a,
    decreases parts,
{
    if parts.len() > 0 {
        let n = parts.len() as int;
        let m = if n > 1 { part_hi(parts[n - 2]) } else { a };
        lemma_parts_wf_prefix(parts, a, b);
        lemma_count_elements(parts.drop_last(), a, m);
        assert(parts.last() == parts[n - 1]);
        match parts.last() {
            crate::parser::ContentPart::Element(el) => {
                lemma_count_elements(el.children@, el.start_token.byte_end as int, el.end_token.byte_start as int);
            },
            _ => {},
        }
    }
}

// ---- the two concrete strategies keep the promises collect_spec's lemmas need ----
pub proof fn lemma_unwrap_spec_ok(b: Seq<u8>, el: crate::parser::Element)
    requires el_wf(el),
    ensures builder_ok(el, unwrap_spec(b, el)),
{
    let te = el.start_token.byte_end as int;
    let es = el.end_token.byte_start as int;
    lemma_next_lb(b, te, false);
    if next_lb(b, te, false) is Some { lemma_next_lb(b, next_lb(b, te, false)->0 + 1, false); }
    lemma_prev_lb(b, es, false);
    if prev_lb(b, es, false) is Some { lemma_prev_lb(b, prev_lb(b, es, false)->0, false); }
}
pub proof fn lemma_unwrap_spec_on_b(b: Seq<u8>, el: crate::parser::Element)
    requires valid_utf8(b), el_wf(el), el_on_b(el, b),
    ensures range_on_b(unwrap_spec(b, el), b),
{
    let te = el.start_token.byte_end as int;
    let es = el.end_token.byte_start as int;
    lemma_next_lb(b, te, false);
    if next_lb(b, te, false) is Some {
        let n1 = next_lb(b, te, false)->0;
        lemma_next_lb(b, n1 + 1, false);
        if next_lb(b, n1 + 1, false) is Some {
            let n2 = next_lb(b, n1 + 1, false)->0;
            lemma_ascii_is_boundary(b, n2);
        }
    }
    lemma_prev_lb(b, es, false);
    if prev_lb(b, es, false) is Some {
        let p1 = prev_lb(b, es, false)->0;
        lemma_prev_lb(b, p1, false);
        if prev_lb(b, p1, false) is Some {
            let p2 = prev_lb(b, p1, false)->0;
            lemma_ascii_is_boundary(b, p2);
            lemma_ascii_next_boundary(b, p2);
        }
    }
}

