//@unit glue
// L11: chiritori::clean (and its helpers build_remover, build_formatters) against the contracts of the stages.
// parser::parse is an ASSUMED contract (C10 is not decided): it is the only stub in this unit whose contract is not
// proved in another unit.
//@include types.vs
//@include builders_vocab.vs
//@include attrs_vocab.vs
//@include chrono_standin.vs
//@include formatter_vocab.vs
use crate::parser::*;
//@include parser_vocab.vs
//@include seam_vocab.vs
//@include block_vocab.vs

pub mod builder {
use super::*;
use crate::parser::Element;
use std::rc::Rc;
//@import trait_marker_builder
//@item file=code/remover/marker/builder/range_marker_builder.rs kind=struct name=RangeMarkerBuilder derive=Default
//@import range_marker_builder
//@item file=code/remover/marker/builder/unwrap_block_marker_builder.rs kind=struct name=UnwrapBlockMarkerBuilder
//@import unwrap_marker_builder
}
pub mod availability {
use super::*;
use crate::parser::Element;
//@import trait_marker_availability
//@item file=code/remover/marker/availability/range_marker_availability.rs kind=struct name=RangeMarkerAvailability derive=Default
//@import range_marker_availability
//@item file=code/remover/marker/availability/unwrap_block_marker_availability.rs kind=struct name=UnwrapBlockMarkerAvailability
//@import unwrap_marker_availability
//@import unwrap_marker_availability_new
}
pub mod factory {
use super::*;
use super::{availability::MarkerAvailability, builder::MarkerBuilder};
use crate::parser::Element;
//@item file=code/remover/marker/factory.rs kind=type name=RemoveStrategies
//@item file=code/remover/marker/factory.rs kind=type name=RemovableRange
//@include factory_vocab.vs
}
pub mod removal_evaluator {
use super::*;
use crate::element_parser::Element;
//@import trait_removal_evaluator
pub mod marker_evaluator {
use super::*;
use super::RemovalEvaluator;
use crate::element_parser::Element;
use std::collections::HashSet;
//@item file=code/remover/removal_evaluator/marker_evaluator.rs kind=struct name=MarkerEvaluator
//@import marker_evaluator
}
pub mod time_limited_evaluator {
use super::*;
use super::RemovalEvaluator;
use crate::element_parser::Element;
use crate::chrono::{DateTime, Local};
//@item file=code/remover/removal_evaluator/time_limited_evaluator.rs kind=struct name=TimeLimitedEvaluator
//@import time_limited_evaluator
}
}

pub mod remover {
use super::*;
use crate::element_parser::Element;
use crate::parser;
use crate::parser::ContentPart;
use crate::factory::{RemovableRange, RemoveStrategies, create_spec};
use crate::removal_evaluator::RemovalEvaluator;
use std::collections::HashMap;
pub use crate::removal_evaluator;
//@item file=code/remover.rs kind=type name=RemoveMarker
//@item file=code/remover.rs kind=type name=RemovalEvaluators
//@item file=code/remover.rs kind=struct name=RemovalRangeTree
//@item file=code/remover.rs kind=struct name=Remover
//@include remover_vocab.vs
//@include collect_vocab.vs
//@include parser_link_vocab.vs
//@import remover_new
//@import remove
//@import get_removed_pos
}

pub mod formatter {
use super::*;
//@import trait_formatter
//@import trait_block_formatter
//@import format
pub mod indent_remover {
use super::*;
use super::Formatter;
//@item file=code/formatter/indent_remover.rs kind=struct name=IndentRemover
//@import indent_remover
}
pub mod empty_line_remover {
use super::*;
use super::Formatter;
//@item file=code/formatter/empty_line_remover.rs kind=struct name=EmptyLineRemover
//@import empty_line_remover
}
pub mod prev_line_break_remover {
use super::*;
use super::Formatter;
//@item file=code/formatter/prev_line_break_remover.rs kind=struct name=PrevLineBreakRemover
//@import prev_remover
}
pub mod next_line_break_remover {
use super::*;
use super::Formatter;
//@item file=code/formatter/next_line_break_remover.rs kind=struct name=NextLineBreakRemover
//@import next_remover
}
pub mod block_indent_remover {
use super::*;
use super::BlockFormatter;
//@item file=code/formatter/block_indent_remover.rs kind=struct name=BlockIndentRemover
//@import block_indent_remover
}
}

pub mod tokenizer_fns {
use super::*;
use crate::tokenizer::*;
//@include tokenizer_vocab.vs
//@import tokenize only=tokens_are_source_slices,tokens_partition_source
}

pub mod parser_fns {
use super::*;
use crate::tokenizer;
use crate::parser::*;
use crate::tokenizer_fns::{tok_chain, toks_ok, tok_ok};
use crate::remover::{parts_wf, parts_on_b, all_el_wf};
//@import parser_parse_proved only=every_token_once_in_order

pub proof fn lemma_toks_seq_ok_all(ts: Seq<tokenizer::Token>, cs: Seq<char>)
    ensures forall|ds: &str, de: &str| tok_chain(ts, cs, cs.len() as int) && #[trigger] toks_ok(ts, encode_utf8(cs), ds, de) ==> crate::remover::toks_seq_ok(ts, encode_utf8(cs)),
{
    assert forall|ds: &str, de: &str| tok_chain(ts, cs, cs.len() as int) && #[trigger] toks_ok(ts, encode_utf8(cs), ds, de) implies crate::remover::toks_seq_ok(ts, encode_utf8(cs)) by {
        lemma_toks_seq_ok(ts, cs, ds, de);
    }
}

/// the token chain proved for tokenizer::tokenize (C07) gives the contiguity the parse-tree lemma needs
pub proof fn lemma_toks_seq_ok(ts: Seq<tokenizer::Token>, cs: Seq<char>, ds: &str, de: &str)
    requires tok_chain(ts, cs, cs.len() as int), toks_ok(ts, encode_utf8(cs), ds, de),
    ensures crate::remover::toks_seq_ok(ts, encode_utf8(cs)),
{
    let b = encode_utf8(cs);
    lemma_char_pos_mono(cs, 0, cs.len() as int);
    assert forall|k: int| 0 <= k < ts.len() implies (#[trigger] ts[k]).byte_start < ts[k].byte_end && ts[k].byte_end == crate::remover::tok_pos(ts, b, k + 1)
            && ts[k].byte_end <= b.len() && cb(b, ts[k].byte_start as int) && cb(b, ts[k].byte_end as int) by {
        assert(tok_ok(ts[k], b, ds, de));
        lemma_char_pos_mono(cs, ts[k].start as int, ts[k].end as int);
        if k + 1 < ts.len() { assert(ts[k].end == ts[k + 1].start); assert(tok_ok(ts[k + 1], b, ds, de)); }
        else { assert(ts[ts.len() - 1].end == cs.len()); }
    }
    if ts.len() > 0 { assert(ts[0].start == 0); }
    else { assert(cs.len() == 0); assert(cs.take(0) =~= cs); }
}

}

pub mod chiritori {
use super::*;
use crate::formatter::{self, BlockFormatter, Formatter};
use crate::remover::{self, Remover};
use crate::availability::{RangeMarkerAvailability, UnwrapBlockMarkerAvailability};
use crate::builder::{RangeMarkerBuilder, UnwrapBlockMarkerBuilder};
use crate::factory::RemoveStrategies;
use crate::removal_evaluator::RemovalEvaluator;
use crate::parser_fns as parser;
use crate::tokenizer_fns as tokenizer;
use crate::chrono;
use crate::remover::*;
use std::{collections::{HashMap, HashSet}, rc::Rc};
//@item file=chiritori.rs kind=struct name=ChiritoriConfiguration
//@item file=chiritori.rs kind=struct name=TimeLimitedConfiguration
//@item file=chiritori.rs kind=struct name=RemovalMarkerConfiguration

//@fn id=build_formatters file=chiritori.rs name=build_formatters props=C01,C13,C14
//@ret r
//@ensures label=four_seam_formatters props=C13,C14
    r@.len() == 4,
    forall|b: Seq<u8>, p: int| #![trigger r@[0].spec_format(b, p)] r@[0].spec_format(b, p) == indent_spec(b, p),
    forall|b: Seq<u8>, p: int| #![trigger r@[1].spec_format(b, p)] r@[1].spec_format(b, p) == empty_line_spec(b, p),
    forall|b: Seq<u8>, p: int| #![trigger r@[2].spec_format(b, p)] r@[2].spec_format(b, p) == prev_remover_spec(b, p),
    forall|b: Seq<u8>, p: int| #![trigger r@[3].spec_format(b, p)] r@[3].spec_format(b, p) == next_remover_spec(b, p),
//@end

//@fn id=build_remover file=chiritori.rs name=build_remover props=C01,C02,C03,C05,C06,C11
//@ret r
//@ensures label=strategies_established props=C01,C02,C03,C11
    strategies_ok(r.remove_strategies@),
    strategies_bounded(r.remove_strategies@, encode_utf8(content@)),
    r.remove_strategies@.len() == 2,
//@at body-start
    broadcast use {axiom_string_key_model, axiom_str_lookup_empty, axiom_str_lookup_insert};
//@at before "Remover::new(builder_map, remove_strategy_map)"
    proof {
        let s = remove_strategy_map@;
        let b = encode_utf8(content@);
        encode_utf8_valid_utf8(content@);
        assert forall|i: int, el: crate::parser::Element| 0 <= i < s.len() && el_wf(el) implies builder_ok(el, #[trigger] s[i].1.spec_build(el)) by {
            if i == 0 { lemma_unwrap_spec_ok(b, el); }
        }
        assert forall|i: int, el: crate::parser::Element| 0 <= i < s.len() && el_wf(el) && el_on_b(el, b) implies range_on_b(#[trigger] s[i].1.spec_build(el), b) by {
            if i == 0 { lemma_unwrap_spec_on_b(b, el); }
        }
    }
//@end

/// positions of the seams in the string left by Remover::remove (what get_removed_pos computes)
pub open spec fn removed_pos_of(mk: Seq<RemoveMarker>) -> Seq<crate::RemovedMarker> {
    Seq::new(mk.len(), |i: int| ((mk[i].0.start - removed_before(mk, i)) as usize, mk[i].1))
}
/// C02 / C03 / C04 / C14 at the entry point: there are a (well-formed, assumed) parse `parts` of the source and the
/// configured remover `r` such that, with M = mm_spec(collect_spec(r, parts).ready) (sorted, disjoint, covering
/// exactly the removable extents of the ready elements, on character boundaries), the result is
/// del(del(source, M), W) for a W that format_post allows (whitespace attached to a seam, or blanks inside an
/// unwrapped pair); and the result is the source itself when M is empty.
pub open spec fn clean_witness(b: Seq<u8>, out: Seq<u8>, r: Remover, parts: Seq<crate::parser::ContentPart>, w: Seq<Range<usize>>) -> bool {
    let f = collect_spec(r, parts, false).0;
    let mk = mm_spec(f);
    let mid = del_from(b, marker_ranges(mk), 0);
    &&& parts_wf(parts, 0, b.len() as int)
    &&& strategies_ok(r.remove_strategies@)
    &&& mm_post(f, mk)
    &&& wf_ranges(marker_ranges(mk), b)
    &&& format_post(mid, removed_pos_of(mk), w, out)
    &&& (mk.len() == 0 ==> out == b)
}
pub open spec fn clean_post(b: Seq<u8>, out: Seq<u8>) -> bool {
    exists|r: Remover, parts: Seq<crate::parser::ContentPart>, w: Seq<Range<usize>>| #[trigger] clean_witness(b, out, r, parts, w)
}

pub proof fn lemma_mm_post_parts(f: Seq<GTree>, mk: Seq<RemoveMarker>)
    requires mm_post(f, mk),
    ensures markers_sorted(mk), pairs_consistent(mk),
{}
pub proof fn lemma_removed_pos_ok(b: Seq<u8>, mk: Seq<RemoveMarker>, rp: Seq<crate::RemovedMarker>, mid: Seq<u8>)
    requires
        valid_utf8(b), wf_ranges(marker_ranges(mk), b), pairs_consistent(mk), rp == removed_pos_of(mk),
        mid == del_from(b, marker_ranges(mk), 0), mid.len() <= usize::MAX,
    ensures
        forall|i: int| 0 <= i < rp.len() ==> (#[trigger] rp[i]).0 <= mid.len() && cb(mid, rp[i].0 as int),
        forall|i: int| 0 <= i < rp.len() ==> ((#[trigger] rp[i]).1 matches Some(j) ==> j < rp.len()),
{
    let m = marker_ranges(mk);
    assert forall|i: int| 0 <= i < rp.len() implies (#[trigger] rp[i]).0 <= mid.len() && cb(mid, rp[i].0 as int) by {
        lemma_seam_pos(b, m, 0, i);
        lemma_removed_before_is_len_between(mk, i);
        assert(m[i] == mk[i].0);
    }
    assert forall|i: int| 0 <= i < rp.len() implies ((#[trigger] rp[i]).1 matches Some(j) ==> j < rp.len()) by {
        assert(rp[i].1 == mk[i].1);
    }
}
pub proof fn lemma_removed_pos_eq(mk: Seq<RemoveMarker>, rp: Seq<crate::RemovedMarker>)
    requires rp.len() == mk.len(),
        forall|i: int| 0 <= i < rp.len() ==> (#[trigger] rp[i]).0 == mk[i].0.start - removed_before(mk, i) && rp[i].1 == mk[i].1,
    ensures rp == removed_pos_of(mk),
{
    assert(rp =~= removed_pos_of(mk));
}

//@fn id=clean file=chiritori.rs name=clean props=C01,C02,C03,C04,C14
//@ret out
//@requires
    delimiters.0@.len() > 0,
    delimiters.1@.len() > 0,
//@ensures label=clean_post props=C01,C02,C03,C04,C14
    clean_post(encode_utf8(content@), encode_utf8(out@)),
//@at body-start
    hide(collect_spec); hide(mm_spec); hide(wf_forest); hide(forest_covered); hide(forest_endpoint); hide(forest_size); hide(parts_wf); hide(parts_on_b); hide(all_el_wf); hide(count_elements); hide(mm_post); hide(format_post); hide(wf_ranges); hide(strategies_ok); hide(strategies_bounded); hide(removed_pos_of); hide(markers_sorted); hide(pairs_consistent); hide(del_from); hide(crate::tokenizer_fns::tok_chain); hide(crate::tokenizer_fns::toks_ok);
    let ghost b = encode_utf8(content@);
    proof { encode_utf8_valid_utf8(content@); axiom_rc_string_len_isize(content); }
//@at before "let remover = build_remover"
    proof {
        crate::parser_fns::lemma_toks_seq_ok_all(tokens@, content@);
        assert(toks_seq_ok(tokens@, b));
        assert(tokens@.subrange(0, tokens@.len() as int) =~= tokens@);
        lemma_parts_from_flatten(parsed@, tokens@, b, 0, tokens@.len() as int);
        reveal(parts_wf);
        assert(parts_wf(parsed@, 0, b.len() as int) && parts_on_b(parsed@, b) && all_el_wf(parsed@));
    }
//@at before "let parsed = parser::parse"
    proof { crate::axiom_token_vec_len(&tokens); }
//@at before "let (removed, markers) = remover.remove"
    let ghost parts = parsed@;
    let ghost f = collect_spec(remover, parts, false).0;
    proof {
        lemma_collect_wf(remover, parts, false, 0, b.len() as int);
        lemma_collect_on_b(remover, parts, false, b);
        lemma_collect_size(remover, parts, false);
        lemma_count_elements(parts, 0, b.len() as int);
        assert(wf_forest(f, -1, b.len() as int + 1));
        assert(forest_on_b(f, b));
    }
//@at before "let removed_pos = remover::get_removed_pos"
    let ghost mk = markers@;
    let ghost mid = encode_utf8(removed@);
    proof {
        assert(mm_post(f, mk));
        lemma_mm_post_parts(f, mk);
        reveal(markers_sorted);
    }
//@at before "let formatter = build_formatters();"
    proof {
        axiom_string_len_isize(&removed);
        lemma_removed_pos_eq(mk, removed_pos@);
        lemma_removed_pos_ok(b, mk, removed_pos@, mid);
    }
//@at before "formatter::format(&removed, &removed_pos, &formatter, &structure_formatters)"
    let ghost __rp = removed_pos@;
    proof {
        assert forall|w: Seq<Range<usize>>, o: Seq<u8>| #[trigger] format_post(mid, __rp, w, o) && (__rp.len() == 0 ==> o == mid)
            implies clean_witness(b, o, remover, parts, w) by {
            assert(mk == mm_spec(f));
            assert(mid == del_from(b, marker_ranges(mk), 0));
            assert(__rp == removed_pos_of(mk));
            if mk.len() == 0 { assert(__rp.len() == 0) by { reveal(removed_pos_of); } assert(mid == b); }
        }
    }
//@end

} // mod chiritori
