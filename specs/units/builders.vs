//@unit builders
// L5: marker builders, availability tests and the strategy factory.
//@include types.vs
//@include builders_vocab.vs
//@import find_next_lb
//@import find_prev_lb

pub mod builder {
use super::*;
use crate::parser::Element;
use std::rc::Rc;
//@fn id=trait_marker_builder file=code/remover/marker/builder.rs name=build in="trait MarkerBuilder" props=C01,C02,C03,C11
//@ret r
//@container-extra
    spec fn spec_build(&self, element: crate::parser::Element) -> (Range<usize>, Option<Range<usize>>);
//@requires
    el_wf(*element),
//@ensures label=builder_ok props=C01,C02,C03,C11
    builder_ok(*element, r),
//@ensures label=builder_is_spec props=C02,C03,C11
    r == self.spec_build(*element),
//@end

//@item file=code/remover/marker/builder/range_marker_builder.rs kind=struct name=RangeMarkerBuilder
//@fn id=range_marker_builder file=code/remover/marker/builder/range_marker_builder.rs name=build in="impl MarkerBuilder for RangeMarkerBuilder" props=C01,C02,C03
//@ret r
//@container-extra
    open spec fn spec_build(&self, el: crate::parser::Element) -> (Range<usize>, Option<Range<usize>>) {
        (Range { start: el.start_token.byte_start, end: el.end_token.byte_end }, None::<Range<usize>>)
    }
//@end

//@item file=code/remover/marker/builder/unwrap_block_marker_builder.rs kind=struct name=UnwrapBlockMarkerBuilder
//@fn id=unwrap_marker_builder file=code/remover/marker/builder/unwrap_block_marker_builder.rs name=build in="impl MarkerBuilder for UnwrapBlockMarkerBuilder" props=C01,C02,C03,C04,C11
//@ret r
//@container-extra
    open spec fn spec_build(&self, el: crate::parser::Element) -> (Range<usize>, Option<Range<usize>>) {
        unwrap_spec(encode_utf8(self.content@), el)
    }
//@closure 1 params="pos: usize" ret="ret: Option<usize>"
//@closure-requires
    bytes@ == encode_utf8(self.content@), pos < bytes.len(), bytes.len() == bytes@.len(),
//@closure-ensures
    ret matches Some(q) ==> next_lb(bytes@, pos + 1, false) == Some(q as int),
    ret is None ==> next_lb(bytes@, pos + 1, false) is None,
//@closure 2 params="pos: usize" ret="ret: Option<usize>"
//@closure-requires
    bytes@ == encode_utf8(self.content@),
//@closure-ensures
    ret matches Some(q) ==> prev_lb(bytes@, pos as int, false) == Some(q as int),
    ret is None ==> prev_lb(bytes@, pos as int, false) is None,
//@at before "let start_el_remove_end_pos"
    proof {
        let b = bytes@;
        assert(bytes.len() == bytes@.len());
        lemma_next_lb(b, el.start_token.byte_end as int, false);
        if next_lb(b, el.start_token.byte_end as int, false) is Some { lemma_next_lb(b, next_lb(b, el.start_token.byte_end as int, false)->0 + 1, false); }
        lemma_prev_lb(b, el.end_token.byte_start as int, false);
        if prev_lb(b, el.end_token.byte_start as int, false) is Some { lemma_prev_lb(b, prev_lb(b, el.end_token.byte_start as int, false)->0, false); }
    }
//@end
} // mod builder

pub mod availability {
use super::*;
use crate::parser::Element;
//@fn id=trait_marker_availability file=code/remover/marker/availability.rs name=is_available in="trait MarkerAvailability" props=C03,C11
//@ret r
//@container-extra
    spec fn spec_available(&self, element: crate::parser::Element) -> bool;
//@ensures label=availability_is_spec props=C03,C11
    r == self.spec_available(*element),
//@end

//@item file=code/remover/marker/availability/range_marker_availability.rs kind=struct name=RangeMarkerAvailability
//@fn id=range_marker_availability file=code/remover/marker/availability/range_marker_availability.rs name=is_available in="impl MarkerAvailability for RangeMarkerAvailability" props=C03
//@ret r
//@container-extra
    open spec fn spec_available(&self, element: crate::parser::Element) -> bool { true }
//@end

//@item file=code/remover/marker/availability/unwrap_block_marker_availability.rs kind=struct name=UnwrapBlockMarkerAvailability
//@fn id=unwrap_marker_availability_new file=code/remover/marker/availability/unwrap_block_marker_availability.rs name=new in="impl UnwrapBlockMarkerAvailability" props=C11
//@ret r
//@ensures label=availability_new props=C11
    r.tag_name == tag_name,
//@end
//@fn id=unwrap_marker_availability file=code/remover/marker/availability/unwrap_block_marker_availability.rs name=is_available in="impl MarkerAvailability for UnwrapBlockMarkerAvailability" props=C03,C11
//@ret r
//@container-extra
    open spec fn spec_available(&self, element: crate::parser::Element) -> bool {
        exists|i: int| 0 <= i < element.start_element.attrs@.len() && (#[trigger] element.start_element.attrs@[i]).name@ == self.tag_name@
    }
//@loop 1
//@invariant_except_break
    it_ok(__itA1),
    !__rA1,
    0 <= __n <= element.start_element.attrs@.len(),
    it_rem(__itA1) =~= element.start_element.attrs@.as_ref().skip(__n),
    forall|i: int| 0 <= i < __n ==> (#[trigger] element.start_element.attrs@[i]).name@ != self.tag_name@,
//@loop-ensures
    __rA1 == self.spec_available(*element),
//@decreases
    IteratorSpec::decrease(&__itA1)->0
//@at before "loop {"
    let ghost mut __n: int = 0;
    proof { assert(element.start_element.attrs@.as_ref().skip(0) =~= element.start_element.attrs@.as_ref()); }
//@at loop 1 start
    let ghost __rest = it_rem(__itA1);
//@at before "let a = __xA1;"
    proof {
        assert(__rest[0] == __xA1);
        assert(*__xA1 == element.start_element.attrs@[__n]);
        assert(__rest.drop_first() =~= element.start_element.attrs@.as_ref().skip(__n + 1));
    }
//@at after "let a = __xA1;"
    proof { __n = __n + 1; }
//@end
} // mod availability

pub mod factory {
use super::*;
use super::{availability::MarkerAvailability, builder::MarkerBuilder};
use crate::parser::Element;
//@item file=code/remover/marker/factory.rs kind=type name=RemoveStrategies
//@item file=code/remover/marker/factory.rs kind=type name=RemovableRange

//@include factory_vocab.vs

//@fn id=create file=code/remover/marker/factory.rs name=create props=C01,C02,C03,C11
//@ret r
//@requires
    el_wf(*element),
//@ensures label=create_exact props=C02,C03,C11
    r == create_spec(remove_strategy_map@, *element),
    r matches Some(x) ==> builder_ok(*element, x),
//@adapter 1 type="Option<&(Box<dyn MarkerAvailability>, Box<dyn MarkerBuilder>)>"
//@closure 1 params="__p: &(Box<dyn MarkerAvailability>, Box<dyn MarkerBuilder>)" ret="ret: RemovableRange" bind=yes
//@closure-requires
    el_wf(*element),
//@closure-ensures
    ret == __p.1.spec_build(*element), builder_ok(*element, ret),
//@loop 1
//@invariant_except_break
    it_ok(__itA1),
    __rA1 is None,
    0 <= __n <= remove_strategy_map@.len(),
    it_rem(__itA1) =~= remove_strategy_map@.as_ref().skip(__n),
    forall|k: int| 0 <= k < __n ==> !(#[trigger] remove_strategy_map@[k]).0.spec_available(*element),
//@loop-ensures
    match __rA1 {
        Some(x) => exists|i: int| #[trigger] first_available(remove_strategy_map@, *element, i) && *x == remove_strategy_map@[i],
        None => forall|i: int| !first_available(remove_strategy_map@, *element, i),
    },
//@decreases
    IteratorSpec::decrease(&__itA1)->0
//@at before "loop {"
    let ghost mut __n: int = 0;
    proof { assert(remove_strategy_map@.as_ref().skip(0) =~= remove_strategy_map@.as_ref()); }
//@at loop 1 start
    let ghost __rest = it_rem(__itA1);
//@at before "let (availability, _) = &__xA1;"
    proof {
        assert(__rest[0] == __xA1);
        assert(*__xA1 == remove_strategy_map@[__n]);
        assert(__rest.drop_first() =~= remove_strategy_map@.as_ref().skip(__n + 1));
    }
//@at before "__rA1 = Some(__xA1);"
    proof { assert(first_available(remove_strategy_map@, *element, __n - 1)); }
//@at after "let (availability, _) = &__xA1;"
    proof { __n = __n + 1; }
//@at after-loop 1
    proof {
        if __rA1 is Some {
            let i = choose|i: int| #[trigger] first_available(remove_strategy_map@, *element, i) && *__rA1->0 == remove_strategy_map@[i];
            assert forall|j: int| first_available(remove_strategy_map@, *element, j) implies j == i by {
                lemma_first_available_unique(remove_strategy_map@, *element, i, j);
            }
        }
    }
//@end
} // mod factory
