//@unit list
// code/list.rs: the data side of the listing (line ranges, statuses, one item per marker). The text renderer
// build_pretty_string_item is format!/lines()/repeat/replace and is NOT verified: it appears as an assumed pure function.
//@include line_map_vocab.vs

pub type RemoveMarker = (Range<usize>, Option<usize>);
//@import find_line
//@item file=code/list.rs kind=enum name=ItemStatus
//@item file=code/list.rs kind=struct name=ListItem
//@include list_vocab.vs

//@fn id=build_pretty_string_item file=code/list.rs name=build_pretty_string_item props=C15,C17 stub=only trusted="ASSUMED: build_pretty_string_item (format!/lines()/repeat/replace, not verifiable with vstd) is a pure function item_text of its arguments and returns normally for a range inside the content whose ends are character boundaries; its layout (C16) and its panic-freedom (C01 for the listing modes) are not decided"
//@ret r
//@requires
    start <= end <= content.spec_bytes().len(),
    cb(content.spec_bytes(), start as int), cb(content.spec_bytes(), end as int),
//@ensures label=item_text_is_a_function_of_the_arguments
    r@ == item_text(content@, start, end, is_removal, coloring, line_range),
//@end

//@fn id=get_line_range file=code/list.rs name=get_line_range props=C01,C15
//@ret r
//@requires
    line_map@.len() < usize::MAX,
    range.end >= 1,
//@ensures label=line_range_exact props=C15
    r == line_range_spec(line_map@, *range),
//@end

//@fn id=build_list file=code/list.rs name=build_list props=C01,C15,C17
//@ret r
//@requires
    markers_renderable(content.spec_bytes(), markers@),
    line_map matches Some(m) ==> m@.len() < usize::MAX,
//@ensures label=one_item_per_marker_in_order props=C15,C17
    r@.len() == markers@.len(),
    forall|i: int| 0 <= i < r@.len() ==> list_item_ok(content@, markers@[i], lm_view(line_map), #[trigger] r@[i]),
//@mapcollect 1 type="Vec<ListItem>"
//@closure 1 params="m: &Vec<usize>" ret="ret: (usize, usize)"
//@closure-requires
    m@.len() < usize::MAX, range.end >= 1,
//@closure-ensures
    ret == line_range_spec(m@, *range),
//@loop 1 iter=it
//@invariant
    markers_renderable(content.spec_bytes(), markers@),
    line_map matches Some(m) ==> m@.len() < usize::MAX,
    it.seq() == markers@.as_ref(),
    __vM1@.len() == it.index@,
    forall|i: int| 0 <= i < __vM1@.len() ==> list_item_ok(content@, markers@[i], lm_view(line_map), #[trigger] __vM1@[i]),
//@end
