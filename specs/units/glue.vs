//@unit glue
// L11: chiritori::clean (and its helpers build_remover, build_formatters) against the contracts of the stages.
// parser::parse is an ASSUMED contract (C10 is not decided): it is the only stub in this unit whose contract is not
// proved in another unit.
//@include types.vs
//@include builders_vocab.vs
//@include attrs_vocab.vs
//@include chrono_standin.vs
//@include formatter_vocab.vs
//@include survivors_vocab.vs
use crate::parser::*;
//@include stack_vocab.vs
//@include ep_vocab.vs
//@include parser_vocab.vs
//@include seam_vocab.vs
//@include blank_line_law.vs
//@include block_vocab.vs

pub mod builder {
use super::*;
use crate::parser::Element;
use std::rc::Rc;
//@import trait_marker_builder
//@item file=code/remover/marker/builder/range_marker_builder.rs kind=struct name=RangeMarkerBuilder derive=Default
//@import range_marker_builder
//@item file=code/remover/marker/builder/unwrap_block_marker_builder.rs kind=struct name=UnwrapBlockMarkerBuilder
//@import unwrap_marker_builder
}
pub mod availability {
use super::*;
use crate::parser::Element;
//@import trait_marker_availability
//@item file=code/remover/marker/availability/range_marker_availability.rs kind=struct name=RangeMarkerAvailability derive=Default
//@import range_marker_availability
//@item file=code/remover/marker/availability/unwrap_block_marker_availability.rs kind=struct name=UnwrapBlockMarkerAvailability
//@import unwrap_marker_availability
//@import unwrap_marker_availability_new
}
pub mod factory {
use super::*;
use super::{availability::MarkerAvailability, builder::MarkerBuilder};
use crate::parser::Element;
//@item file=code/remover/marker/factory.rs kind=type name=RemoveStrategies
//@item file=code/remover/marker/factory.rs kind=type name=RemovableRange
//@include factory_vocab.vs
}
pub mod removal_evaluator {
use super::*;
use crate::element_parser::Element;
//@import trait_removal_evaluator
pub mod marker_evaluator {
use super::*;
use super::RemovalEvaluator;
use crate::element_parser::Element;
use std::collections::HashSet;
//@item file=code/remover/removal_evaluator/marker_evaluator.rs kind=struct name=MarkerEvaluator
//@import marker_evaluator
}
pub mod time_limited_evaluator {
use super::*;
use super::RemovalEvaluator;
use crate::element_parser::Element;
use crate::chrono::{DateTime, Local};
//@item file=code/remover/removal_evaluator/time_limited_evaluator.rs kind=struct name=TimeLimitedEvaluator
//@import time_limited_evaluator
}
}

pub mod remover {
use super::*;
use crate::element_parser::Element;
use crate::parser;
use crate::parser::ContentPart;
use crate::factory::{RemovableRange, RemoveStrategies, create_spec};
use crate::removal_evaluator::RemovalEvaluator;
use std::collections::HashMap;
pub use crate::removal_evaluator;
//@item file=code/remover.rs kind=type name=RemoveMarker
//@item file=code/remover.rs kind=type name=RemovalEvaluators
//@item file=code/remover.rs kind=struct name=RemovalRangeTree
//@item file=code/remover.rs kind=struct name=Remover
//@include remover_vocab.vs
//@include collect_vocab.vs
//@include parser_link_vocab.vs
//@import remover_new
//@import remove
//@import get_removed_pos
//@import build_remove_marker
//@import build_remove_marker_all
}

/// stand-in for the serde_json dependency (not verified): to_string is an uninterpreted function of the value
pub mod serde_json {
use super::*;
pub struct Error { pub dummy: u8 }
pub uninterp spec fn json_of<T>(v: T) -> Result<Seq<char>, Error>;
#[verifier::external_body]
pub fn to_string<T>(v: &T) -> (r: Result<String, Error>)
    ensures (match r { Ok(s) => Ok::<Seq<char>, Error>(s@), Err(e) => Err::<Seq<char>, Error>(e) }) == json_of(*v),
{ unimplemented!() }
}

pub mod list_fns {
use super::*;
use crate::remover::RemoveMarker;
//@include line_map_vocab.vs
//@import build_line_map
//@import find_line
//@item file=code/list.rs kind=enum name=ItemStatus
//@item file=code/list.rs kind=struct name=ListItem
//@include list_vocab.vs
//@import build_list
/// the text build_pretty_string renders for a marker list (uninterpreted: C16 is not decided)
pub uninterp spec fn pretty_text(content: Seq<char>, markers: Seq<(RemoveMarker, bool)>, lm: Option<Seq<usize>>) -> Seq<char>;
//@fn id=build_pretty_string file=code/list.rs name=build_pretty_string props=C15,C17 stub=only trusted="ASSUMED: build_pretty_string (zip/map/collect into a String around build_pretty_string_item) is a pure function pretty_text of its arguments and returns normally for markers inside the content on character boundaries; layout (C16) and panic-freedom of the renderer are not decided"
//@ret r
//@requires
    markers_renderable(content.spec_bytes(), markers@),
    line_map matches Some(m) ==> m@.len() < usize::MAX,
//@ensures label=pretty_text_is_a_function_of_the_arguments
    r@ == pretty_text(content@, markers@, lm_view(line_map)),
//@end
}

pub mod formatter {
use super::*;
//@import trait_formatter
//@import trait_block_formatter
//@include format_exact_vocab.vs
//@import format
pub mod indent_remover {
use super::*;
use super::Formatter;
//@item file=code/formatter/indent_remover.rs kind=struct name=IndentRemover
//@import indent_remover
}
pub mod empty_line_remover {
use super::*;
use super::Formatter;
//@item file=code/formatter/empty_line_remover.rs kind=struct name=EmptyLineRemover
//@import empty_line_remover
}
pub mod prev_line_break_remover {
use super::*;
use super::Formatter;
//@item file=code/formatter/prev_line_break_remover.rs kind=struct name=PrevLineBreakRemover
//@import prev_remover
}
pub mod next_line_break_remover {
use super::*;
use super::Formatter;
//@item file=code/formatter/next_line_break_remover.rs kind=struct name=NextLineBreakRemover
//@import next_remover
}
pub mod block_indent_remover {
use super::*;
use super::BlockFormatter;
//@item file=code/formatter/block_indent_remover.rs kind=struct name=BlockIndentRemover
//@import block_indent_remover
}
}

pub mod tokenizer_fns {
use super::*;
use crate::tokenizer::*;
//@include tokenizer_vocab.vs
//@include tokenizer_spec_vocab.vs
//@import tokenize
}

pub mod parser_fns {
use super::*;
use crate::tokenizer;
use crate::parser::*;
use crate::tokenizer_fns::{tok_chain, toks_ok, tok_ok};
use crate::remover::{parts_wf, parts_on_b, all_el_wf};
//@import parser_parse_proved

pub proof fn lemma_toks_seq_ok_all(ts: Seq<tokenizer::Token>, cs: Seq<char>)
    ensures forall|ds: &str, de: &str| tok_chain(ts, cs, cs.len() as int) && #[trigger] toks_ok(ts, encode_utf8(cs), ds, de) ==> crate::remover::toks_seq_ok(ts, encode_utf8(cs)),
{
    assert forall|ds: &str, de: &str| tok_chain(ts, cs, cs.len() as int) && #[trigger] toks_ok(ts, encode_utf8(cs), ds, de) implies crate::remover::toks_seq_ok(ts, encode_utf8(cs)) by {
        lemma_toks_seq_ok(ts, cs, ds, de);
    }
}

/// the token chain proved for tokenizer::tokenize (C07) gives the contiguity the parse-tree lemma needs
pub proof fn lemma_toks_seq_ok(ts: Seq<tokenizer::Token>, cs: Seq<char>, ds: &str, de: &str)
    requires tok_chain(ts, cs, cs.len() as int), toks_ok(ts, encode_utf8(cs), ds, de),
    ensures crate::remover::toks_seq_ok(ts, encode_utf8(cs)),
{
    let b = encode_utf8(cs);
    lemma_char_pos_mono(cs, 0, cs.len() as int);
    assert forall|k: int| 0 <= k < ts.len() implies (#[trigger] ts[k]).byte_start < ts[k].byte_end && ts[k].byte_end == crate::remover::tok_pos(ts, b, k + 1)
            && ts[k].byte_end <= b.len() && cb(b, ts[k].byte_start as int) && cb(b, ts[k].byte_end as int) by {
        assert(tok_ok(ts[k], b, ds, de));
        lemma_char_pos_mono(cs, ts[k].start as int, ts[k].end as int);
        if k + 1 < ts.len() { assert(ts[k].end == ts[k + 1].start); assert(tok_ok(ts[k + 1], b, ds, de)); }
        else { assert(ts[ts.len() - 1].end == cs.len()); }
    }
    if ts.len() > 0 { assert(ts[0].start == 0); }
    else { assert(cs.len() == 0); assert(cs.take(0) =~= cs); }
}

}

pub mod chiritori {
use super::*;
use crate::formatter::{self, BlockFormatter, Formatter};
use crate::remover::{self, Remover};
use crate::availability::{RangeMarkerAvailability, UnwrapBlockMarkerAvailability};
use crate::builder::{RangeMarkerBuilder, UnwrapBlockMarkerBuilder};
use crate::factory::RemoveStrategies;
use crate::removal_evaluator::RemovalEvaluator;
use crate::parser_fns as parser;
use crate::tokenizer_fns as tokenizer;
use crate::chrono;
use crate::remover::*;
use std::{collections::{HashMap, HashSet}, rc::Rc};
//@item file=chiritori.rs kind=struct name=ChiritoriConfiguration
//@item file=chiritori.rs kind=struct name=TimeLimitedConfiguration
//@item file=chiritori.rs kind=struct name=RemovalMarkerConfiguration
//@item file=chiritori.rs kind=enum name=ListFormat
//@item file=chiritori.rs kind=enum name=ListError
use crate::list_fns::*;
use crate::serde_json;

//@fn id=build_formatters file=chiritori.rs name=build_formatters props=C01,C13,C14
//@ret r
//@ensures label=four_seam_formatters props=C13,C14
    r@.len() == 4,
    forall|b: Seq<u8>, p: int| #![trigger r@[0].spec_format(b, p)] r@[0].spec_format(b, p) == indent_spec(b, p),
    forall|b: Seq<u8>, p: int| #![trigger r@[1].spec_format(b, p)] r@[1].spec_format(b, p) == empty_line_spec(b, p),
    forall|b: Seq<u8>, p: int| #![trigger r@[2].spec_format(b, p)] r@[2].spec_format(b, p) == prev_remover_spec(b, p),
    forall|b: Seq<u8>, p: int| #![trigger r@[3].spec_format(b, p)] r@[3].spec_format(b, p) == next_remover_spec(b, p),
//@end

pub open spec fn has_attr(el: crate::parser::Element, name: Seq<char>) -> bool {
    exists|i: int| 0 <= i < el.start_element.attrs@.len() && (#[trigger] el.start_element.attrs@[i]).name@ == name
}
/// the remover a configuration stands for (C05 / C06 / C03 / C11 at the entry point): the two strategies in
/// their order (unwrap-block when the opening tag has that attribute, else the whole element), and exactly two
/// registered tag names, each with its evaluator built from the configuration (the removal-marker name wins
/// if both tag names are equal, as the later insert does)
pub open spec fn configured(r: Remover, config: ChiritoriConfiguration, b: Seq<u8>) -> bool {
    let s = r.remove_strategies@;
    let tl = crate::removal_evaluator::time_limited_evaluator::TimeLimitedEvaluator { current_time: config.time_limited_configuration.current, time_offset: config.time_limited_configuration.time_offset };
    let rm = crate::removal_evaluator::marker_evaluator::MarkerEvaluator { marker_removal_names: config.removal_marker_configuration.targets };
    let rm_tag = config.removal_marker_configuration.tag_name@;
    let tl_tag = config.time_limited_configuration.tag_name@;
    &&& s.len() == 2
    &&& forall|el: crate::parser::Element| #![trigger s[0].0.spec_available(el)] s[0].0.spec_available(el) == has_attr(el, "unwrap-block"@)
    &&& forall|el: crate::parser::Element| #![trigger s[0].1.spec_build(el)] s[0].1.spec_build(el) == unwrap_spec(b, el)
    &&& forall|el: crate::parser::Element| #![trigger s[1].0.spec_available(el)] s[1].0.spec_available(el)
    &&& forall|el: crate::parser::Element| #![trigger s[1].1.spec_build(el)] s[1].1.spec_build(el) == (Range { start: el.start_token.byte_start, end: el.end_token.byte_end }, None::<Range<usize>>)
    &&& forall|name: Seq<char>| #![trigger str_lookup(r.removal_evaluators@, name)]
            match str_lookup(r.removal_evaluators@, name) {
                Some(ev) => (name == rm_tag || name == tl_tag) && (forall|e: crate::element_parser::Element| #![trigger ev.spec_is_removal(e)]
                    ev.spec_is_removal(e) == (if name == rm_tag { rm.spec_is_removal(e) } else { tl.spec_is_removal(e) })),
                None => name != rm_tag && name != tl_tag,
            }
}

//@fn id=build_remover file=chiritori.rs name=build_remover props=C01,C02,C03,C05,C06,C11
//@ret r
//@ensures label=remover_is_the_configured_one props=C03,C05,C06,C11
    configured(r, config, encode_utf8(content@)),
//@ensures label=strategies_established props=C01,C02,C03,C11
    strategies_ok(r.remove_strategies@),
    strategies_bounded(r.remove_strategies@, encode_utf8(content@)),
    r.remove_strategies@.len() == 2,
//@at body-start
    broadcast use {axiom_string_key_model, axiom_str_lookup_empty, axiom_str_lookup_insert, vstd::std_specs::hash::axiom_random_state_builds_valid_hashers};
//@bindargs "builder_map.insert(" 1 vars="__k1: String; __v1: Box<dyn RemovalEvaluator>"
//@bindargs "builder_map.insert(" 2 vars="__k2: String; __v2: Box<dyn RemovalEvaluator>"
//@at before "let __k1: String" 1
    let ghost __tl = crate::removal_evaluator::time_limited_evaluator::TimeLimitedEvaluator { current_time: config.time_limited_configuration.current, time_offset: config.time_limited_configuration.time_offset };
    let ghost __rm = crate::removal_evaluator::marker_evaluator::MarkerEvaluator { marker_removal_names: config.removal_marker_configuration.targets };
    let ghost __m0 = builder_map@;
//@at before "builder_map.insert(__k1, __v1)"
    let ghost __gk1 = __k1;
    let ghost __gv1 = __v1;
//@at before "let __k2: String" 1
    let ghost __m1 = builder_map@;
//@at before "builder_map.insert(__k2, __v2)"
    let ghost __gk2 = __k2;
    let ghost __gv2 = __v2;
//@at before "let remove_strategy_map: RemoveStrategies"
    let ghost __m2 = builder_map@;
    // (vstd's Map axioms are not instantiated automatically for dyn-typed values: the inserted boxes are named (R12)
    //  and the lookup axioms are called explicitly)
    proof {
        assert(__m0 =~= Map::<String, Box<dyn RemovalEvaluator>>::empty());
        assert(__m1 == __m0.insert(__gk1, __gv1));
        assert(__m2 == __m1.insert(__gk2, __gv2));
        assert forall|e: crate::element_parser::Element| #![trigger __gv1.spec_is_removal(e)] __gv1.spec_is_removal(e) == __tl.spec_is_removal(e) by {}
        assert forall|e: crate::element_parser::Element| #![trigger __gv2.spec_is_removal(e)] __gv2.spec_is_removal(e) == __rm.spec_is_removal(e) by {}
        assert forall|name: Seq<char>| #![trigger str_lookup(__m2, name)]
            str_lookup(__m2, name) == (if name == __gk2@ { Some(__gv2) } else if name == __gk1@ { Some(__gv1) } else { None::<Box<dyn RemovalEvaluator>> }) by {
            axiom_str_lookup_insert(__m1, __gk2, __gv2, name);
            axiom_str_lookup_insert(__m0, __gk1, __gv1, name);
            axiom_str_lookup_empty::<Box<dyn RemovalEvaluator>>(name);
        }
    }
//@at before "Remover::new(builder_map, remove_strategy_map)"
    proof {
        let s = remove_strategy_map@;
        let b = encode_utf8(content@);
        encode_utf8_valid_utf8(content@);
        assert forall|i: int, el: crate::parser::Element| 0 <= i < s.len() && el_wf(el) implies builder_ok(el, #[trigger] s[i].1.spec_build(el)) by {
            if i == 0 { lemma_unwrap_spec_ok(b, el); }
        }
        assert forall|i: int, el: crate::parser::Element| 0 <= i < s.len() && el_wf(el) && el_on_b(el, b) implies range_on_b(#[trigger] s[i].1.spec_build(el), b) by {
            if i == 0 { lemma_unwrap_spec_on_b(b, el); }
        }
        assert(builder_map@ == __m2);
        assert(s.len() == 2);
        assert forall|el: crate::parser::Element| #![trigger s[0].0.spec_available(el)] s[0].0.spec_available(el) == has_attr(el, "unwrap-block"@) by {}
        assert forall|el: crate::parser::Element| #![trigger s[0].1.spec_build(el)] s[0].1.spec_build(el) == unwrap_spec(b, el) by {}
        assert forall|el: crate::parser::Element| #![trigger s[1].0.spec_available(el)] s[1].0.spec_available(el) by {}
        assert forall|el: crate::parser::Element| #![trigger s[1].1.spec_build(el)] s[1].1.spec_build(el) == (Range { start: el.start_token.byte_start, end: el.end_token.byte_end }, None::<Range<usize>>) by {}
    }
//@end

/// positions of the seams in the string left by Remover::remove (what get_removed_pos computes)
pub open spec fn removed_pos_of(mk: Seq<RemoveMarker>) -> Seq<crate::RemovedMarker> {
    Seq::new(mk.len(), |i: int| ((mk[i].0.start - removed_before(mk, i)) as usize, mk[i].1))
}
/// C02 / C03 / C04 / C14 at the entry point: there are a (well-formed, assumed) parse `parts` of the source and the
/// configured remover `r` such that, with M = mm_spec(collect_spec(r, parts).ready) (sorted, disjoint, covering
/// exactly the removable extents of the ready elements, on character boundaries), the result is
/// del(del(source, M), W) for a W that format_post allows (whitespace attached to a seam, or blanks inside an
/// unwrapped pair); and the result is the source itself when M is empty.
pub open spec fn clean_witness(b: Seq<u8>, out: Seq<u8>, r: Remover, parts: Seq<crate::parser::ContentPart>, w: Seq<Range<usize>>) -> bool {
    let f = collect_spec(r, parts, false).0;
    let mk = mm_spec(f);
    let mid = del_from(b, marker_ranges(mk), 0);
    &&& parts_wf(parts, 0, b.len() as int)
    &&& strategies_ok(r.remove_strategies@)
    &&& mm_post(f, mk)
    &&& wf_ranges(marker_ranges(mk), b)
    &&& format_post(mid, removed_pos_of(mk), w, out)
    &&& (mk.len() == 0 ==> out == b)
}
pub open spec fn clean_post(b: Seq<u8>, out: Seq<u8>) -> bool {
    exists|r: Remover, parts: Seq<crate::parser::ContentPart>, w: Seq<Range<usize>>| #[trigger] clean_witness(b, out, r, parts, w)
}
/// The whole pipeline, pinned to the source and the configuration: the tokens are tokenize_spec's (C07/C08) and
/// partition the source; the parse tree holds every token once, in order, paired by the stack rule (C10); the
/// remover is the configured one (C03/C05/C06/C11); and the output is del(del(source, M), W) as in clean_witness.
/// the whitespace pass is configured with the four seam formatters (in their order) and the block indent remover
pub open spec fn configured_formatters(fs: Seq<Box<dyn Formatter>>, sfs: Seq<Box<dyn BlockFormatter>>) -> bool {
    &&& fs.len() == 4
    &&& forall|b: Seq<u8>, p: int| #![trigger fs[0].spec_format(b, p)] fs[0].spec_format(b, p) == indent_spec(b, p)
    &&& forall|b: Seq<u8>, p: int| #![trigger fs[1].spec_format(b, p)] fs[1].spec_format(b, p) == empty_line_spec(b, p)
    &&& forall|b: Seq<u8>, p: int| #![trigger fs[2].spec_format(b, p)] fs[2].spec_format(b, p) == prev_remover_spec(b, p)
    &&& forall|b: Seq<u8>, p: int| #![trigger fs[3].spec_format(b, p)] fs[3].spec_format(b, p) == next_remover_spec(b, p)
    &&& sfs.len() == 1
    &&& forall|b: Seq<u8>, s: int, e: int| #![trigger sfs[0].spec_format(b, s, e)] sfs[0].spec_format(b, s, e) == block_spec(b, s, e)
}
/// C13 at the entry point: for the configured formatters the interval format_block deletes around a seam is hull4,
/// for which lemma_blank_line_law gives the a + b - 1 law at a block seam
pub proof fn lemma_hull_is_hull4(fs: Seq<Box<dyn Formatter>>, sfs: Seq<Box<dyn BlockFormatter>>, b: Seq<u8>, p: int)
    requires configured_formatters(fs, sfs),
    ensures crate::formatter::hull_spec(fs, b, p, fs.len() as int) == crate::hull4(b, p),
{
    reveal_with_fuel(crate::formatter::hull_spec, 5);
    assert(fs[0].spec_format(b, p) == indent_spec(b, p));
    assert(fs[1].spec_format(b, p) == empty_line_spec(b, p));
    assert(fs[2].spec_format(b, p) == prev_remover_spec(b, p));
    assert(fs[3].spec_format(b, p) == next_remover_spec(b, p));
}
pub proof fn lemma_blank_line_law_configured(fs: Seq<Box<dyn Formatter>>, sfs: Seq<Box<dyn BlockFormatter>>, b: Seq<u8>, p: int, ls: int)
    requires configured_formatters(fs, sfs), crate::block_seam(b, p, ls),
    ensures ({
        let h = crate::formatter::hull_spec(fs, b, p, fs.len() as int);
        crate::count_lf(b, h.0, h.1) == (if crate::blank_before(b, ls) && crate::blank_after(b, p) { 2nat } else { 1nat })
    }),
{
    lemma_hull_is_hull4(fs, sfs, b, p);
    crate::lemma_blank_line_law(b, p, ls);
}
pub open spec fn clean_pipeline(cs: Seq<char>, ds: Seq<char>, de: Seq<char>, config: ChiritoriConfiguration, out: Seq<u8>,
        ts: Seq<crate::tokenizer::Token>, r: Remover, parts: Seq<crate::parser::ContentPart>, w: Seq<Range<usize>>,
        fs: Seq<Box<dyn Formatter>>, sfs: Seq<Box<dyn BlockFormatter>>) -> bool {
    let b = encode_utf8(cs);
    let mk = mm_spec(collect_spec(r, parts, false).0);
    &&& configured_formatters(fs, sfs)
    &&& crate::formatter::format_exact(fs, sfs, del_from(b, marker_ranges(mk), 0), removed_pos_of(mk), w)
    // C02 in the words of its statement: the non-whitespace bytes of the output are exactly the non-whitespace
    // bytes of the source outside the markers (which cover exactly the extents of the ready forest), in order
    &&& nw(out, 0, out.len() as int) == nw_outside(b, marker_ranges(mk), 0, b.len() as int)
    &&& crate::tokenizer_fns::tvs(ts) == crate::tokenizer_fns::tokenize_spec(cs, ds, de)
    &&& crate::tokenizer_fns::tok_chain(ts, cs, cs.len() as int)
    &&& crate::flatten(parts) == ts
    &&& crate::gp(parts) == crate::stack_parse(ts, crate::tok_nm())
    &&& configured(r, config, b)
    &&& clean_witness(b, out, r, parts, w)
}
/// what format_post allows to disappear is whitespace
pub proof fn lemma_deleted_is_ws(b: Seq<u8>, rp: Seq<crate::RemovedMarker>, w: Seq<Range<usize>>, o: Seq<u8>)
    requires format_post(b, rp, w, o),
    ensures forall|p: int| 0 <= p < b.len() && covered(w, p) ==> is_ws(#[trigger] b[p]),
{
    assert forall|p: int| 0 <= p < b.len() && covered(w, p) implies is_ws(#[trigger] b[p]) by {
        assert(deleted_ok(b, rp, p));
        if exists|i: int| 0 <= i < rp.len() && #[trigger] ws_connected(b, p, rp[i].0 as int) {
            let i = choose|i: int| 0 <= i < rp.len() && #[trigger] ws_connected(b, p, rp[i].0 as int);
            assert(ws_connected(b, p, rp[i].0 as int));
        }
    }
}
pub open spec fn clean_post_full(cs: Seq<char>, ds: Seq<char>, de: Seq<char>, config: ChiritoriConfiguration, out: Seq<u8>) -> bool {
    exists|ts: Seq<crate::tokenizer::Token>, r: Remover, parts: Seq<crate::parser::ContentPart>, w: Seq<Range<usize>>,
            fs: Seq<Box<dyn Formatter>>, sfs: Seq<Box<dyn BlockFormatter>>|
        #[trigger] clean_pipeline(cs, ds, de, config, out, ts, r, parts, w, fs, sfs)
}

pub proof fn lemma_mm_post_parts(f: Seq<GTree>, mk: Seq<RemoveMarker>)
    requires mm_post(f, mk),
    ensures markers_sorted(mk), pairs_consistent(mk),
{}
pub proof fn lemma_removed_pos_ok(b: Seq<u8>, mk: Seq<RemoveMarker>, rp: Seq<crate::RemovedMarker>, mid: Seq<u8>)
    requires
        valid_utf8(b), wf_ranges(marker_ranges(mk), b), pairs_consistent(mk), rp == removed_pos_of(mk),
        mid == del_from(b, marker_ranges(mk), 0), mid.len() <= usize::MAX,
    ensures
        forall|i: int| 0 <= i < rp.len() ==> (#[trigger] rp[i]).0 <= mid.len() && cb(mid, rp[i].0 as int),
        forall|i: int| 0 <= i < rp.len() ==> ((#[trigger] rp[i]).1 matches Some(j) ==> j < rp.len()),
{
    let m = marker_ranges(mk);
    assert forall|i: int| 0 <= i < rp.len() implies (#[trigger] rp[i]).0 <= mid.len() && cb(mid, rp[i].0 as int) by {
        lemma_seam_pos(b, m, 0, i);
        lemma_removed_before_is_len_between(mk, i);
        assert(m[i] == mk[i].0);
    }
    assert forall|i: int| 0 <= i < rp.len() implies ((#[trigger] rp[i]).1 matches Some(j) ==> j < rp.len()) by {
        assert(rp[i].1 == mk[i].1);
    }
}
pub proof fn lemma_removed_pos_eq(mk: Seq<RemoveMarker>, rp: Seq<crate::RemovedMarker>)
    requires rp.len() == mk.len(),
        forall|i: int| 0 <= i < rp.len() ==> (#[trigger] rp[i]).0 == mk[i].0.start - removed_before(mk, i) && rp[i].1 == mk[i].1,
    ensures rp == removed_pos_of(mk),
{
    assert(rp =~= removed_pos_of(mk));
}

//@fn id=clean file=chiritori.rs name=clean props=C01,C02,C03,C04,C14
//@ret out
//@requires
    delimiters.0@.len() > 0,
    delimiters.1@.len() > 0,
//@ensures label=clean_post props=C01,C02,C03,C04,C14
    clean_post(encode_utf8(content@), encode_utf8(out@)),
//@ensures label=clean_is_the_configured_pipeline props=C02,C03,C04,C05,C06,C11
    clean_post_full(content@, delimiters.0@, delimiters.1@, config, encode_utf8(out@)),
//@at body-start
    hide(collect_spec); hide(mm_spec); hide(wf_forest); hide(forest_covered); hide(forest_endpoint); hide(forest_size); hide(parts_wf); hide(parts_on_b); hide(all_el_wf); hide(count_elements); hide(mm_post); hide(format_post); hide(wf_ranges); hide(strategies_ok); hide(strategies_bounded); hide(removed_pos_of); hide(markers_sorted); hide(pairs_consistent); hide(del_from); hide(crate::tokenizer_fns::tok_chain); hide(crate::tokenizer_fns::toks_ok); hide(crate::tokenizer_fns::tokenize_spec); hide(crate::stack_parse); hide(crate::gp); hide(crate::flatten); hide(configured);
    let ghost b = encode_utf8(content@);
    let ghost __cfg = config;
    let ghost __ds = delimiters.0@;
    let ghost __de = delimiters.1@;
    proof { encode_utf8_valid_utf8(content@); axiom_rc_string_len_isize(content); }
//@at before "let remover = build_remover"
    proof {
        crate::parser_fns::lemma_toks_seq_ok_all(tokens@, content@);
        assert(toks_seq_ok(tokens@, b));
        assert(tokens@.subrange(0, tokens@.len() as int) =~= tokens@);
        lemma_parts_from_flatten(parsed@, tokens@, b, 0, tokens@.len() as int);
        reveal(parts_wf);
        assert(parts_wf(parsed@, 0, b.len() as int) && parts_on_b(parsed@, b) && all_el_wf(parsed@));
    }
//@at before "let parsed = parser::parse"
    proof { crate::axiom_token_vec_len(&tokens); }
//@at before "let (removed, markers) = remover.remove"
    let ghost parts = parsed@;
    let ghost f = collect_spec(remover, parts, false).0;
    proof {
        lemma_collect_wf(remover, parts, false, 0, b.len() as int);
        lemma_collect_on_b(remover, parts, false, b);
        lemma_collect_size(remover, parts, false);
        lemma_count_elements(parts, 0, b.len() as int);
        assert(wf_forest(f, -1, b.len() as int + 1));
        assert(forest_on_b(f, b));
    }
//@at before "let removed_pos = remover::get_removed_pos"
    let ghost mk = markers@;
    let ghost mid = encode_utf8(removed@);
    proof {
        assert(mm_post(f, mk));
        lemma_mm_post_parts(f, mk);
        reveal(markers_sorted);
    }
//@at before "let formatter = build_formatters();"
    proof {
        axiom_string_len_isize(&removed);
        lemma_removed_pos_eq(mk, removed_pos@);
        lemma_removed_pos_ok(b, mk, removed_pos@, mid);
    }
//@at before "formatter::format(&removed, &removed_pos, &formatter, &structure_formatters)"
    let ghost __rp = removed_pos@;
    proof {
        assert forall|w: Seq<Range<usize>>, o: Seq<u8>| #[trigger] format_post(mid, __rp, w, o) && (__rp.len() == 0 ==> o == mid)
            implies clean_witness(b, o, remover, parts, w) by {
            assert(mk == mm_spec(f));
            assert(mid == del_from(b, marker_ranges(mk), 0));
            assert(__rp == removed_pos_of(mk));
            if mk.len() == 0 { assert(__rp.len() == 0) by { reveal(removed_pos_of); } assert(mid == b); }
        }
        assert(crate::tokenizer_fns::tvs(tokens@) == crate::tokenizer_fns::tokenize_spec(content@, __ds, __de));
        assert(crate::tokenizer_fns::tok_chain(tokens@, content@, content@.len() as int));
        assert(crate::flatten(parts) == tokens@);
        assert(crate::gp(parts) == crate::stack_parse(tokens@, crate::tok_nm()));
        assert(configured(remover, __cfg, b));
        assert(configured_formatters(formatter@, structure_formatters@));
        assert forall|w: Seq<Range<usize>>, o: Seq<u8>| #[trigger] format_post(mid, __rp, w, o) && (__rp.len() == 0 ==> o == mid)
                && crate::formatter::format_exact(formatter@, structure_formatters@, mid, __rp, w)
            implies clean_pipeline(content@, __ds, __de, __cfg, o, tokens@, remover, parts, w, formatter@, structure_formatters@) by {
            assert(clean_witness(b, o, remover, parts, w));
            reveal(format_post);
            lemma_deleted_is_ws(mid, __rp, w, o);
            lemma_survivors(b, marker_ranges(mk), w);
        }
    }
//@end


// ---- the listing entry points (C15 / C17): same front end as clean, markers handed to the (unverified) renderers ----
/// tokens, parse tree and remover are those of the configured pipeline (as in clean_pipeline)
pub open spec fn front_end(cs: Seq<char>, ds: Seq<char>, de: Seq<char>, config: ChiritoriConfiguration,
        ts: Seq<crate::tokenizer::Token>, r: Remover, parts: Seq<crate::parser::ContentPart>) -> bool {
    let b = encode_utf8(cs);
    &&& crate::tokenizer_fns::tvs(ts) == crate::tokenizer_fns::tokenize_spec(cs, ds, de)
    &&& crate::tokenizer_fns::tok_chain(ts, cs, cs.len() as int)
    &&& crate::flatten(parts) == ts
    &&& crate::gp(parts) == crate::stack_parse(ts, crate::tok_nm())
    &&& configured(r, config, b)
    &&& parts_wf(parts, 0, b.len() as int)
}
pub open spec fn ready_flagged(m: Seq<RemoveMarker>) -> Seq<(RemoveMarker, bool)> { Seq::new(m.len(), |i: int| (m[i], true)) }
/// what the two output formats are, as functions of the marker list (text rendering and JSON encoding are uninterpreted)
pub open spec fn list_result(cs: Seq<char>, fmt: ListFormat, markers: Seq<(RemoveMarker, bool)>, out: Result<String, ListError>) -> bool {
    let lm = Some(lf_positions(cs, cs.len() as int));
    match fmt {
        ListFormat::PrettyString => out matches Ok(s) && s@ == pretty_text(cs, markers, lm),
        ListFormat::JSON => exists|items: Vec<ListItem>| #![trigger items@] items@.len() == markers.len()
            && (forall|i: int| 0 <= i < items@.len() ==> list_item_ok(cs, markers[i], lm, #[trigger] items@[i]))
            && (match serde_json::json_of(items) { Ok(s) => out matches Ok(o) && o@ == s, Err(_) => out is Err }),
    }
}
/// C15: the plain listing renders exactly the markers clean deletes (mm_spec of the ready forest), all flagged Ready
pub open spec fn list_post(cs: Seq<char>, ds: Seq<char>, de: Seq<char>, config: ChiritoriConfiguration, fmt: ListFormat, out: Result<String, ListError>) -> bool {
    exists|ts: Seq<crate::tokenizer::Token>, r: Remover, parts: Seq<crate::parser::ContentPart>|
        #[trigger] front_end(cs, ds, de, config, ts, r, parts)
        && list_result(cs, fmt, ready_flagged(mm_spec(collect_spec(r, parts, false).0)), out)
}
/// C17: the full listing renders merge_all_final(ready markers, pending markers)
pub open spec fn list_all_post(cs: Seq<char>, ds: Seq<char>, de: Seq<char>, config: ChiritoriConfiguration, fmt: ListFormat, out: Result<String, ListError>) -> bool {
    exists|ts: Seq<crate::tokenizer::Token>, r: Remover, parts: Seq<crate::parser::ContentPart>|
        #[trigger] front_end(cs, ds, de, config, ts, r, parts)
        && list_result(cs, fmt, merge_all_final(mm_spec(collect_spec(r, parts, true).0), mm_spec(collect_spec(r, parts, true).1)), out)
}
pub open spec fn marker_ok(b: Seq<u8>, m: RemoveMarker) -> bool {
    m.0.start <= m.0.end <= b.len() && m.0.end >= 1 && cb(b, m.0.start as int) && cb(b, m.0.end as int)
}
pub proof fn lemma_markers_ok(f: Seq<GTree>, b: Seq<u8>, lo: int, hi: int)
    requires wf_forest(f, lo, hi), forest_on_b(f, b),
    ensures forall|i: int| 0 <= i < mm_spec(f).len() ==> marker_ok(b, #[trigger] mm_spec(f)[i]),
{
    let mk = mm_spec(f);
    lemma_mm_core(f, lo, hi);
    lemma_mm_endpoints(f, lo, hi);
    lemma_mm_end_pos(f, lo, hi);
    assert forall|i: int| 0 <= i < mk.len() implies marker_ok(b, #[trigger] mk[i]) by {
        assert(forest_endpoint(f, mk[i].0.start) && forest_endpoint(f, mk[i].0.end));
        assert(pos_ok(b, mk[i].0.start) && pos_ok(b, mk[i].0.end));
    }
}

pub proof fn lemma_ready_renderable(b: Seq<u8>, mk: Seq<RemoveMarker>)
    requires forall|i: int| 0 <= i < mk.len() ==> marker_ok(b, #[trigger] mk[i]),
    ensures markers_renderable(b, ready_flagged(mk)),
{
    let m = ready_flagged(mk);
    assert forall|i: int| 0 <= i < m.len() implies (#[trigger] m[i]).0.0.start <= m[i].0.0.end <= b.len() && m[i].0.0.end >= 1
        && cb(b, m[i].0.0.start as int) && cb(b, m[i].0.0.end as int) by {
        assert(marker_ok(b, mk[i]));
    }
}
pub proof fn lemma_ready_flagged_step(mk: Seq<RemoveMarker>, k: int)
    requires 0 <= k < mk.len(),
    ensures ready_flagged(mk).take(k + 1) == ready_flagged(mk).take(k).push((mk[k], true)),
            ready_flagged(mk).take(0) == Seq::<(RemoveMarker, bool)>::empty(),
            ready_flagged(mk).take(mk.len() as int) == ready_flagged(mk),
{
    assert(ready_flagged(mk).take(k + 1) =~= ready_flagged(mk).take(k).push((mk[k], true)));
    assert(ready_flagged(mk).take(0) =~= Seq::<(RemoveMarker, bool)>::empty());
    assert(ready_flagged(mk).take(mk.len() as int) =~= ready_flagged(mk));
}
pub proof fn lemma_ready_flagged_ends(mk: Seq<RemoveMarker>)
    ensures ready_flagged(mk).take(0) == Seq::<(RemoveMarker, bool)>::empty(),
            ready_flagged(mk).take(mk.len() as int) == ready_flagged(mk),
            ready_flagged(mk).len() == mk.len(),
{
    assert(ready_flagged(mk).take(0) =~= Seq::<(RemoveMarker, bool)>::empty());
    assert(ready_flagged(mk).take(mk.len() as int) =~= ready_flagged(mk));
}
pub proof fn lemma_front_end(cs: Seq<char>, ds: Seq<char>, de: Seq<char>, config: ChiritoriConfiguration,
        ts: Seq<crate::tokenizer::Token>, r: Remover, parts: Seq<crate::parser::ContentPart>)
    requires
        crate::tokenizer_fns::tvs(ts) == crate::tokenizer_fns::tokenize_spec(cs, ds, de),
        crate::tokenizer_fns::tok_chain(ts, cs, cs.len() as int),
        crate::flatten(parts) == ts,
        crate::gp(parts) == crate::stack_parse(ts, crate::tok_nm()),
        configured(r, config, encode_utf8(cs)),
        parts_wf(parts, 0, encode_utf8(cs).len() as int),
    ensures front_end(cs, ds, de, config, ts, r, parts),
{}
pub proof fn lemma_line_map_len(cs: Seq<char>)
    requires encode_utf8(cs).len() <= isize::MAX,
    ensures lf_positions(cs, cs.len() as int).len() < usize::MAX,
{
    lemma_lf_len(cs, cs.len() as int);
    lemma_char_pos_mono(cs, 0, cs.len() as int);
    assert(char_byte_pos(cs, cs.len() as int) == encode_utf8(cs).len());
    // every character encodes to at least one byte
    lemma_chars_le_bytes(cs, cs.len() as int);
}

//@fn id=list file=chiritori.rs name=list props=C01,C15
//@ret out
//@requires
    delimiters.0@.len() > 0,
    delimiters.1@.len() > 0,
//@ensures label=list_renders_the_markers_clean_deletes props=C15
    list_post(content@, delimiters.0@, delimiters.1@, config, format, out),
//@mapcollect 1 type="Vec<(RemoveMarker, bool)>"
//@maperr
//@loop 1 iter=it
//@invariant
    it.seq() == __mk,
    __vM1@ == ready_flagged(__mk).take(it.index@),
//@at body-start
    hide(collect_spec); hide(mm_spec); hide(wf_forest); hide(forest_covered); hide(forest_endpoint); hide(forest_size); hide(parts_wf); hide(parts_on_b); hide(all_el_wf); hide(count_elements); hide(mm_post); hide(strategies_ok); hide(strategies_bounded); hide(markers_sorted); hide(pairs_consistent); hide(crate::tokenizer_fns::tok_chain); hide(crate::tokenizer_fns::toks_ok); hide(crate::tokenizer_fns::tokenize_spec); hide(crate::stack_parse); hide(crate::gp); hide(crate::flatten); hide(configured); hide(lf_positions); hide(front_end); hide(markers_renderable); hide(ready_flagged); hide(marker_ok); hide(list_item_ok); hide(forest_on_b);
    let ghost b = encode_utf8(content@);
    let ghost __cfg = config;
    let ghost __ds = delimiters.0@;
    let ghost __de = delimiters.1@;
    proof { encode_utf8_valid_utf8(content@); axiom_rc_string_len_isize(content); }
//@at before "let parsed = parser::parse"
    proof { crate::axiom_token_vec_len(&tokens); }
//@at before "let remover = build_remover"
    proof {
        crate::parser_fns::lemma_toks_seq_ok_all(tokens@, content@);
        assert(toks_seq_ok(tokens@, b));
        assert(tokens@.subrange(0, tokens@.len() as int) =~= tokens@);
        lemma_parts_from_flatten(parsed@, tokens@, b, 0, tokens@.len() as int);
        reveal(parts_wf);
        assert(parts_wf(parsed@, 0, b.len() as int) && parts_on_b(parsed@, b) && all_el_wf(parsed@));
    }
//@at before "let markers: Vec<_> ="
    let ghost parts = parsed@;
    let ghost f = collect_spec(remover, parts, false).0;
    let ghost __mk = mm_spec(f);
    proof {
        lemma_collect_wf(remover, parts, false, 0, b.len() as int);
        lemma_collect_on_b(remover, parts, false, b);
        lemma_collect_size(remover, parts, false);
        lemma_count_elements(parts, 0, b.len() as int);
        assert(wf_forest(f, -1, b.len() as int + 1));
        assert(forest_on_b(f, b));
        lemma_markers_ok(f, b, -1, b.len() as int + 1);
        lemma_ready_renderable(b, __mk);
        lemma_ready_flagged_ends(__mk);
        lemma_front_end(content@, __ds, __de, __cfg, tokens@, remover, parts);
    }
//@at loop 1 end
    proof { lemma_ready_flagged_step(__mk, it.index@); }
//@at before "let line_map = build_line_map(&content);"
    proof {
        lemma_ready_flagged_ends(__mk);
        assert(markers@ == ready_flagged(__mk));
        assert(markers_renderable(b, markers@));
        assert(front_end(content@, __ds, __de, __cfg, tokens@, remover, parts));
    }
//@at before "match format {"
    proof {
        assert(line_map@ == lf_positions(content@, content@.len() as int));
        lemma_line_map_len(content@);
    }
//@end

pub open spec fn all_ok(b: Seq<u8>, l: Seq<(RemoveMarker, bool)>) -> bool { forall|i: int| 0 <= i < l.len() ==> marker_ok(b, (#[trigger] l[i]).0) }
pub proof fn lemma_all_ok_add(b: Seq<u8>, x: Seq<(RemoveMarker, bool)>, y: Seq<(RemoveMarker, bool)>)
    requires all_ok(b, x), all_ok(b, y),
    ensures all_ok(b, x + y),
{
    assert forall|i: int| 0 <= i < (x + y).len() implies marker_ok(b, (#[trigger] (x + y)[i]).0) by {
        if i < x.len() { assert((x + y)[i] == x[i]); } else { assert((x + y)[i] == y[i - x.len()]); }
    }
}
pub proof fn lemma_consume_pending_ok(b: Seq<u8>, r: Range<usize>, p: Seq<RemoveMarker>, c: int)
    requires 0 <= c <= p.len(), forall|i: int| 0 <= i < p.len() ==> marker_ok(b, #[trigger] p[i]),
    ensures all_ok(b, consume_pending(r, p, c).0), c <= consume_pending(r, p, c).1 <= p.len(),
    decreases p.len() - c,
{
    if c < p.len() && p[c].0.start < r.end {
        lemma_consume_pending_ok(b, r, p, c + 1);
        let rest = consume_pending(r, p, c + 1);
        let squash = rcontains(r, p[c].0.start) && rcontains(r, p[c].0.end);
        let head = if squash { Seq::<(RemoveMarker, bool)>::empty() } else { seq![(p[c], false)] };
        assert(all_ok(b, head)) by { if !squash { assert(marker_ok(b, p[c])); } }
        lemma_all_ok_add(b, head, rest.0);
    }
}
pub proof fn lemma_merge_all_ok(b: Seq<u8>, rs: Seq<RemoveMarker>, p: Seq<RemoveMarker>, n: int)
    requires 0 <= n <= rs.len(),
        forall|i: int| 0 <= i < rs.len() ==> marker_ok(b, #[trigger] rs[i]),
        forall|i: int| 0 <= i < p.len() ==> marker_ok(b, #[trigger] p[i]),
    ensures all_ok(b, merge_all(rs, p, n).0), 0 <= merge_all(rs, p, n).1 <= p.len(),
    decreases n,
{
    if n > 0 {
        lemma_merge_all_ok(b, rs, p, n - 1);
        let prev = merge_all(rs, p, n - 1);
        lemma_consume_pending_ok(b, rs[n - 1].0, p, prev.1);
        let cp = consume_pending(rs[n - 1].0, p, prev.1);
        lemma_all_ok_add(b, prev.0, cp.0);
        assert(all_ok(b, seq![(rs[n - 1], true)])) by { assert(marker_ok(b, rs[n - 1])); }
        lemma_all_ok_add(b, prev.0 + cp.0, seq![(rs[n - 1], true)]);
    }
}
pub proof fn lemma_merge_all_final_renderable(b: Seq<u8>, rs: Seq<RemoveMarker>, p: Seq<RemoveMarker>)
    requires
        forall|i: int| 0 <= i < rs.len() ==> marker_ok(b, #[trigger] rs[i]),
        forall|i: int| 0 <= i < p.len() ==> marker_ok(b, #[trigger] p[i]),
    ensures markers_renderable(b, merge_all_final(rs, p)),
{
    let n = rs.len() as int;
    lemma_merge_all_ok(b, rs, p, n);
    let m = merge_all(rs, p, n);
    let l = merge_all_final(rs, p);
    if m.1 < p.len() {
        let t = pending_tail(p, m.1);
        assert(all_ok(b, t)) by { assert forall|i: int| 0 <= i < t.len() implies marker_ok(b, (#[trigger] t[i]).0) by { assert(marker_ok(b, p[m.1 + i])); } }
        lemma_all_ok_add(b, m.0, t);
    } else {
        assert(m.0 + Seq::<(RemoveMarker, bool)>::empty() =~= m.0);
    }
    assert(all_ok(b, l));
    assert forall|i: int| 0 <= i < l.len() implies (#[trigger] l[i]).0.0.start <= l[i].0.0.end <= b.len() && l[i].0.0.end >= 1
        && cb(b, l[i].0.0.start as int) && cb(b, l[i].0.0.end as int) by {
        assert(marker_ok(b, l[i].0));
    }
}

//@fn id=list_all file=chiritori.rs name=list_all props=C01,C17
//@ret out
//@requires
    delimiters.0@.len() > 0,
    delimiters.1@.len() > 0,
//@ensures label=list_all_renders_ready_and_outstanding_pending props=C17
    list_all_post(content@, delimiters.0@, delimiters.1@, config, format, out),
//@maperr
//@at body-start
    hide(collect_spec); hide(mm_spec); hide(wf_forest); hide(forest_covered); hide(forest_endpoint); hide(forest_size); hide(parts_wf); hide(parts_on_b); hide(all_el_wf); hide(count_elements); hide(mm_post); hide(strategies_ok); hide(strategies_bounded); hide(markers_sorted); hide(pairs_consistent); hide(crate::tokenizer_fns::tok_chain); hide(crate::tokenizer_fns::toks_ok); hide(crate::tokenizer_fns::tokenize_spec); hide(crate::stack_parse); hide(crate::gp); hide(crate::flatten); hide(configured); hide(lf_positions); hide(front_end); hide(markers_renderable); hide(marker_ok); hide(list_item_ok); hide(forest_on_b); hide(merge_all_final);
    let ghost b = encode_utf8(content@);
    let ghost __cfg = config;
    let ghost __ds = delimiters.0@;
    let ghost __de = delimiters.1@;
    proof { encode_utf8_valid_utf8(content@); axiom_rc_string_len_isize(content); }
//@at before "let parsed = parser::parse"
    proof { crate::axiom_token_vec_len(&tokens); }
//@at before "let remover = build_remover"
    proof {
        crate::parser_fns::lemma_toks_seq_ok_all(tokens@, content@);
        assert(toks_seq_ok(tokens@, b));
        assert(tokens@.subrange(0, tokens@.len() as int) =~= tokens@);
        lemma_parts_from_flatten(parsed@, tokens@, b, 0, tokens@.len() as int);
        reveal(parts_wf);
        assert(parts_wf(parsed@, 0, b.len() as int) && parts_on_b(parsed@, b) && all_el_wf(parsed@));
    }
//@at before "let markers = remover.build_remove_marker_all(&parsed);"
    let ghost parts = parsed@;
    let ghost f0 = collect_spec(remover, parts, true).0;
    let ghost f1 = collect_spec(remover, parts, true).1;
    proof {
        lemma_collect_wf(remover, parts, true, 0, b.len() as int);
        lemma_collect_on_b(remover, parts, true, b);
        lemma_collect_size(remover, parts, true);
        lemma_count_elements(parts, 0, b.len() as int);
        assert(wf_forest(f0, -1, b.len() as int + 1));
        assert(wf_forest(f1, -1, b.len() as int + 1));
        lemma_markers_ok(f0, b, -1, b.len() as int + 1);
        lemma_markers_ok(f1, b, -1, b.len() as int + 1);
        lemma_merge_all_final_renderable(b, mm_spec(f0), mm_spec(f1));
        lemma_front_end(content@, __ds, __de, __cfg, tokens@, remover, parts);
    }
//@at before "match format {"
    proof {
        assert(markers@ == merge_all_final(mm_spec(f0), mm_spec(f1)));
        assert(markers_renderable(b, markers@));
        assert(line_map@ == lf_positions(content@, content@.len() as int));
        lemma_line_map_len(content@);
    }
//@end
} // mod chiritori
