// ---- vocabulary of formatter::format ----
pub type RemovedMarker = (usize, Option<usize>);

/// a seam interval: whitespace only, contains the seam position, ends on character boundaries
pub open spec fn seam_ok(b: Seq<u8>, pos: int, x: Range<usize>) -> bool {
    &&& x.start <= pos <= x.end <= b.len()
    &&& all_ws(b, x.start as int, x.end as int)
    &&& cb(b, x.start as int) && cb(b, x.end as int)
}

/// a block range: non-empty run of blanks strictly between the two seams of an unwrapped pair
pub open spec fn block_ok(b: Seq<u8>, s: int, e: int, x: Range<usize>) -> bool {
    &&& s < x.start < x.end <= e && x.end <= b.len()
    &&& all_blank(b, x.start as int, x.end as int)
    &&& cb(b, x.start as int) && cb(b, x.end as int)
}

pub open spec fn is_pair(rp: Seq<RemovedMarker>, i: int, j: int) -> bool {
    0 <= i < rp.len() && 0 <= j < rp.len() && rp[i].1 == Some(j as usize) && rp[i].0 < rp[j].0
}

/// x is one of the ranges the whitespace pass is allowed to delete
pub open spec fn elem_ok(b: Seq<u8>, rp: Seq<RemovedMarker>, x: Range<usize>) -> bool {
    ||| exists|i: int| 0 <= i < rp.len() && seam_ok(b, (#[trigger] rp[i]).0 as int, x)
    ||| exists|i: int, j: int| #[trigger] is_pair(rp, i, j) && block_ok(b, rp[i].0 as int, rp[j].0 as int, x)
}

/// byte p may disappear in the whitespace pass: it is whitespace connected to a seam by whitespace only,
/// or a blank strictly inside an unwrapped pair
pub open spec fn deleted_ok(b: Seq<u8>, rp: Seq<RemovedMarker>, p: int) -> bool {
    ||| exists|i: int| 0 <= i < rp.len() && #[trigger] ws_connected(b, p, rp[i].0 as int)
    ||| exists|i: int, j: int| #[trigger] is_pair(rp, i, j) && rp[i].0 < p < rp[j].0 && 0 <= p < b.len() && is_blank(b[p])
}
pub open spec fn ws_connected(b: Seq<u8>, p: int, pos: int) -> bool {
    0 <= p < b.len() && (if p < pos { all_ws(b, p, pos) } else { all_ws(b, pos, p + 1) })
}

pub open spec fn format_post(b: Seq<u8>, rp: Seq<RemovedMarker>, w: Seq<Range<usize>>, ob: Seq<u8>) -> bool {
    &&& wf_ranges(w, b)
    &&& separated(w)
    &&& ob == del_from(b, w, 0)
    &&& forall|p: int| #[trigger] covered(w, p) ==> deleted_ok(b, rp, p)
}

