//@unit block_formatter
// L2: BlockFormatter trait contract, BlockIndentRemover::format, get_indent_len (DESIGN 5, L2).

//@import find_next_lb
//@import find_prev_lb
//@import find_next_char

//@include block_vocab.vs

//@fn id=trait_block_formatter file=code/formatter.rs name=format in="trait BlockFormatter" props=C01,C02,C12,C14
//@ret r
//@container-extra
    /// the exact result as a function of the content bytes and the two seam positions
    spec fn spec_format(&self, b: Seq<u8>, s: int, e: int) -> Seq<(int, int)>;
//@requires
    start_byte_pos <= end_byte_pos <= content.spec_bytes().len(),
//@ensures label=block_safe props=C01,C02,C14
    block_safe(content.spec_bytes(), start_byte_pos as int, end_byte_pos as int, r@),
//@ensures label=block_is_spec props=C12
    ranges_view(r@) == self.spec_format(content.spec_bytes(), start_byte_pos as int, end_byte_pos as int),
//@end

//@fn id=get_indent_len file=code/formatter/block_indent_remover.rs name=get_indent_len props=C01,C12
//@ret r
//@ensures label=indent_len_exact props=C12
    r as int == indent_len_spec(content.spec_bytes(), byte_pos as int),
//@closure 1 params="p: usize" ret="ret: Option<usize>"
//@closure-requires
    bytes@ == content.spec_bytes(), p < bytes.len(), bytes.len() == bytes@.len(),
//@closure-ensures
    ret matches Some(v) ==> char_pos(bytes@, p + 1) matches Some(e) && v == e - p - 1,
    ret is None ==> char_pos(bytes@, p + 1) is None,
//@closure 2 params="e: usize" ret="ret: usize"
//@closure-requires
    e > p,
//@closure-ensures
    ret == e - p - 1,
//@at before "find_prev_line_break_pos(content, bytes, byte_pos, false)"
    proof {
        assert(bytes.len() == bytes@.len());
        lemma_prev_lb(bytes@, byte_pos as int, false);
    }
//@end

//@item file=code/formatter/block_indent_remover.rs kind=struct name=BlockIndentRemover
//@fn id=block_indent_remover file=code/formatter/block_indent_remover.rs name=format in="impl BlockFormatter for BlockIndentRemover" props=C01,C02,C12,C14
//@ret r
//@container-extra
    open spec fn spec_format(&self, b: Seq<u8>, s: int, e: int) -> Seq<(int, int)> { block_spec(b, s, e) }
//@ensures label=block_exact props=C12
    ranges_view(r@) == block_spec(content.spec_bytes(), start_byte_pos as int, end_byte_pos as int),
//@loop 1
//@invariant
    bytes@ == content.spec_bytes(),
    valid_utf8(bytes@),
    bytes@.len() <= isize::MAX,
    start_byte_pos < current_pos <= bytes@.len(),
    cb(bytes@, current_pos as int),
    current_pos > 0 && is_lf(bytes@[current_pos - 1]),
    indent_ofs <= start_byte_pos,
    indent_len <= bytes@.len(),
    end_byte_pos <= bytes@.len(),
    forall|i: int| 0 <= i < positions@.len() ==> start_byte_pos < (#[trigger] positions@[i]).start < positions@[i].end < current_pos
        && positions@[i].end <= end_byte_pos,
    forall|i: int| 0 <= i < positions@.len() ==> all_blank(bytes@, (#[trigger] positions@[i]).start as int, positions@[i].end as int),
    forall|i: int, j: int| 0 <= i < j < positions@.len() ==> (#[trigger] positions@[i]).end < (#[trigger] positions@[j]).start,
    ranges_view(positions@) + block_ranges(bytes@, current_pos as int, end_byte_pos as int, indent_ofs as int, indent_len as int)
        == block_ranges(bytes@, __first as int, end_byte_pos as int, indent_ofs as int, indent_len as int),
//@loop-ensures
    block_ranges(bytes@, current_pos as int, end_byte_pos as int, indent_ofs as int, indent_len as int) =~= Seq::<(int, int)>::empty(),
//@decreases
    bytes@.len() - current_pos
//@at loop 1 start
    broadcast use axiom_cmp_min_usize;
    let ghost __pos0 = positions@;
    proof {
        lemma_next_lb(bytes@, current_pos as int, false);
        lemma_char_pos(bytes@, current_pos as int);
    }
//@at before "if pos > end_byte_pos {"
    proof {
        lemma_ascii_is_boundary(bytes@, pos - 1);
        lemma_ascii_next_boundary(bytes@, pos - 1);
    }
//@at before "if let Some(indent_pos) = indent_pos {"
    proof {
        if indent_pos is Some {
            lemma_skippable_run_blank(bytes@, current_pos as int, indent_pos->0 as int);
        }
    }
//@at before "current_pos = pos;"
    proof {
        let lr = line_range(bytes@, current_pos as int, indent_ofs as int, indent_len as int);
        let l = match lr { Some(r) => seq![r], None => Seq::<(int, int)>::empty() };
        assert(ranges_view(positions@) =~= ranges_view(__pos0) + l);
        assert(block_ranges(bytes@, current_pos as int, end_byte_pos as int, indent_ofs as int, indent_len as int)
            == l + block_ranges(bytes@, pos as int, end_byte_pos as int, indent_ofs as int, indent_len as int));
        assert(ranges_view(positions@) + block_ranges(bytes@, pos as int, end_byte_pos as int, indent_ofs as int, indent_len as int)
            =~= ranges_view(__pos0) + block_ranges(bytes@, current_pos as int, end_byte_pos as int, indent_ofs as int, indent_len as int));
    }
//@at body-start
    broadcast use axiom_cmp_min_usize;
    proof {
        lemma_bytes_valid(content);
        axiom_str_len_isize(content);
    }
//@at before "let indent_ofs"
    proof {
        assert(bytes.len() == bytes@.len());
        lemma_prev_lb(bytes@, start_byte_pos as int, true);
        lemma_next_lb(bytes@, start_byte_pos as int, false);
    }
//@at before "let mut positions"
    proof {
        assert(ranges_view(Seq::<Range<usize>>::empty()) =~= Seq::<(int, int)>::empty());
    }
//@at before "let first_indent_len"
    let ghost __first = current_pos;
    proof {
        lemma_ascii_is_boundary(bytes@, current_pos - 1);
        lemma_ascii_next_boundary(bytes@, current_pos - 1);
    }
//@lettype positions type="Vec<Range<usize>>"
//@closure 1 params="v: usize" ret="ret: usize"
//@closure-requires
    v < usize::MAX,
//@closure-ensures
    ret == v + 1,
//@end
