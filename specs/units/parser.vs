//@unit parser
// parser::tree / parser::parse (C10). The closure passed to Option::map_or is lambda-lifted (rule R10).
//@include types.vs

pub mod element_parser_fns {
use super::*;
use crate::tokenizer;
pub use crate::element_parser::*;
//@import element_parse only=-
}

pub mod parser_impl {
use super::*;
use crate::tokenizer;
use crate::element_parser_fns as element_parser;
use crate::parser::*;
//@item file=parser.rs kind=enum name=State

//@include parser_vocab.vs
pub open spec fn upto(c: int, n: int) -> int { if c <= n { c } else { n } }

/// the closing tag el2 names one of the open elements
pub open spec fn closes_some(parents: Seq<&element_parser::Element>, el2: element_parser::Element) -> bool {
    exists|i: int| 0 <= i < parents.len() && (#[trigger] parents[i]).name@ == spec_trim_start(el2.name@, "/")
}

/// what one call of tree appends: the parts built from tokens[c0 .. stop), and how it stopped
pub open spec fn tree_post<'a, 'b, 'c, 'd>(tokens: Seq<tokenizer::Token<'a, 'b, 'c>>, c0: int, new: Seq<ContentPart<'a, 'b, 'c, 'd>>, c1: int, end: Option<(&'d tokenizer::Token<'a, 'b, 'c>, element_parser::Element<'a>)>, parents: Seq<&element_parser::Element>) -> bool {
    let n = tokens.len() as int;
    &&& c1 <= 2 * n + 1 - c0
    &&& match end {
        None => c1 > n && flatten(new) == tokens.subrange(c0, n),
        Some(te) => c0 < c1 <= n && *te.0 == tokens[c1 - 1] && flatten(new) == tokens.subrange(c0, c1 - 1) && closes_some(parents, te.1),
    }
}
/// what the lifted closure returns for the opening-tag candidate t = tokens[oc - 1]
pub open spec fn closure_post<'a, 'b, 'c, 'd>(tokens: Seq<tokenizer::Token<'a, 'b, 'c>>, oc: int, c1: int, ret: State<'a, 'b, 'c, 'd>, parents: Seq<&element_parser::Element>) -> bool {
    let n = tokens.len() as int;
    &&& oc <= c1 <= 2 * n + 1 - oc
    &&& match ret {
        State::Closed(te) => c1 == oc && *te.0 == tokens[oc - 1] && closes_some(parents, te.1),
        State::Content(ps) => flatten(ps@) == tokens.subrange(oc - 1, upto(c1, n)),
        State::Hoisted(pte) => c1 <= n && *pte.1 == tokens[c1 - 1] && flatten(pte.0@) == tokens.subrange(oc - 1, c1 - 1) && closes_some(parents, pte.2),
    }
}

//@fn id=parser_tree file=parser.rs name=tree props=C01,C02,C03,C04,C10
//@ret r
//@unshadow cursor as cur
//@requires
    cursor <= tokens@.len(),
    2 * tokens@.len() + 2 <= usize::MAX,
//@ensures label=tree_consumes_tokens_in_order props=C01,C02,C03,C04,C10
    final(parts)@.len() >= old(parts)@.len(),
    final(parts)@.take(old(parts)@.len() as int) == old(parts)@,
    tree_post(tokens@, cursor as int, final(parts)@.skip(old(parts)@.len() as int), r.0 as int, r.1, parent_elements@),
//@fn-decreases
    tokens@.len() + 1 - cursor, 0int
//@breaktype 1 type="(usize, Option<(&'d tokenizer::Token<'a, 'b, 'c>, element_parser::Element<'a>)>)"
//@lift-closure 1 name=__tree_closure1 args="el, t, &parent_elements, tokens, &mut cur" deref=cur
    pub fn __tree_closure1<'a, 'b, 'c, 'd>(
        el: element_parser::Element<'a>,
        t: &'d tokenizer::Token<'a, 'b, 'c>,
        parent_elements: &Vec<&element_parser::Element>,
        tokens: &'a Vec<tokenizer::Token<'a, 'b, 'c>>,
        cur: &mut usize,
    ) -> (ret: State<'a, 'b, 'c, 'd>)
        requires
            1 <= *old(cur) <= tokens@.len(),
            *t == tokens@[*old(cur) - 1],
            2 * tokens@.len() + 2 <= usize::MAX,
        ensures
            closure_post(tokens@, *old(cur) as int, *final(cur) as int, ret, parent_elements@),
        decreases tokens@.len() + 1 - *old(cur), 1int
//@loop 1
//@invariant_except_break
    cursor <= cur <= 2 * tokens@.len() + 1 - cursor,
    cursor <= tokens@.len(),
    2 * tokens@.len() + 2 <= usize::MAX,
    parts@.len() >= old(parts)@.len(),
    parts@.take(old(parts)@.len() as int) == old(parts)@,
    flatten(parts@.skip(old(parts)@.len() as int)) == tokens@.subrange(cursor as int, upto(cur as int, tokens@.len() as int)),
    cur > tokens@.len() ==> cur <= 2 * tokens@.len() - cursor,
//@loop-ensures
    parts@.len() >= old(parts)@.len(),
    parts@.take(old(parts)@.len() as int) == old(parts)@,
    tree_post(tokens@, cursor as int, parts@.skip(old(parts)@.len() as int), __lv1.0 as int, __lv1.1, parent_elements@),
//@decreases
    2 * tokens@.len() + 2 - cur
//@loop 2
//@invariant_except_break
    it_ok(__itA1),
    !__rA1,
    0 <= __m <= parent_elements@.len(),
    it_rem(__itA1) =~= parent_elements@.as_ref().skip(__m),
//@loop-ensures
    __rA1 ==> exists|i: int| 0 <= i < parent_elements@.len() && (#[trigger] parent_elements@[i]).name@ == pair_name@,
//@decreases
    IteratorSpec::decrease(&__itA1)->0
//@at before "loop {" 2
    let ghost mut __m: int = 0;
    proof { assert(parent_elements@.as_ref().skip(0) =~= parent_elements@.as_ref()); }
//@at loop 2 start
    let ghost __rest = it_rem(__itA1);
//@at before "let parent_el = __xA1;"
    proof {
        assert(__rest[0] == __xA1);
        assert(*__xA1 == parent_elements@[__m]);
        assert(__rest.drop_first() =~= parent_elements@.as_ref().skip(__m + 1));
        __m = __m + 1;
    }
//@at before "return State::Closed((t, el));"
    broadcast use axiom_trim_start_str;
    proof { assert(closes_some(parent_elements@, el)); }
//@at before "let mut cur = cursor;"
    proof {
        assert(parts@.skip(parts@.len() as int) =~= Seq::<ContentPart<'a, 'b, 'c, 'd>>::empty());
        assert(parts@.take(parts@.len() as int) =~= parts@);
        assert(tokens@.subrange(cursor as int, cursor as int) =~= Seq::<tokenizer::Token<'a, 'b, 'c>>::empty());
    }
//@at loop 1 start
    broadcast use axiom_into_seq_vec;
    let ghost __p0 = parts@;
    let ghost __c0 = cur as int;
    let ghost __n = tokens@.len() as int;
    let ghost __k = old(parts)@.len() as int;
//@at before "let part: State<'a, 'b, 'c, 'd> = match t.kind {"
    proof {
        lemma_flatten_empty();
        assert(__c0 < __n && *t == tokens@[__c0]);
        assert(cursor < cur <= tokens@.len());
        lemma_flatten_one(ContentPart::Text(Text { token: t }));
        assert(tokens@.subrange(__c0, __c0 + 1) =~= seq![tokens@[__c0]]);
        let tx = ContentPart::Text(Text { token: t });
        assert forall|s: Seq<ContentPart<'a, 'b, 'c, 'd>>| s.len() == 1 && s[0] == tx implies #[trigger] flatten(s) == tokens@.subrange(__c0, __c0 + 1) by {
            lemma_flatten_singleton(s, tx);
        }
    }
//@at before "match part {"
    let ghost __part = part;
    proof {
        assert(parts@ == __p0);
        // what this iteration appends (or hands back), in terms of the token list
        assert(match __part {
            State::Content(ps) => flatten(ps@) == tokens@.subrange(__c0, upto(cur as int, __n)) && cur as int > __c0,
            State::Closed(te) => cur as int == __c0 + 1 && *te.0 == tokens@[__c0] && closes_some(parent_elements@, te.1),
            State::Hoisted(pte) => cur as int <= __n && cur as int > __c0 && *pte.1 == tokens@[cur - 1] && flatten(pte.0@) == tokens@.subrange(__c0, cur - 1) && closes_some(parent_elements@, pte.2),
        });
    }
//@at loop 1 end
    proof {
        let x = parts@.skip(__p0.len() as int);
        assert(__part is Content);
        assert(x =~= __part->Content_0@);
        assert(__c0 < __n);
        assert(parts@ =~= __p0 + x);
        assert(parts@.skip(__k) =~= __p0.skip(__k) + x);
        lemma_flatten_add(__p0.skip(__k), x);
        assert(parts@.take(__k) =~= __p0.take(__k));
        assert(tokens@.subrange(cursor as int, upto(__c0, __n)) + tokens@.subrange(__c0, upto(cur as int, __n)) =~= tokens@.subrange(cursor as int, upto(cur as int, __n)));
    }
//@at before "return (cur, Some((t, el)));"
    proof {
        let x = parts@.skip(__p0.len() as int);
        assert(__part is Hoisted);
        assert(x =~= (__part->Hoisted_0).0@);
        assert(__c0 < __n);
        assert(parts@ =~= __p0 + x);
        assert(parts@.skip(__k) =~= __p0.skip(__k) + x);
        lemma_flatten_add(__p0.skip(__k), x);
        assert(parts@.take(__k) =~= __p0.take(__k));
        assert(tokens@.subrange(cursor as int, __c0) + tokens@.subrange(__c0, cur - 1) =~= tokens@.subrange(cursor as int, cur - 1));
    }
//@at before "let mut next_parent_elements = parent_elements.clone();"
    let ghost __oc = *cur as int;
    let ghost __n = tokens@.len() as int;
//@at after "next_parent_elements.push(&el);"
    let ghost __np = next_parent_elements@;
    proof {
        assert(__np =~= parent_elements@.push(&el));
    }
//@at before "if let Some((end_token, end_el)) = end_part {"
    broadcast use axiom_into_seq_vec;
    proof {
        lemma_flatten_empty();
        assert(children@.skip(0) =~= children@);
        lemma_flatten_one(ContentPart::Text(Text { token: t }));
        assert(tree_post(tokens@, __oc, children@, *cur as int, end_part, __np));
        assert(__oc <= *cur <= 2 * __n + 1 - __oc);
    }
//@at before "State::Content(vec![ContentPart::Element(Element {"
    proof {
        let e = ContentPart::Element(Element { start_element: el, start_token: t, end_token, children });
        lemma_flatten_one(e);
        assert(flatten(children@) == tokens@.subrange(__oc, *cur - 1));
        assert(*end_token == tokens@[*cur - 1]);
        assert(flatten(seq![e]) =~= seq![tokens@[__oc - 1]] + tokens@.subrange(__oc, *cur - 1) + seq![tokens@[*cur - 1]]);
        assert(__oc == *old(cur));
        assert(flatten(seq![e]) == tokens@.subrange(__oc - 1, upto(*cur as int, __n)));
        assert forall|s: Seq<ContentPart<'a, 'b, 'c, 'd>>| s.len() == 1 && s[0] == e implies #[trigger] flatten(s) == tokens@.subrange(__oc - 1, upto(*cur as int, __n)) by {
            lemma_flatten_singleton(s, e);
        }
        assert(seq![tokens@[__oc - 1]] + tokens@.subrange(__oc, *cur - 1) + seq![tokens@[*cur - 1]] =~= tokens@.subrange(__oc - 1, *cur as int));
    }
//@at before "State::Hoisted((parts, end_token, end_el))"
    proof {
        // the open element named by end_el is not el itself, so it is one of our parents
        let i = choose|i: int| 0 <= i < __np.len() && (#[trigger] __np[i]).name@ == spec_trim_start(end_el.name@, "/");
        assert(i < parent_elements@.len());
        assert(__np[i] == parent_elements@[i]);
        assert(closes_some(parent_elements@, end_el));
        assert(parts@ =~= seq![ContentPart::Text(Text { token: t })] + children@);
        lemma_flatten_add(seq![ContentPart::Text(Text { token: t })], children@);
        assert(seq![tokens@[__oc - 1]] + tokens@.subrange(__oc, *cur - 1) =~= tokens@.subrange(__oc - 1, *cur - 1));
        assert(flatten(parts@) == tokens@.subrange(__oc - 1, *cur - 1));
    }
//@at before "State::Content(parts)"
    proof {
        assert(parts@ =~= seq![ContentPart::Text(Text { token: t })] + children@);
        lemma_flatten_add(seq![ContentPart::Text(Text { token: t })], children@);
        assert(seq![tokens@[__oc - 1]] + tokens@.subrange(__oc, __n) =~= tokens@.subrange(__oc - 1, __n));
        assert(__oc == *old(cur));
        assert(flatten(parts@) == tokens@.subrange(__oc - 1, upto(*cur as int, __n)));
    }
//@end

//@fn id=parser_parse_proved file=parser.rs name=parse props=C01,C02,C03,C04,C10
//@ret r
//@requires
    2 * tokens@.len() + 2 <= usize::MAX,
//@ensures label=every_token_once_in_order props=C01,C02,C03,C04,C10
    flatten(r@) == tokens@,
//@at after "tree(tokens, 0, &mut content_parts, vec![]);"
    proof {
        assert(content_parts@.skip(0) =~= content_parts@);
        assert(tokens@.subrange(0, tokens@.len() as int) =~= tokens@);
    }
//@end

} // mod parser_impl
