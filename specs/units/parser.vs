//@unit parser
// parser::tree / parser::parse (C10). The closure passed to Option::map_or is lambda-lifted (rule R10).
//@include types.vs

pub mod element_parser_fns {
use super::*;
use crate::tokenizer;
pub use crate::element_parser::*;
//@include ep_vocab.vs
//@import element_parse only=parse_name_is_the_first_range
}

pub mod parser_impl {
use super::*;
use crate::tokenizer;
use crate::element_parser_fns as element_parser;
use crate::element_parser_fns::ep_name;
use crate::parser::*;
//@item file=parser.rs kind=enum name=State

//@include parser_vocab.vs
//@include stack_vocab.vs
pub open spec fn pnames(parents: Seq<&element_parser::Element>) -> Seq<Seq<char>> {
    Seq::new(parents.len(), |i: int| parents[i].name@)
}
pub open spec fn end_name<'a, 'b, 'c, 'd>(end: Option<(&'d Tok<'a, 'b, 'c>, element_parser::Element<'a>)>) -> Option<Seq<char>> {
    match end { None => None, Some(te) => Some(te.1.name@) }
}
/// C10, per call of tree: for every machine state whose open elements are this call's (non-phantom) parents,
/// the call is a segment of the machine's run
pub open spec fn tree_post2<'a, 'b, 'c, 'd>(tokens: Seq<Tok<'a, 'b, 'c>>, c0: int, new: Seq<ContentPart<'a, 'b, 'c, 'd>>, c1: int, end: Option<(&'d Tok<'a, 'b, 'c>, element_parser::Element<'a>)>, parents: Seq<&element_parser::Element>) -> bool {
    forall|s: St<Tok<'a, 'b, 'c>>| #[trigger] corr(s.fr, pnames(parents)) ==> tree_sem(s, tokens, c0, gp(new), c1, end_name(end), tok_nm())
}
/// what one loop iteration of tree (token c0i) contributes, seen from a machine state s "at c0i"
pub open spec fn part_sem<'a, 'b, 'c, 'd>(s: St<Tok<'a, 'b, 'c>>, tokens: Seq<Tok<'a, 'b, 'c>>, c0i: int, c1: int, part: State<'a, 'b, 'c, 'd>) -> bool {
    let n = tokens.len() as int;
    match part {
        State::Closed(te) => tok_nm()(tokens[c0i]) == Some(te.1.name@) && slash(te.1.name@) && innermost(s.fr, unslash(te.1.name@)) >= 0,
        State::Content(ps) => if c1 <= n { seg_exact(s, tokens, c0i, c1, tok_nm(), gp(ps@)) } else { seg(s, tokens, c0i, n, tok_nm(), gp(ps@)) },
        State::Hoisted(pte) => seg(s, tokens, c0i, c1 - 1, tok_nm(), gp(pte.0@)) && closer_at(s, tokens, c0i, c1 - 1, tok_nm(), pte.2.name@),
    }
}
pub open spec fn closure_post2<'a, 'b, 'c, 'd>(tokens: Seq<Tok<'a, 'b, 'c>>, oc: int, c1: int, ret: State<'a, 'b, 'c, 'd>, parents: Seq<&element_parser::Element>) -> bool {
    forall|s: St<Tok<'a, 'b, 'c>>| #[trigger] corr(s.fr, pnames(parents)) ==> part_sem(s, tokens, oc - 1, c1, ret)
}
pub open spec fn loop_sem<'a, 'b, 'c>(s: St<Tok<'a, 'b, 'c>>, tokens: Seq<Tok<'a, 'b, 'c>>, c0: int, cur: int, g: Seq<GP<Tok<'a, 'b, 'c>>>) -> bool {
    let n = tokens.len() as int;
    if cur <= n { seg_exact(s, tokens, c0, cur, tok_nm(), g) } else { seg(s, tokens, c0, n, tok_nm(), g) }
}
pub open spec fn upto(c: int, n: int) -> int { if c <= n { c } else { n } }

/// the closing tag el2 names one of the open elements
pub open spec fn closes_some(parents: Seq<&element_parser::Element>, el2: element_parser::Element) -> bool {
    exists|i: int| 0 <= i < parents.len() && (#[trigger] parents[i]).name@ == spec_trim_start(el2.name@, "/")
}

/// what one call of tree appends: the parts built from tokens[c0 .. stop), and how it stopped
pub open spec fn tree_post<'a, 'b, 'c, 'd>(tokens: Seq<tokenizer::Token<'a, 'b, 'c>>, c0: int, new: Seq<ContentPart<'a, 'b, 'c, 'd>>, c1: int, end: Option<(&'d tokenizer::Token<'a, 'b, 'c>, element_parser::Element<'a>)>, parents: Seq<&element_parser::Element>) -> bool {
    let n = tokens.len() as int;
    &&& c1 <= 2 * n + 1 - c0
    &&& match end {
        None => c1 > n && flatten(new) == tokens.subrange(c0, n),
        Some(te) => c0 < c1 <= n && *te.0 == tokens[c1 - 1] && flatten(new) == tokens.subrange(c0, c1 - 1) && closes_some(parents, te.1),
    }
}
/// what the lifted closure returns for the opening-tag candidate t = tokens[oc - 1]
pub open spec fn closure_post<'a, 'b, 'c, 'd>(tokens: Seq<tokenizer::Token<'a, 'b, 'c>>, oc: int, c1: int, ret: State<'a, 'b, 'c, 'd>, parents: Seq<&element_parser::Element>) -> bool {
    let n = tokens.len() as int;
    &&& oc <= c1 <= 2 * n + 1 - oc
    &&& match ret {
        State::Closed(te) => c1 == oc && *te.0 == tokens[oc - 1] && closes_some(parents, te.1),
        State::Content(ps) => flatten(ps@) == tokens.subrange(oc - 1, upto(c1, n)),
        State::Hoisted(pte) => c1 <= n && *pte.1 == tokens[c1 - 1] && flatten(pte.0@) == tokens.subrange(oc - 1, c1 - 1) && closes_some(parents, pte.2),
    }
}

//@fn id=parser_tree file=parser.rs name=tree props=C01,C02,C03,C04,C10
//@ret r
//@unshadow cursor as cur
//@requires
    cursor <= tokens@.len(),
    2 * tokens@.len() + 2 <= usize::MAX,
//@ensures label=tree_consumes_tokens_in_order props=C01,C02,C03,C04,C10
    final(parts)@.len() >= old(parts)@.len(),
    final(parts)@.take(old(parts)@.len() as int) == old(parts)@,
    tree_post(tokens@, cursor as int, final(parts)@.skip(old(parts)@.len() as int), r.0 as int, r.1, parent_elements@),
//@ensures label=tree_is_a_segment_of_the_stack_machine props=C10
    tree_post2(tokens@, cursor as int, final(parts)@.skip(old(parts)@.len() as int), r.0 as int, r.1, parent_elements@),
//@fn-decreases
    tokens@.len() + 1 - cursor, 0int
//@breaktype 1 type="(usize, Option<(&'d tokenizer::Token<'a, 'b, 'c>, element_parser::Element<'a>)>)"
//@lift-closure 1 name=__tree_closure1 args="el, t, &parent_elements, tokens, &mut cur" deref=cur
    pub fn __tree_closure1<'a, 'b, 'c, 'd>(
        el: element_parser::Element<'a>,
        t: &'d tokenizer::Token<'a, 'b, 'c>,
        parent_elements: &Vec<&element_parser::Element>,
        tokens: &'a Vec<tokenizer::Token<'a, 'b, 'c>>,
        cur: &mut usize,
    ) -> (ret: State<'a, 'b, 'c, 'd>)
        requires
            1 <= *old(cur) <= tokens@.len(),
            *t == tokens@[*old(cur) - 1],
            2 * tokens@.len() + 2 <= usize::MAX,
            tok_nm()(*t) == Some(el.name@),
        ensures
            closure_post(tokens@, *old(cur) as int, *final(cur) as int, ret, parent_elements@),
            closure_post2(tokens@, *old(cur) as int, *final(cur) as int, ret, parent_elements@),
        decreases tokens@.len() + 1 - *old(cur), 1int
//@loop 1
//@invariant_except_break
    cursor <= cur <= 2 * tokens@.len() + 1 - cursor,
    cursor <= tokens@.len(),
    2 * tokens@.len() + 2 <= usize::MAX,
    parts@.len() >= old(parts)@.len(),
    parts@.take(old(parts)@.len() as int) == old(parts)@,
    flatten(parts@.skip(old(parts)@.len() as int)) == tokens@.subrange(cursor as int, upto(cur as int, tokens@.len() as int)),
    cur > tokens@.len() ==> cur <= 2 * tokens@.len() - cursor,
    forall|s: St<Tok<'a, 'b, 'c>>| #[trigger] corr(s.fr, pnames(parent_elements@)) ==> loop_sem(s, tokens@, cursor as int, cur as int, gp(parts@.skip(old(parts)@.len() as int))),
//@loop-ensures
    parts@.len() >= old(parts)@.len(),
    parts@.take(old(parts)@.len() as int) == old(parts)@,
    tree_post(tokens@, cursor as int, parts@.skip(old(parts)@.len() as int), __lv1.0 as int, __lv1.1, parent_elements@),
    tree_post2(tokens@, cursor as int, parts@.skip(old(parts)@.len() as int), __lv1.0 as int, __lv1.1, parent_elements@),
//@decreases
    2 * tokens@.len() + 2 - cur
//@loop 2
//@invariant_except_break
    it_ok(__itA1),
    !__rA1,
    0 <= __m <= parent_elements@.len(),
    it_rem(__itA1) =~= parent_elements@.as_ref().skip(__m),
    forall|i: int| 0 <= i < __m ==> (#[trigger] parent_elements@[i]).name@ != pair_name@,
//@loop-ensures
    __rA1 ==> exists|i: int| 0 <= i < parent_elements@.len() && (#[trigger] parent_elements@[i]).name@ == pair_name@,
    !__rA1 ==> forall|i: int| 0 <= i < parent_elements@.len() ==> (#[trigger] parent_elements@[i]).name@ != pair_name@,
//@decreases
    IteratorSpec::decrease(&__itA1)->0
//@at before "loop {" 2
    let ghost mut __m: int = 0;
    proof { assert(parent_elements@.as_ref().skip(0) =~= parent_elements@.as_ref()); }
//@at loop 2 start
    let ghost __rest = it_rem(__itA1);
//@at before "let parent_el = __xA1;"
    proof {
        assert(__rest[0] == __xA1);
        assert(*__xA1 == parent_elements@[__m]);
        assert(__rest.drop_first() =~= parent_elements@.as_ref().skip(__m + 1));
        __m = __m + 1;
    }
//@at before "return State::Closed((t, el));"
    broadcast use axiom_trim_start_str, axiom_starts_with_str;
    proof {
        assert(closes_some(parent_elements@, el));
        reveal_strlit("/");
        assert("/"@ =~= seq!['/']);
        assert(el.name@.take(1)[0] == '/');
        assert(slash(el.name@));
        assert(pair_name@ == unslash(el.name@));
        lemma_unslash_noslash(el.name@);
        let pn = pnames(parent_elements@);
        let wi = choose|i: int| 0 <= i < parent_elements@.len() && (#[trigger] parent_elements@[i]).name@ == pair_name@;
        assert(pn[wi] == unslash(el.name@));
        assert forall|s: St<Tok<'a, 'b, 'c>>| #[trigger] corr(s.fr, pn) implies innermost(s.fr, unslash(el.name@)) >= 0 by {
            lemma_corr_any(s.fr, pn, unslash(el.name@));
        }
    }
//@at before "let mut cur = cursor;"
    proof {
        assert(parts@.skip(parts@.len() as int) =~= Seq::<ContentPart<'a, 'b, 'c, 'd>>::empty());
        assert(parts@.take(parts@.len() as int) =~= parts@);
        assert(tokens@.subrange(cursor as int, cursor as int) =~= Seq::<tokenizer::Token<'a, 'b, 'c>>::empty());
        assert(gp(parts@.skip(parts@.len() as int)) =~= Seq::<GP<Tok<'a, 'b, 'c>>>::empty());
        assert forall|s: St<Tok<'a, 'b, 'c>>| #[trigger] corr(s.fr, pnames(parent_elements@)) implies loop_sem(s, tokens@, cursor as int, cursor as int, Seq::<GP<Tok<'a, 'b, 'c>>>::empty()) by {
            lemma_push_parts(s, Seq::empty(), Seq::empty());
        }
    }
//@at loop 1 start
    broadcast use axiom_into_seq_vec;
    let ghost __p0 = parts@;
    let ghost __c0 = cur as int;
    let ghost __n = tokens@.len() as int;
    let ghost __k = old(parts)@.len() as int;
    let ghost __pn = pnames(parent_elements@);
    let ghost __g0 = gp(parts@.skip(__k));
//@at before "if t.is_none() {"
    proof {
        assert forall|s: St<Tok<'a, 'b, 'c>>| #[trigger] corr(s.fr, __pn) implies (__c0 >= __n ==> seg(s, tokens@, cursor as int, __n, tok_nm(), __g0)) by {
            if __c0 == __n { lemma_seg_exact_is_seg(s, tokens@, cursor as int, __n, tok_nm(), __g0); }
        }
    }
//@at before "let part: State<'a, 'b, 'c, 'd> = match t.kind {"
    proof {
        lemma_flatten_empty();
        assert(__c0 < __n && *t == tokens@[__c0]);
        assert(cursor < cur <= tokens@.len());
        lemma_flatten_one(ContentPart::Text(Text { token: t }));
        assert(tokens@.subrange(__c0, __c0 + 1) =~= seq![tokens@[__c0]]);
        let tx = ContentPart::Text(Text { token: t });
        assert forall|s: Seq<ContentPart<'a, 'b, 'c, 'd>>| s.len() == 1 && s[0] == tx implies #[trigger] flatten(s) == tokens@.subrange(__c0, __c0 + 1) by {
            lemma_flatten_singleton(s, tx);
        }
    }
//@at before "match part {"
    let ghost __part = part;
    proof {
        assert(parts@ == __p0);
        // what this iteration appends (or hands back), in terms of the token list
        assert(match __part {
            State::Content(ps) => flatten(ps@) == tokens@.subrange(__c0, upto(cur as int, __n)) && cur as int > __c0,
            State::Closed(te) => cur as int == __c0 + 1 && *te.0 == tokens@[__c0] && closes_some(parent_elements@, te.1),
            State::Hoisted(pte) => cur as int <= __n && cur as int > __c0 && *pte.1 == tokens@[cur - 1] && flatten(pte.0@) == tokens@.subrange(__c0, cur - 1) && closes_some(parent_elements@, pte.2),
        });
        let tx = ContentPart::Text(Text { token: t });
        assert forall|s: St<Tok<'a, 'b, 'c>>| #[trigger] corr(s.fr, __pn) implies part_sem(s, tokens@, __c0, cur as int, __part) by {
            if tok_nm()(tokens@[__c0]) is None {
                let e = Seq::<GP<Tok<'a, 'b, 'c>>>::empty();
                lemma_push_parts(s, e, e);
                lemma_text_step(s, tokens@, __c0, __c0, tok_nm(), e);
                let ps = __part->Content_0@;
                lemma_gp_one(ps, tx);
                assert(e + seq![GP::Txt(tokens@[__c0])] =~= seq![GP::Txt(tokens@[__c0])]);
            }
        }
        // a closing tag for one of our parents: the segment ends just before it
        assert forall|s: St<Tok<'a, 'b, 'c>>| #[trigger] corr(s.fr, __pn) implies (__part matches State::Closed(te) ==>
                seg(s, tokens@, cursor as int, __c0, tok_nm(), __g0) && closer_at(s, tokens@, cursor as int, __c0, tok_nm(), te.1.name@)) by {
            if __part is Closed {
                let s2 = push_parts(s, __g0);
                lemma_push_parts(s, __g0, Seq::empty());
                lemma_corr_names(s.fr, s2.fr, __pn);
                assert(corr(s2.fr, __pn));
                let nme = (__part->Closed_0).1.name@;
                lemma_innermost_names(s2.fr, s.fr, unslash(nme));
                lemma_closed_here(s, tokens@, cursor as int, __c0, tok_nm(), __g0, nme);
            }
        }
    }
//@at loop 1 end
    proof {
        let x = parts@.skip(__p0.len() as int);
        assert(__part is Content);
        assert(x =~= __part->Content_0@);
        assert(__c0 < __n);
        assert(parts@ =~= __p0 + x);
        assert(parts@.skip(__k) =~= __p0.skip(__k) + x);
        lemma_flatten_add(__p0.skip(__k), x);
        assert(parts@.take(__k) =~= __p0.take(__k));
        assert(tokens@.subrange(cursor as int, upto(__c0, __n)) + tokens@.subrange(__c0, upto(cur as int, __n)) =~= tokens@.subrange(cursor as int, upto(cur as int, __n)));
        lemma_gp_add(__p0.skip(__k), x);
        assert forall|s: St<Tok<'a, 'b, 'c>>| #[trigger] corr(s.fr, __pn) implies loop_sem(s, tokens@, cursor as int, cur as int, gp(parts@.skip(__k))) by {
            let s2 = push_parts(s, __g0);
            lemma_push_parts(s, __g0, Seq::empty());
            lemma_corr_names(s.fr, s2.fr, __pn);
            assert(corr(s2.fr, __pn));
            assert(part_sem(s2, tokens@, __c0, cur as int, __part));
            lemma_seg_compose(s, tokens@, cursor as int, __c0, upto(cur as int, __n), tok_nm(), __g0, gp(x));
        }
    }
//@at before "return (cur, Some((t, el)));"
    proof {
        let x = parts@.skip(__p0.len() as int);
        assert(__part is Hoisted);
        assert(x =~= (__part->Hoisted_0).0@);
        assert(__c0 < __n);
        assert(parts@ =~= __p0 + x);
        assert(parts@.skip(__k) =~= __p0.skip(__k) + x);
        lemma_flatten_add(__p0.skip(__k), x);
        assert(parts@.take(__k) =~= __p0.take(__k));
        assert(tokens@.subrange(cursor as int, __c0) + tokens@.subrange(__c0, cur - 1) =~= tokens@.subrange(cursor as int, cur - 1));
        lemma_gp_add(__p0.skip(__k), x);
        let ename = (__part->Hoisted_0).2.name@;
        assert forall|s: St<Tok<'a, 'b, 'c>>| #[trigger] corr(s.fr, __pn) implies
                seg(s, tokens@, cursor as int, cur - 1, tok_nm(), gp(parts@.skip(__k))) && closer_at(s, tokens@, cursor as int, cur - 1, tok_nm(), ename) by {
            let s2 = push_parts(s, __g0);
            lemma_push_parts(s, __g0, Seq::empty());
            lemma_corr_names(s.fr, s2.fr, __pn);
            assert(corr(s2.fr, __pn));
            assert(part_sem(s2, tokens@, __c0, cur as int, __part));
            lemma_seg_compose(s, tokens@, cursor as int, __c0, cur - 1, tok_nm(), __g0, gp(x));
        }
    }
//@at before "let mut next_parent_elements = parent_elements.clone();"
    let ghost __oc = *cur as int;
    let ghost __n = tokens@.len() as int;
    let ghost __pn = pnames(parent_elements@);
    let ghost __nm = el.name@;
    broadcast use axiom_trim_start_str, axiom_starts_with_str;
    proof {
        reveal_strlit("/");
        assert("/"@ =~= seq!['/']);
        if slash(__nm) { assert(__nm.take(1) =~= seq!['/']); }
        assert(slash(__nm) ==> forall|i: int| 0 <= i < parent_elements@.len() ==> (#[trigger] parent_elements@[i]).name@ != unslash(__nm));
        lemma_unslash_noslash(__nm);
        assert forall|s: St<Tok<'a, 'b, 'c>>| #[trigger] corr(s.fr, __pn) implies (slash(__nm) ==> innermost(s.fr, unslash(__nm)) < 0) by {
            lemma_corr_any(s.fr, __pn, unslash(__nm));
            if slash(__nm) && innermost(s.fr, unslash(__nm)) >= 0 {
                let i = choose|i: int| 0 <= i < __pn.len() && #[trigger] __pn[i] == unslash(__nm);
                assert(parent_elements@[i].name@ == unslash(__nm));
            }
        }
    }
//@at after "next_parent_elements.push(&el);"
    let ghost __np = next_parent_elements@;
    proof {
        assert(__np =~= parent_elements@.push(&el));
    }
//@at before "if let Some((end_token, end_el)) = end_part {"
    broadcast use axiom_into_seq_vec;
    proof {
        lemma_flatten_empty();
        assert(children@.skip(0) =~= children@);
        lemma_flatten_one(ContentPart::Text(Text { token: t }));
        assert(tree_post(tokens@, __oc, children@, *cur as int, end_part, __np));
        assert(__oc <= *cur <= 2 * __n + 1 - __oc);
        assert(tree_post2(tokens@, __oc, children@, *cur as int, end_part, __np));
        assert(pnames(__np) =~= __pn.push(__nm));
        let ch = gp(children@);
        let tk = tokens@[__oc - 1];
        // per machine state: what this opening-tag candidate and its recursive call amount to
        assert forall|s: St<Tok<'a, 'b, 'c>>| #[trigger] corr(s.fr, __pn) implies (match end_name(end_part) {
            None => seg(s, tokens@, __oc - 1, __n, tok_nm(), seq![GP::Txt(tk)] + ch),
            Some(ename) =>
                if __nm == unslash(ename) { seg_exact(s, tokens@, __oc - 1, *cur as int, tok_nm(), seq![GP::El(tk, tokens@[*cur - 1], ch)]) }
                else { seg(s, tokens@, __oc - 1, *cur - 1, tok_nm(), seq![GP::Txt(tk)] + ch) && closer_at(s, tokens@, __oc - 1, *cur - 1, tok_nm(), ename) },
        }) by {
            let s1 = after_open(s, tk, __nm);
            lemma_corr_after_open(s, __pn, tk, __nm);
            assert(corr(s1.fr, pnames(__np)));
            assert(tree_sem(s1, tokens@, __oc, ch, *cur as int, end_name(end_part), tok_nm()));
            lemma_opener_result(s, tokens@, __oc - 1, *cur as int, tok_nm(), __nm, ch, end_name(end_part));
        }
    }
//@at before "State::Content(vec![ContentPart::Element(Element {"
    proof {
        let e = ContentPart::Element(Element { start_element: el, start_token: t, end_token, children });
        lemma_flatten_one(e);
        assert(flatten(children@) == tokens@.subrange(__oc, *cur - 1));
        assert(*end_token == tokens@[*cur - 1]);
        assert(flatten(seq![e]) =~= seq![tokens@[__oc - 1]] + tokens@.subrange(__oc, *cur - 1) + seq![tokens@[*cur - 1]]);
        assert(__oc == *old(cur));
        assert(flatten(seq![e]) == tokens@.subrange(__oc - 1, upto(*cur as int, __n)));
        assert forall|s: Seq<ContentPart<'a, 'b, 'c, 'd>>| s.len() == 1 && s[0] == e implies #[trigger] flatten(s) == tokens@.subrange(__oc - 1, upto(*cur as int, __n)) by {
            lemma_flatten_singleton(s, e);
        }
        assert(seq![tokens@[__oc - 1]] + tokens@.subrange(__oc, *cur - 1) + seq![tokens@[*cur - 1]] =~= tokens@.subrange(__oc - 1, *cur as int));
        assert(__nm == unslash(end_el.name@));
        let gE = seq![GP::El(tokens@[__oc - 1], tokens@[*cur - 1], gp(children@))];
        assert forall|ps: Seq<ContentPart<'a, 'b, 'c, 'd>>| ps.len() == 1 && ps[0] == e implies #[trigger] gp(ps) == gE by {
            lemma_gp_one(ps, e);
        }
        assert(*cur <= __n);
    }
//@at before "State::Hoisted((parts, end_token, end_el))"
    proof {
        // the open element named by end_el is not el itself, so it is one of our parents
        let i = choose|i: int| 0 <= i < __np.len() && (#[trigger] __np[i]).name@ == spec_trim_start(end_el.name@, "/");
        assert(i < parent_elements@.len());
        assert(__np[i] == parent_elements@[i]);
        assert(closes_some(parent_elements@, end_el));
        assert(parts@ =~= seq![ContentPart::Text(Text { token: t })] + children@);
        lemma_flatten_add(seq![ContentPart::Text(Text { token: t })], children@);
        assert(seq![tokens@[__oc - 1]] + tokens@.subrange(__oc, *cur - 1) =~= tokens@.subrange(__oc - 1, *cur - 1));
        assert(flatten(parts@) == tokens@.subrange(__oc - 1, *cur - 1));
        assert(__nm != unslash(end_el.name@));
        lemma_gp_add(seq![ContentPart::Text(Text { token: t })], children@);
        lemma_gp_one(seq![ContentPart::Text(Text { token: t })], ContentPart::Text(Text { token: t }));
        assert(gp(parts@) == seq![GP::Txt(tokens@[__oc - 1])] + gp(children@));
    }
//@at before "State::Content(parts)"
    proof {
        assert(parts@ =~= seq![ContentPart::Text(Text { token: t })] + children@);
        lemma_flatten_add(seq![ContentPart::Text(Text { token: t })], children@);
        assert(seq![tokens@[__oc - 1]] + tokens@.subrange(__oc, __n) =~= tokens@.subrange(__oc - 1, __n));
        assert(__oc == *old(cur));
        assert(flatten(parts@) == tokens@.subrange(__oc - 1, upto(*cur as int, __n)));
        lemma_gp_add(seq![ContentPart::Text(Text { token: t })], children@);
        lemma_gp_one(seq![ContentPart::Text(Text { token: t })], ContentPart::Text(Text { token: t }));
        assert(gp(parts@) == seq![GP::Txt(tokens@[__oc - 1])] + gp(children@));
        assert(*cur > __n);
    }
//@end

//@fn id=parser_parse_proved file=parser.rs name=parse props=C01,C02,C03,C04,C10
//@ret r
//@requires
    2 * tokens@.len() + 2 <= usize::MAX,
//@ensures label=every_token_once_in_order props=C01,C02,C03,C04,C10
    flatten(r@) == tokens@,
//@ensures label=tree_is_the_stack_rule props=C10
    gp(r@) == stack_parse(tokens@, tok_nm()),
//@at after "tree(tokens, 0, &mut content_parts, vec![]);"
    proof {
        assert(content_parts@.skip(0) =~= content_parts@);
        assert(tokens@.subrange(0, tokens@.len() as int) =~= tokens@);
        let s0 = St::<Tok<'a, 'b, 'c>> { base: Seq::empty(), fr: Seq::empty() };
        let noparents = Seq::<&element_parser::Element>::empty();
        assert(pnames(noparents).len() == 0);
        assert(corr(s0.fr, pnames(noparents)));
        assert(push_parts(s0, gp(content_parts@)).base =~= gp(content_parts@));
    }
//@end

} // mod parser_impl
