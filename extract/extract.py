"""Mechanical extraction of real function text from /repo + contract splicing.

See DESIGN.md 3.1/3.2. Nothing inside a function body is dropped; the rewrites applied are
R1 (break-with-value), R2 (Iterator::fold -> for), R3 (closure headers), R4 (hoist local items),
plus pure annotations: named return value, iterator binder `for P in it: E`, loop contracts, proof
blocks at anchors.  Any anchor that cannot be found raises Undecided (exit 2), never a verdict.
"""
import hashlib
import os
import re
import shlex

from rustlex import lex, sig, match_forward, match_backward, OPEN, CLOSE, LexError


class Undecided(Exception):
    """lost anchor / unsupported construct: the run gives no verdict"""


def norm(s):
    return ' '.join(s.split())


# --------------------------------------------------------------------------------------------
# source access
# --------------------------------------------------------------------------------------------

class Source:
    def __init__(self, root, rel):
        self.rel = rel
        self.path = os.path.join(root, rel)
        try:
            self.text = open(self.path, encoding='utf-8').read()
        except OSError as e:
            raise Undecided(f'lost anchor: cannot read {self.path}: {e}')
        try:
            self.st = sig(lex(self.text))
        except LexError as e:
            raise Undecided(f'cannot lex {self.path}: {e}')
        self.excluded = self._test_spans()

    def _test_spans(self):
        """spans (token index ranges) of `#[cfg(test)] mod X { ... }`"""
        st, out = self.st, []
        for i, t in enumerate(st):
            if t.kind == 'ident' and t.text == 'mod' and i + 2 < len(st) and st[i + 2].text == '{':
                # look back for #[cfg(test)]
                back = norm(''.join(x.text for x in st[max(0, i - 8):i]))
                if 'cfg(test)' in back.replace(' ', ''):
                    out.append((i, match_forward(st, i + 2)))
        return out

    def in_excluded(self, i):
        return any(a <= i <= b for a, b in self.excluded)

    def line_of(self, pos):
        return self.text.count('\n', 0, pos) + 1

    def depth_at(self, i, base=0):
        """brace depth of token i counted from token `base`"""
        d = 0
        for t in self.st[base:i]:
            if t.kind == 'punct':
                if t.text == '{':
                    d += 1
                elif t.text == '}':
                    d -= 1
        return d

    def find_container(self, header):
        """header like 'impl Formatter for IndentRemover' or 'trait Formatter' or 'impl Remover'.
        returns (index of '{', index of '}')"""
        want = norm(header)
        st = self.st
        for i, t in enumerate(st):
            if t.kind == 'ident' and t.text in ('impl', 'trait') and not self.in_excluded(i) and self.depth_at(i) == 0:
                j = i
                while j < len(st) and st[j].text != '{' and st[j].text != ';':
                    j += 1
                if j >= len(st) or st[j].text != '{':
                    continue
                hdr = norm(self.text[st[i].start:st[j].start])
                if hdr == want:
                    return j, match_forward(st, j)
        raise Undecided(f'lost anchor: container `{header}` not found in {self.rel}')

    def find_fn(self, name, container=None):
        st = self.st
        lo, hi, want_depth = 0, len(st), 0
        if container:
            a, b = self.find_container(container)
            lo, hi, want_depth = a + 1, b, 0
        found = []
        i = lo
        while i < hi:
            t = st[i]
            if t.kind == 'ident' and t.text == 'fn' and st[i + 1].text == name and not self.in_excluded(i) \
                    and self.depth_at(i, lo) == want_depth:
                found.append(i)
            i += 1
        if len(found) != 1:
            raise Undecided(f'lost anchor: fn `{name}` ({container or "top level"}) found {len(found)} times in {self.rel}')
        i = found[0]
        # signature ends at the first '{' or ';' at bracket depth 0
        j, d = i, 0
        while True:
            x = st[j]
            if x.kind == 'punct':
                if x.text in ('(', '['):
                    d += 1
                elif x.text in (')', ']'):
                    d -= 1
                elif d == 0 and x.text in ('{', ';'):
                    break
            j += 1
        sig_text = self.text[st[i].start:st[j].start].rstrip()
        if st[j].text == ';':
            body = None
            end = st[j].end
        else:
            k = match_forward(st, j)
            body = self.text[st[j].start:st[k].end]
            end = st[k].end
        return {
            'sig': sig_text, 'body': body, 'line': self.line_of(st[i].start),
            'raw': self.text[st[i].start:end],
        }

    def find_item(self, kind, name):
        """struct / enum / type / const item, verbatim (attributes dropped, visibility dropped)"""
        st = self.st
        for i, t in enumerate(st):
            if t.kind == 'ident' and t.text == kind and st[i + 1].text == name and not self.in_excluded(i) \
                    and self.depth_at(i) == 0:
                j, d = i, 0
                while True:
                    x = st[j]
                    if x.kind == 'punct':
                        if x.text in ('(', '[', '<') and kind != 'const':
                            d += 1 if x.text != '<' else 0
                        if x.text in ('(', '['):
                            pass
                        if x.text in (')', ']'):
                            d -= 1
                        if x.text == '{':
                            k = match_forward(st, j)
                            return self.text[st[i].start:st[k].end], self.line_of(st[i].start)
                        if x.text == ';' and d <= 0:
                            return self.text[st[i].start:st[j].end], self.line_of(st[i].start)
                    j += 1
        raise Undecided(f'lost anchor: {kind} `{name}` not found in {self.rel}')


# --------------------------------------------------------------------------------------------
# rewrite rules on a function's text (signature + body)
# --------------------------------------------------------------------------------------------

def _lex(text):
    return sig(lex(text))


def _expr_end(st, i, stops=(',', ';')):
    """index of the first token at depth 0 (from i) that is in `stops` or an unmatched closer"""
    d = 0
    j = i
    while j < len(st):
        t = st[j]
        if t.kind == 'punct':
            if t.text in OPEN:
                d += 1
            elif t.text in CLOSE:
                if d == 0:
                    return j
                d -= 1
            elif d == 0 and t.text in stops:
                return j
        j += 1
    return j


def rule_r2_fold(text, fold_types, applied):
    """Iterator::fold with a closure -> for loop (core's definition, closure beta-reduced)."""
    while True:
        st = _lex(text)
        idx = [i for i, t in enumerate(st) if t.kind == 'ident' and t.text == 'fold' and i > 0 and st[i - 1].text == '.'
               and st[i + 1].text == '(']
        if not idx:
            return text
        k = len(idx)  # ordinal of the fold processed now (last remaining one)
        i = idx[-1]
        if k not in fold_types:
            raise Undecided(f'R2: no accumulator type given for fold #{k}')
        acc_ty = fold_types[k]
        # receiver start
        j = i - 2  # token before '.'
        while True:
            t = st[j]
            if t.kind == 'punct' and t.text in (')', ']'):
                j = match_backward(st, j) - 1
                continue
            if t.kind == 'ident':
                if j > 0 and st[j - 1].text in ('.', '::'):
                    j -= 2
                    continue
                break
            raise Undecided(f'R2: cannot find receiver start of fold #{k} (token {t.text!r})')
        recv_start = st[j].start
        recv_end = st[i - 1].start  # the '.' before fold
        close = match_forward(st, i + 1)
        # INIT
        e = _expr_end(st, i + 2, stops=(',',))
        if st[e].text != ',':
            raise Undecided('R2: fold without closure argument')
        init = text[st[i + 2].start:st[e].start].strip()
        c = e + 1
        if st[c].text != '|':
            raise Undecided('R2: fold argument is not a closure literal')
        c2 = c + 1
        d = 0
        while not (st[c2].text == '|' and d == 0):
            if st[c2].text in OPEN:
                d += 1
            elif st[c2].text in CLOSE:
                d -= 1
            c2 += 1
        params_text = text[st[c].end:st[c2].start]
        # split params at top-level comma
        pst = st[c + 1:c2]
        d, cut = 0, None
        for q, t in enumerate(pst):
            if t.kind == 'punct':
                if t.text in OPEN or t.text == '<':
                    d += 1
                elif t.text in CLOSE or t.text == '>':
                    d -= 1
                elif t.text == ',' and d == 0 and cut is None:
                    cut = t.start
        if cut is None:
            raise Undecided('R2: closure does not have two parameters')
        pa = text[st[c].end:cut].strip()
        px = text[cut + 1:st[c2].start].strip().rstrip(',').strip()
        body_start = st[c2 + 1].start
        # body: until the closing paren of fold (minus trailing comma)
        last = close - 1
        if st[last].text == ',':
            last -= 1
        body = text[body_start:st[last].end]
        btoks = st[c2 + 1:last + 1]
        for t in btoks:
            if t.kind == 'ident' and t.text == 'return' or t.kind == 'punct' and t.text == '?':
                raise Undecided('R2: closure body contains return/?')
        recv = text[recv_start:recv_end].rstrip()
        acc, x = f'__acc{k}', f'__x{k}'
        new = (f'{{ let mut {acc}: {acc_ty} = {init};\n'
               f'for {x} in {recv} {{\n'
               f'let {pa} = {acc};\nlet {px} = {x};\n'
               f'{acc} = {body};\n}}\n{acc} }}')
        text = text[:recv_start] + new + text[st[close].end:]
        applied.append(f'R2(fold#{k})')


def _receiver_start(st, i, what):
    """st[i] is the method name preceded by '.'; returns token index where the receiver chain starts"""
    j = i - 2
    while True:
        t = st[j]
        if t.kind == 'punct' and t.text in (')', ']'):
            j = match_backward(st, j) - 1
            continue
        if t.kind == 'ident':
            if j > 0 and st[j - 1].text in ('.', '::'):
                j -= 2
                continue
            return j
        raise Undecided(f'{what}: cannot find receiver start (token {t.text!r})')


def rule_r7_adapters(text, types, applied):
    """Iterator::any / find / position with a closure literal -> their definitions in core (a loop over
    next()), closure beta-reduced.  Ordinals count these three adapters in source order."""
    names = ('any', 'find', 'position')
    while True:
        st = _lex(text)
        idx = [i for i, t in enumerate(st) if t.kind == 'ident' and i > 0 and st[i - 1].text == '.' and st[i + 1].text == '(' and (
               (t.text in names and st[i + 2].text == '|')
               or (t.text == 'last' and st[i + 2].text == ')' and st[i - 2].text == ')'))]
        if not idx:
            return text
        k = len(idx)
        i = idx[-1]
        kind = st[i].text
        j = _receiver_start(st, i, 'R7')
        recv = text[st[j].start:st[i - 1].start].rstrip()
        close = match_forward(st, i + 1)
        if kind == 'last':
            it, x, r = f'__itA{k}', f'__xA{k}', f'__rA{k}'
            ty = types.get(k)
            tys = f': {ty}' if ty else ''
            new = (f'({{ let mut {it} = {recv}; let mut {r}{tys} = None;\n'
                   f'loop {{ match {it}.next() {{ Some({x}) => {{ {r} = Some({x}); }}\n None => break, }} }}\n{r} }})')
            text = text[:st[j].start] + new + text[st[close].end:]
            applied.append(f'R7(last#{k})')
            continue
        c = i + 2
        c2 = c + 1
        d = 0
        while not (st[c2].text == '|' and d == 0):
            if st[c2].text in OPEN:
                d += 1
            elif st[c2].text in CLOSE:
                d -= 1
            c2 += 1
        px = text[st[c].end:st[c2].start].strip()
        last = close - 1
        if st[last].text == ',':
            last -= 1
        body = text[st[c2 + 1].start:st[last].end]
        for t in st[c2 + 1:last + 1]:
            if t.kind == 'ident' and t.text == 'return' or t.kind == 'punct' and t.text == '?':
                raise Undecided('R7: closure body contains return/?')
        it, x, r = f'__itA{k}', f'__xA{k}', f'__rA{k}'
        ty = types.get(k)
        if kind == 'any':
            new = (f'({{ let mut {it} = {recv}; let mut {r} = false;\n'
                   f'loop {{ match {it}.next() {{ Some({x}) => {{ let {px} = {x}; if {body} {{ {r} = true; break; }} }}\n None => break, }} }}\n{r} }})')
        elif kind == 'find':
            tys = f': {ty}' if ty else ''
            new = (f'({{ let mut {it} = {recv}; let mut {r}{tys} = None;\n'
                   f'loop {{ match {it}.next() {{ Some({x}) => {{ let {px} = &{x}; if {body} {{ {r} = Some({x}); break; }} }}\n None => break, }} }}\n{r} }})')
        else:
            new = (f'({{ let mut {it} = {recv}; let mut {r}: Option<usize> = None; let mut __iA{k}: usize = 0;\n'
                   f'loop {{ match {it}.next() {{ Some({x}) => {{ let {px} = {x}; if {body} {{ {r} = Some(__iA{k}); break; }} __iA{k} += 1; }}\n None => break, }} }}\n{r} }})')
        text = text[:st[j].start] + new + text[st[close].end:]
        applied.append(f'R7({kind}#{k})')


def rule_r8_map_collect(text, types, applied):
    """`ITER.map(|P| BODY).collect()` -> a loop that pushes BODY for every item (definition of map + collect into a Vec)"""
    while True:
        st = _lex(text)
        idx = []
        for i, t in enumerate(st):
            if t.kind == 'ident' and t.text == 'map' and i > 0 and st[i - 1].text == '.' and st[i + 1].text == '(' and st[i + 2].text == '|':
                close = match_forward(st, i + 1)
                if close + 4 < len(st) and st[close + 1].text == '.' and st[close + 2].text == 'collect' and st[close + 3].text == '(' and st[close + 4].text == ')':
                    idx.append(i)
        if not idx:
            return text
        k = len(idx)
        i = idx[-1]
        if k not in types:
            raise Undecided(f'R8: no Vec type given for map/collect #{k}')
        j = _receiver_start(st, i, 'R8')
        recv = text[st[j].start:st[i - 1].start].rstrip()
        close = match_forward(st, i + 1)
        c = i + 2
        c2 = c + 1
        d = 0
        while not (st[c2].text == '|' and d == 0):
            if st[c2].text in OPEN:
                d += 1
            elif st[c2].text in CLOSE:
                d -= 1
            c2 += 1
        px = text[st[c].end:st[c2].start].strip()
        last = close - 1
        if st[last].text == ',':
            last -= 1
        body = text[st[c2 + 1].start:st[last].end]
        v, x = f'__vM{k}', f'__xM{k}'
        new = (f'({{ let mut {v}: {types[k]} = Vec::new();\nfor {x} in {recv} {{ let {px} = {x}; {v}.push({body}); }}\n{v} }})')
        text = text[:st[j].start] + new + text[st[close + 4].end:]
        applied.append(f'R8(map-collect#{k})')


def rule_r9_tuple_clone(text, clones, applied):
    """`E.clone()` on a tuple (a built-in Clone instance Verus cannot name) -> componentwise clone, which is what the
    built-in instance does; the sidecar names the expression and its arity, rustc rejects a wrong arity"""
    for expr, arity in clones:
        occ = _find_occurrences(text, expr)
        if len(occ) != 1:
            raise Undecided(f'lost anchor: tuple clone `{expr}` found {len(occ)} times')
        a, b = occ[0]
        if not expr.endswith('.clone()'):
            raise Undecided('R9: expression must end with .clone()')
        base = expr[:-len('.clone()')]
        text = text[:a] + '(' + ', '.join(f'{base}.{i}.clone()' for i in range(arity)) + ')' + text[b:]
        applied.append(f'R9(tuple-clone {expr})')
    return text


def rule_r8b_extend_map(text, enabled, applied):
    """`V.extend(ITER.map(|P| BODY))` -> `for x in ITER { let P = x; V.push(BODY); }` (definition of extend over a mapped iterator)"""
    if not enabled:
        return text
    n = 0
    while True:
        st = _lex(text)
        hit = None
        for i, t in enumerate(st):
            if t.kind == 'ident' and t.text == 'extend' and i > 0 and st[i - 1].text == '.' and st[i + 1].text == '(':
                close = match_forward(st, i + 1)
                # argument ends with `.map(|..| ..)`
                if st[close - 1].text == ')' or (st[close - 1].text == ',' and st[close - 2].text == ')'):
                    last = close - 1 if st[close - 1].text == ')' else close - 2
                    mo = match_backward(st, last)
                    if st[mo - 1].text == 'map' and st[mo - 2].text == '.' and st[mo + 1].text == '|':
                        hit = (i, close, mo, last)
                        break
        if hit is None:
            return text
        i, close, mo, last = hit
        n += 1
        j = _receiver_start(st, i, 'R8b')
        vec = text[st[j].start:st[i - 1].start].rstrip()
        recv = text[st[i + 2].start:st[mo - 2].start].rstrip()
        c = mo + 1
        c2 = c + 1
        d = 0
        while not (st[c2].text == '|' and d == 0):
            if st[c2].text in OPEN:
                d += 1
            elif st[c2].text in CLOSE:
                d -= 1
            c2 += 1
        px = text[st[c].end:st[c2].start].strip()
        b_last = last - 1
        if st[b_last].text == ',':
            b_last -= 1
        body = text[st[c2 + 1].start:st[b_last].end]
        x = f'__xE{n}'
        new = f'for {x} in {recv} {{ let {px} = {x}; {vec}.push({body}); }}'
        text = text[:st[j].start] + new + text[st[close].end:]
        applied.append(f'R8b(extend-map#{n})')


def rule_r12_bind_args(text, binds, applied):
    """`RECV.f(A, B);` (an expression statement whose receiver is a plain local) -> `let a: TA = A; let b: TB = B;
    RECV.f(a, b);` - the arguments are evaluated in the same order, the receiver is a place without side effects, and a
    type ascription only moves an unsizing coercion from the argument position to the `let`. Needed where Verus' encoding
    of dyn-typed arguments keeps quantified library axioms from matching the inline argument."""
    for quote, k, names in binds:
        occ = _find_occurrences(text, quote)
        if len(occ) < k:
            raise Undecided(f'lost anchor: call `{quote}` (occurrence {k}) not found')
        a, b = occ[k - 1]
        st = _lex(text)
        # the opening parenthesis is the last token of the quote
        op = max(i for i, t in enumerate(st) if t.start < b and t.text == '(' and t.end <= b)
        close = match_forward(st, op)
        if st[close + 1].text != ';':
            raise Undecided('R12: the call must be an expression statement')
        # receiver must be `ident . ident (`
        j = [i for i, t in enumerate(st) if t.start >= a][0]
        if not (st[j].kind == 'ident' and st[j + 1].text == '.' and st[j + 2].kind == 'ident' and j + 3 == op):
            raise Undecided('R12: receiver must be a plain local')
        args, d, cur = [], 0, op + 1
        for i in range(op + 1, close):
            if st[i].text in OPEN:
                d += 1
            elif st[i].text in CLOSE:
                d -= 1
            elif st[i].text == ',' and d == 0:
                args.append((cur, i - 1))
                cur = i + 1
        if cur < close:
            args.append((cur, close - 1))
        if len(args) != len(names):
            raise Undecided(f'R12: {len(args)} arguments, {len(names)} names')
        lets = ''.join(f'let {n}: {ty} = {text[st[x].start:st[y].end]};\n' for (n, ty), (x, y) in zip(names, args))
        call = text[st[j].start:st[op].end] + ', '.join(n for n, _ in names) + ')'
        text = text[:st[j].start] + lets + call + text[st[close].end:]
        applied.append(f'R12(bind-args {quote}#{k})')
    return text


def rule_r13_map_err(text, enabled, applied):
    """`RECV.map_err(|_| E)` -> `match RECV { Ok(v) => Ok(v), Err(_) => Err(E) }`: the definition of Result::map_err
    for a closure that ignores its argument (Verus rejects `_` closure parameters and has no spec for map_err)"""
    if not enabled:
        return text
    n = 0
    while True:
        st = _lex(text)
        hit = None
        for i, t in enumerate(st):
            if (t.kind == 'ident' and t.text == 'map_err' and i > 0 and st[i - 1].text == '.' and st[i + 1].text == '('
                    and st[i + 2].text == '|' and st[i + 3].text == '_' and st[i + 4].text == '|'):
                hit = i
                break
        if hit is None:
            return text
        i = hit
        n += 1
        close = match_forward(st, i + 1)
        j = _receiver_start(st, i, 'R13')
        recv = text[st[j].start:st[i - 1].start].rstrip()
        last = close - 1
        if st[last].text == ',':
            last -= 1
        body = text[st[i + 5].start:st[last].end]
        new = f'match {recv} {{ Ok(__ok{n}) => Ok(__ok{n}), Err(_) => Err({body}) }}'
        text = text[:st[j].start] + new + text[st[close].end:]
        applied.append(f'R13(map_err#{n})')


def rule_r14_str_slice(text, names, applied):
    """`&S[A..B]` -> `str_slice(S, A, B)`, `&S[A..]` -> `str_slice_from(S, A)` for the listed `&str` variables S:
    names the std slicing operation (core::str `Index<Range<usize>>` / `Index<RangeFrom<usize>>`) so that the ASSUMED std
    contract of the prelude (same panics-free precondition as vstd's, plus 'the bytes of the result are bytes A..B of S')
    is attached to it; the prelude wrappers' bodies are exactly `&s[a..b]` / `&s[a..]`"""
    if not names:
        return text
    n = 0
    while True:
        st = _lex(text)
        hit = None
        for i, t in enumerate(st):
            if (t.kind == 'punct' and t.text == '&' and i + 2 < len(st) and st[i + 1].kind == 'ident' and st[i + 1].text in names
                    and st[i + 2].text == '['):
                close = match_forward(st, i + 2)
                dd = [k for k in range(i + 3, close) if st[k].text == '..' and _depth0(st, i + 3, k)]
                if len(dd) == 1 and dd[0] > i + 3:
                    hit = (i, close, dd[0])
                    break
        if hit is None:
            if n == 0:
                raise Undecided('R14: no `&S[A..B]` found for ' + ','.join(names))
            return text
        i, close, d = hit
        n += 1
        base = st[i + 1].text
        a = text[st[i + 3].start:st[d - 1].end]
        if d + 1 == close:
            new = f'str_slice_from({base}, {a})'
        else:
            b = text[st[d + 1].start:st[close - 1].end]
            new = f'str_slice({base}, {a}, {b})'
        text = text[:st[i].start] + new + text[st[close].end:]
        applied.append(f'R14(str-slice#{n})')


def _depth0(st, lo, k):
    d = 0
    for j in range(lo, k):
        if st[j].kind == 'punct':
            if st[j].text in OPEN:
                d += 1
            elif st[j].text in CLOSE:
                d -= 1
    return d == 0


def rule_r11_unshadow(text, unshadows, applied):
    """alpha-renaming: a local `let [mut] X = X;` that shadows parameter X is renamed (the local and every later use),
    so that contracts can mention the parameter (Verus relates recursive calls to the measure at function entry)"""
    for name, new in unshadows:
        st = _lex(text)
        hit = None
        for i, t in enumerate(st):
            if t.kind == 'ident' and t.text == 'let':
                j = i + 1
                if st[j].text == 'mut':
                    j += 1
                if st[j].text == name and st[j + 1].text == '=' and st[j + 2].text == name and st[j + 3].text == ';':
                    hit = j
                    break
        if hit is None:
            raise Undecided(f'lost anchor: shadowing `let {name} = {name};` not found for R11')
        edits = [(st[hit].start, st[hit].end)]
        for t in st[hit + 4:]:
            if t.kind == 'ident' and t.text == name:
                edits.append((t.start, t.end))
        for a, b_ in sorted(edits, reverse=True):
            text = text[:a] + new + text[b_:]
        applied.append(f'R11(rename shadowing local {name} -> {new})')
    return text


def rule_r10_lift_closure(text, lifts, applied):
    """lambda lifting of a closure passed to Option::map_or: `X.map_or(D, |p| BODY)` becomes
    `match X { Some(p) => NAME(ARGS), None => D }` and BODY becomes the body of a new function NAME whose parameters are
    the closure parameter and the captured variables (variables captured by unique borrow are passed as `&mut` and
    dereferenced in BODY).  D is a pure allocation here, so evaluating it only in the None arm changes nothing.
    The lifted function (signature and contract from the sidecar) is appended behind the function."""
    for l in sorted(lifts, key=lambda x: -x['n']):
        st = _lex(text)
        cl = find_closures(st)
        if l['n'] > len(cl):
            raise Undecided(f'lost anchor: closure #{l["n"]} not found for R10')
        i, j = cl[l['n'] - 1]
        if st[j + 1].text != '{':
            raise Undecided('R10: closure body is not a block')
        e = match_forward(st, j + 1)
        param = text[st[i].end:st[j].start].strip()
        # enclosing map_or call
        if st[i - 1].text != ',':
            raise Undecided('R10: closure is not the second argument of map_or')
        d, k = 0, i - 1
        while k >= 0:
            t = st[k]
            if t.kind == 'punct' and t.text in CLOSE:
                d += 1
            elif t.kind == 'punct' and t.text in OPEN:
                if d == 0:
                    break
                d -= 1
            k -= 1
        if not (st[k].text == '(' and st[k - 1].text == 'map_or' and st[k - 2].text == '.'):
            raise Undecided('R10: enclosing call is not .map_or(..)')
        close = match_forward(st, k)
        after = close + 1
        if st[close - 1].text == ',':
            pass
        default = text[st[k + 1].start:st[i - 1].start].strip()
        r0 = _receiver_start(st, k - 1, 'R10')
        recv = text[st[r0].start:st[k - 2].start].rstrip()
        # body with dereferenced captures
        body_toks = st[j + 1:e + 1]
        body = text[st[j + 1].start:st[e].end]
        off = st[j + 1].start
        edits = []
        for t in body_toks:
            if t.kind == 'ident' and t.text in l['deref']:
                edits.append((t.start - off, t.end - off, f'(*{t.text})'))
        for a, b_, rpl in sorted(edits, reverse=True):
            body = body[:a] + rpl + body[b_:]
        new = f'match {recv} {{ Some({param}) => {l["name"]}({l["args"]}),\n None => {default}, }}'
        lifted = '\n'.join(l['sig']) + '\n' + body + '\n'
        text = text[:st[r0].start] + new + text[st[close].end:] + '\n\n' + lifted
        applied.append(f'R10(lift closure#{l["n"]} -> {l["name"]})')
    return text


def rule_r1_break_value(text, applied, breaktypes=None):
    """`break E` in a `loop` -> assignment + break (or `return E` when the loop is the function's tail)."""
    n = 0
    while True:
        st = _lex(text)
        # function body close = last token
        target = None
        for i, t in enumerate(st):
            if t.kind == 'ident' and t.text == 'loop' and st[i + 1].text == '{':
                close = match_forward(st, i + 1)
                # breaks owned by this loop: not inside nested loop/while/for bodies or closures
                owned = []
                j = i + 2
                while j < close:
                    x = st[j]
                    if x.kind == 'ident' and x.text in ('loop', 'while', 'for'):
                        # skip nested loop body
                        q = j
                        while st[q].text != '{':
                            if st[q].text in ('(', '['):
                                q = match_forward(st, q)
                            q += 1
                        j = match_forward(st, q) + 1
                        continue
                    if x.kind == 'ident' and x.text == 'break' and st[j + 1].text not in (';', '}', ','):
                        owned.append(j)
                    j += 1
                if owned:
                    target = (i, close, owned)
                    break
        if target is None:
            return text
        i, close, owned = target
        n += 1
        is_tail = (close == len(st) - 2 and st[-1].text == '}')
        lv = f'__lv{n}'
        edits = []  # (start, end, replacement)
        for b in owned:
            e = _expr_end(st, b + 1, stops=(',', ';'))
            expr = text[st[b + 1].start:st[e - 1].end]
            if is_tail:
                edits.append((st[b].start, st[e - 1].end, f'return {expr}'))
            else:
                edits.append((st[b].start, st[e - 1].end, f'{{ {lv} = {expr}; break; }}'))
        if not is_tail:
            ty = (breaktypes or {}).get(n)
            edits.append((st[i].start, st[i].start, f'{{ let {lv}{": " + ty if ty else ""}; '))
            edits.append((st[close].end, st[close].end, f' {lv} }}'))
        for a, b_, r in sorted(edits, key=lambda e: (e[0], e[1]), reverse=True):
            text = text[:a] + r + text[b_:]
        applied.append(f'R1({"tail-return" if is_tail else "deferred-let"}#{n})')


def find_closures(st):
    """indices (i, j) of the opening and closing '|' of closure literals"""
    out = []
    i = 0
    while i < len(st):
        t = st[i]
        if t.kind == 'punct' and t.text == '|' and i > 0 and (st[i - 1].text in ('(', ',', '=', '{', 'move', '=>', 'return')):
            j = i + 1
            d = 0
            while not (st[j].text == '|' and d == 0):
                if st[j].text in OPEN:
                    d += 1
                elif st[j].text in CLOSE:
                    d -= 1
                j += 1
            out.append((i, j))
            i = j + 1
            continue
        i += 1
    return out


def rule_r3_closures(text, closures, applied, emit_tag):
    """give closure literals explicit parameter types and a contract; body text unchanged.
    closures: {ordinal: {'params':..., 'ret':..., 'requires':[lines], 'ensures':[lines]}}"""
    if not closures:
        return text
    for k in sorted(closures, reverse=True):
        st = _lex(text)
        cl = find_closures(st)
        if k > len(cl):
            raise Undecided(f'lost anchor: closure #{k} not found (function has {len(cl)})')
        i, j = cl[k - 1]
        spec = closures[k]
        # body
        if st[j + 1].text == '{':
            e = match_forward(st, j + 1)
            body = text[st[j + 1].start:st[e].end]
            body_end = st[e].end
        else:
            e = _expr_end(st, j + 1, stops=(',',))
            body = '{ ' + text[st[j + 1].start:st[e - 1].end] + ' }'
            body_end = st[e - 1].end
        hdr = f'|{spec["params"]}|'
        if spec.get('bind'):
            # closure parameter pattern -> plain parameter + let (parameter patterns are irrefutable)
            orig = text[st[i].end:st[j].start].strip()
            pname = spec['params'].split(':')[0].strip()
            body = '{ let ' + orig + ' = ' + pname + '; ' + body + ' }'
        if spec.get('ret'):
            hdr += f' -> ({spec["ret"]})'
        if spec.get('requires'):
            hdr += '\n requires ' + '\n'.join(spec['requires'])
        if spec.get('ensures'):
            hdr += '\n ensures ' + '\n'.join(spec['ensures'])
        text = text[:st[i].start] + hdr + '\n' + body + text[body_end:]
        applied.append(f'R3(closure#{k})')
    return text


def rule_r5_lettype(text, lettypes, applied):
    """`let [mut] NAME = ..` gets an explicit type (annotation only; rustc rejects a wrong one)"""
    for name, ty in lettypes.items():
        st = _lex(text)
        hit = None
        for i, t in enumerate(st):
            if t.kind == 'ident' and t.text == 'let':
                j = i + 1
                if st[j].text == 'mut':
                    j += 1
                if st[j].text == name and st[j + 1].text == '=':
                    hit = j
                    break
        if hit is None:
            raise Undecided(f'lost anchor: `let {name} =` not found for R5')
        text = text[:st[hit].end] + f': {ty}' + text[st[hit].end:]
        applied.append(f'R5(let {name}: type)')
    return text


def rule_r6_desugar_for(text, ordinals, applied):
    """`for PAT in EXPR BODY` -> the definition of `for` in the Rust reference:
    { let mut __itN = IntoIterator::into_iter(EXPR); loop { match __itN.next() { Some(PAT) => BODY, None => break, } } }
    (needed where the body contains `break`: Verus' for-loop wrapper has no break support)"""
    for n in sorted(ordinals, reverse=True):
        st = _lex(text)
        lps = loops_of(st)
        if n > len(lps) or st[lps[n - 1][0]].text != 'for':
            raise Undecided(f'lost anchor: loop #{n} is not a for loop (R6)')
        kw, ob, cb_ = lps[n - 1]
        q, d = kw + 1, 0
        while not (st[q].kind == 'ident' and st[q].text == 'in' and d == 0):
            if st[q].text in OPEN:
                d += 1
            elif st[q].text in CLOSE:
                d -= 1
            q += 1
        pat = text[st[kw].end:st[q].start].strip()
        expr = text[st[q].end:st[ob].start].strip()
        body = text[st[ob].start:st[cb_].end]
        new = (f'{{ let mut __it{n} = IntoIterator::into_iter({expr});\n'
               f'loop {{ match __it{n}.next() {{ Some({pat}) => {body}\n None => break, }} }} }}')
        text = text[:st[kw].start] + new + text[st[cb_].end:]
        applied.append(f'R6(for#{n}->loop/next)')
    return text


def rule_r4_hoist(text, names, applied):
    """move items declared inside the body (enum NAME {..}) in front of the function"""
    hoisted = []
    for name in names:
        st = _lex(text)
        hit = None
        for i, t in enumerate(st):
            if t.kind == 'ident' and t.text in ('enum', 'struct') and st[i + 1].text == name:
                hit = i
                break
        if hit is None:
            raise Undecided(f'lost anchor: local item `{name}` not found for R4')
        # include preceding attributes #[...]
        a = hit
        while a >= 2 and st[a - 1].text == ']':
            b = match_backward(st, a - 1)
            if st[b - 1].text == '#':
                a = b - 1
            else:
                break
        j = hit
        while st[j].text != '{':
            j += 1
        e = match_forward(st, j)
        item = text[st[hit].start:st[e].end]
        hoisted.append(item)
        text = text[:st[a].start] + text[st[e].end:]
        applied.append(f'R4({name})')
    return text, hoisted


# --------------------------------------------------------------------------------------------
# annotation splicing
# --------------------------------------------------------------------------------------------

def loops_of(st):
    """indices of loop keywords in source order together with the index of their '{'"""
    out = []
    for i, t in enumerate(st):
        if t.kind == 'ident' and t.text in ('loop', 'while', 'for'):
            if t.text == 'for' and st[i + 1].text == '<':
                continue
            q = i + 1
            while st[q].text != '{':
                if st[q].text in ('(', '['):
                    q = match_forward(st, q)
                q += 1
            out.append((i, q, match_forward(st, q)))
    return out


def splice_annotations(text, spec):
    """insert loop contracts, iterator binders and proof blocks. Returns list of (text, tag) segments
    where tag is None for repo text and (section, label) for spec text."""
    st = _lex(text)
    inserts = []  # (pos, order, text, tag)
    lps = loops_of(st)
    for n, lp in spec['loops'].items():
        if n > len(lps):
            raise Undecided(f'lost anchor: loop #{n} not found (function has {len(lps)} loops)')
        kw, ob, cb = lps[n - 1]
        if lp.get('iter'):
            if st[kw].text != 'for':
                raise Undecided(f'lost anchor: loop #{n} is not a for loop')
            q, d = kw + 1, 0
            while not (st[q].kind == 'ident' and st[q].text == 'in' and d == 0):
                if st[q].text in OPEN:
                    d += 1
                elif st[q].text in CLOSE:
                    d -= 1
                q += 1
            inserts.append((st[q].end, 0, f' {lp["iter"]}:', ('loop-binder', f'loop{n}')))
        contract = ''
        for key in ('invariant_except_break', 'invariant', 'ensures', 'decreases'):
            if lp.get(key):
                contract += f'\n{key}\n' + '\n'.join(lp[key])
        if contract:
            inserts.append((st[ob].start, 0, contract + '\n', ('loop-contract', f'loop{n}')))
    # function body braces: first '{' at depth 0 after signature
    j, d = 0, 0
    while True:
        x = st[j]
        if x.kind == 'punct':
            if x.text in ('(', '['):
                d += 1
            elif x.text in (')', ']'):
                d -= 1
            elif d == 0 and x.text == '{':
                break
        j += 1
    body_open, body_close = j, match_forward(st, j)
    for at in spec['ats']:
        where, lines = at['where'], '\n'.join(at['lines'])
        tag = ('proof', norm(' '.join(where)))
        w = where[0]
        if w == 'body-start':
            pos = st[body_open].end
        elif w == 'body-end':
            pos = st[body_close].start
        elif w == 'loop':
            n, side = int(where[1]), where[2]
            if n > len(lps):
                raise Undecided(f'lost anchor: loop #{n} for proof block')
            kw, ob, cb = lps[n - 1]
            pos = st[ob].end if side == 'start' else st[cb].start
        elif w == 'after-loop':
            n = int(where[1])
            if n > len(lps):
                raise Undecided(f'lost anchor: loop #{n} for proof block')
            pos = st[lps[n - 1][2]].end
        elif w in ('before', 'after'):
            needle = where[1]
            k = int(where[2]) if len(where) > 2 else 1
            # occurrences matched on whitespace-normalised text
            occ = _find_occurrences(text, needle)
            if len(occ) < k:
                raise Undecided(f'lost anchor: text {needle!r} occurrence {k} not found')
            a, b = occ[k - 1]
            pos = a if w == 'before' else b
        else:
            raise Undecided(f'bad anchor {where}')
        inserts.append((pos, 1, '\n' + lines + '\n', tag))
    segs, cur = [], 0
    for pos, _, ins, tag in sorted(inserts, key=lambda e: (e[0], e[1])):
        segs.append((text[cur:pos], None))
        segs.append((ins, tag))
        cur = pos
    segs.append((text[cur:], None))
    return segs


def _find_occurrences(text, needle):
    """all (start,end) where needle occurs, comparing with runs of whitespace treated as one blank"""
    pat = r'\s+'.join(re.escape(p) for p in needle.split())
    return [(m.start(), m.end()) for m in re.finditer(pat, text)]


def name_return(sig_text, ret):
    """`-> T` becomes `-> (ret: T)`; where-clauses stay behind the return type"""
    if not ret:
        return sig_text
    st = _lex(sig_text)
    d = 0
    arrow = None
    for i, t in enumerate(st):
        if t.kind == 'punct':
            if t.text in ('(', '[', '<'):
                d += 1
            elif t.text in (')', ']', '>'):
                d -= 1
            elif t.text == '->' and d == 0:
                arrow = i
    if arrow is None:
        raise Undecided('named return value given but function has no return type')
    wh = None
    d = 0
    for i in range(arrow + 1, len(st)):
        t = st[i]
        if t.kind == 'punct':
            if t.text in ('(', '[', '<'):
                d += 1
            elif t.text in (')', ']', '>'):
                d -= 1
        if t.kind == 'ident' and t.text == 'where' and d == 0:
            wh = i
            break
    ty_end = st[wh].start if wh is not None else len(sig_text)
    ty = sig_text[st[arrow].end:ty_end].strip()
    rest = sig_text[ty_end:]
    return sig_text[:st[arrow].start] + f'-> ({ret}: {ty})' + (' ' + rest if rest else '')


# --------------------------------------------------------------------------------------------
# spec files
# --------------------------------------------------------------------------------------------

def parse_attrs(s):
    out, pos = {}, []
    for tok in shlex.split(s):
        if '=' in tok and re.match(r'^[A-Za-z_-]+=', tok):
            k, v = tok.split('=', 1)
            out[k] = v
        else:
            pos.append(tok)
    return out, pos


def new_fn_spec(attrs):
    return {
        'id': attrs['id'], 'file': attrs['file'], 'name': attrs['name'], 'container': attrs.get('in'),
        'props': [p for p in attrs.get('props', '').split(',') if p],
        'ret': None, 'requires': [], 'ensures': [],  # ensures: list of {'label','props','lines'}
        'loops': {}, 'folds': {}, 'closures': {}, 'ats': [], 'hoist': [], 'lettypes': {}, 'breaktypes': {}, 'desugar_for': [], 'adapters': {}, 'mapcollects': {}, 'tupleclones': [], 'extendmaps': False, 'lifts': [], 'unshadows': [], 'bindargs': [], 'maperr': False, 'strslice': [], 'container_extra': [], 'attrs': [],
        'recommends': [], 'decreases': [], 'stub_only': attrs.get('stub') == 'only', 'trusted_reason': attrs.get('trusted'),
    }


def parse_spec_file(path):
    """returns list of chunks: ('raw', text) | ('fn', spec) | ('import', id) | ('item', {...})"""
    chunks, raw = [], []
    cur, sect = None, None
    lines = open(path, encoding='utf-8').read().split('\n')

    def flush_raw():
        if raw:
            chunks.append(('raw', '\n'.join(raw) + '\n'))
            raw.clear()

    for ln, line in enumerate(lines, 1):
        s = line.strip()
        if not s.startswith('//@'):
            if cur is None:
                raw.append(line)
            elif sect is not None:
                sect.append(line)
            elif s and not s.startswith('//'):
                raise Undecided(f'{path}:{ln}: text outside a section in fn block')
            continue
        d = s[3:].strip()
        kw = d.split()[0] if d else ''
        rest = d[len(kw):].strip()
        attrs, pos = parse_attrs(rest) if kw not in ('at',) else ({}, [])
        if cur is None:
            if kw == 'fn':
                flush_raw()
                cur = new_fn_spec(attrs)
                cur['_src'] = f'{os.path.basename(path)}:{ln}'
                sect = None
            elif kw == 'import':
                flush_raw()
                chunks.append(('import', pos[0] if 'only' not in attrs else (pos[0], [x for x in attrs['only'].split(',') if x and x != '-'])))
            elif kw == 'include':
                flush_raw()
                for ch in parse_spec_file(os.path.join(os.path.dirname(os.path.dirname(path)) if os.path.basename(os.path.dirname(path)) == 'units' else os.path.dirname(path), pos[0])):
                    if ch[0] == 'fn':
                        raise Undecided(f'{path}:{ln}: included file must not define fn blocks')
                    chunks.append(ch)
            elif kw == 'item':
                flush_raw()
                chunks.append(('item', {'file': attrs['file'], 'kind': attrs['kind'], 'name': attrs['name'],
                                        'derive': attrs.get('derive', ''), 'attr': attrs.get('attr', '')}))
            elif kw == 'unit' or kw == '':
                pass
            else:
                raise Undecided(f'{path}:{ln}: unknown directive {kw}')
            continue
        # inside fn block
        if kw == 'end':
            chunks.append(('fn', cur))
            cur, sect = None, None
        elif kw == 'ret':
            cur['ret'] = pos[0]
            sect = None
        elif kw == 'requires':
            sect = cur['requires']
        elif kw == 'recommends':
            sect = cur['recommends']
        elif kw == 'fn-decreases':
            sect = cur['decreases']
        elif kw == 'ensures':
            e = {'label': attrs.get('label', f'ensures{len(cur["ensures"]) + 1}'),
                 'props': [p for p in attrs.get('props', '').split(',') if p] or cur['props'], 'lines': []}
            cur['ensures'].append(e)
            sect = e['lines']
        elif kw == 'loop':
            n = int(pos[0])
            cur['loops'].setdefault(n, {'iter': attrs.get('iter')})
            cur['_loop'] = n
            sect = None
        elif kw in ('invariant', 'invariant_except_break', 'decreases', 'loop-ensures'):
            key = 'ensures' if kw == 'loop-ensures' else kw
            sect = cur['loops'][cur['_loop']].setdefault(key, [])
        elif kw == 'fold':
            cur['folds'][int(pos[0])] = attrs['type']
            sect = None
        elif kw == 'closure':
            c = {'params': attrs['params'], 'ret': attrs.get('ret'), 'requires': [], 'ensures': [], 'bind': attrs.get('bind') == 'yes'}
            cur['closures'][int(pos[0])] = c
            cur['_closure'] = c
            sect = None
        elif kw == 'closure-requires':
            sect = cur['_closure']['requires']
        elif kw == 'closure-ensures':
            sect = cur['_closure']['ensures']
        elif kw == 'at':
            a = {'where': shlex.split(rest), 'lines': []}
            cur['ats'].append(a)
            sect = a['lines']
        elif kw == 'hoist':
            cur['hoist'] += pos
            sect = None
        elif kw == 'maperr':
            cur['maperr'] = True
            sect = None
        elif kw == 'strslice':
            cur['strslice'] += pos
            sect = None
        elif kw == 'bindargs':
            # //@bindargs "recv.f(" K vars="name1: Type1; name2: Type2"
            cur['bindargs'].append((pos[0], int(pos[1]), [tuple(x.strip() for x in v_.split(':', 1)) for v_ in attrs['vars'].split(';')]))
            sect = None
        elif kw == 'unshadow':
            cur['unshadows'].append((pos[0], attrs['as'] if 'as' in attrs else pos[2]))
            sect = None
        elif kw == 'lift-closure':
            l = {'n': int(pos[0]), 'name': attrs['name'], 'args': attrs['args'], 'deref': [x for x in attrs.get('deref', '').split(',') if x], 'sig': []}
            cur['lifts'].append(l)
            sect = l['sig']
        elif kw == 'tupleclone':
            cur['tupleclones'].append((pos[0], int(attrs.get('arity', '2'))))
            sect = None
        elif kw == 'extendmap':
            cur['extendmaps'] = True
            sect = None
        elif kw == 'mapcollect':
            cur['mapcollects'][int(pos[0])] = attrs['type']
            sect = None
        elif kw == 'adapter':
            cur['adapters'][int(pos[0])] = attrs.get('type')
            sect = None
        elif kw == 'desugar-for':
            cur['desugar_for'] += [int(x) for x in pos]
            sect = None
        elif kw == 'breaktype':
            cur['breaktypes'][int(pos[0])] = attrs['type']
            sect = None
        elif kw == 'lettype':
            cur['lettypes'][pos[0]] = attrs['type']
            sect = None
        elif kw == 'container-extra':
            sect = cur['container_extra']
        elif kw == 'attr':
            sect = cur['attrs']
        else:
            raise Undecided(f'{path}:{ln}: unknown directive {kw} in fn block')
    if cur is not None:
        raise Undecided(f'{path}: unterminated fn block {cur["id"]}')
    flush_raw()
    return chunks


# --------------------------------------------------------------------------------------------
# unit generation
# --------------------------------------------------------------------------------------------

def publicize_fields(text):
    """struct fields become `pub` (visibility is the one thing the extraction does not keep)"""
    st = _lex(text)
    ins = []
    depth = 0
    for i, t in enumerate(st):
        if t.kind == 'punct' and t.text in OPEN:
            depth += 1
        elif t.kind == 'punct' and t.text in CLOSE:
            depth -= 1
        elif depth == 1 and t.kind == 'ident' and i + 1 < len(st) and st[i + 1].text == ':' and st[i - 1].text in ('{', ','):
            ins.append(t.start)
    for pos in reversed(ins):
        text = text[:pos] + 'pub ' + text[pos:]
    return text


class Out:
    def __init__(self):
        self.lines = []   # text lines
        self.tags = []    # per line: None or dict

    def emit(self, text, tag=None):
        if not text:
            return
        parts = text.split('\n')
        if text.endswith('\n'):
            parts = parts[:-1]
        for p in parts:
            self.lines.append(p)
            self.tags.append(tag)

    def text(self):
        return '\n'.join(self.lines) + '\n'


class Generator:
    def __init__(self, repo_src, spec_dir):
        self.repo_src = repo_src
        self.spec_dir = spec_dir
        self.sources = {}
        self.registry = {}   # id -> fn spec
        self.unit_chunks = {}
        for fn in sorted(os.listdir(os.path.join(spec_dir, 'units'))):
            if fn.endswith('.vs'):
                unit = fn[:-3]
                chunks = parse_spec_file(os.path.join(spec_dir, 'units', fn))
                self.unit_chunks[unit] = chunks
                for kind, c in chunks:
                    if kind == 'fn':
                        if c['id'] in self.registry:
                            raise Undecided(f'duplicate fn id {c["id"]}')
                        c['unit'] = unit
                        self.registry[c['id']] = c

    def src(self, rel):
        if rel not in self.sources:
            self.sources[rel] = Source(self.repo_src, rel)
        return self.sources[rel]

    # ---- pieces
    def _contract_segments(self, spec, fnid):
        segs = []
        if spec['requires']:
            segs.append(('requires\n' + '\n'.join(spec['requires']) + '\n', {'fn': fnid, 'section': 'requires', 'label': 'requires', 'props': spec['props']}))
        if spec['recommends']:
            segs.append(('recommends\n' + '\n'.join(spec['recommends']) + '\n', {'fn': fnid, 'section': 'recommends', 'label': 'recommends', 'props': []}))
        first = True
        for e in spec['ensures']:
            head = 'ensures\n' if first else ''
            first = False
            segs.append((head + '\n'.join(e['lines']) + '\n', {'fn': fnid, 'section': 'ensures', 'label': e['label'], 'props': e['props']}))
        if spec['decreases']:
            segs.append(('decreases\n' + '\n'.join(spec['decreases']) + '\n', {'fn': fnid, 'section': 'decreases', 'label': 'decreases', 'props': spec['props']}))
        return segs

    def emit_fn(self, out, spec, stub=False, twin=False):
        s = self.src(spec['file'])
        f = s.find_fn(spec['name'], spec['container'])
        fnid = spec['id']
        info = {'id': fnid, 'file': spec['file'], 'line': f['line'], 'name': spec['name'], 'container': spec['container'],
                'sha256': hashlib.sha256(f['raw'].encode()).hexdigest(), 'rules': [], 'stub': stub, 'props': spec['props'],
                'spec_src': spec.get('_src')}
        is_decl = f['body'] is None
        sig_text = name_return(f['sig'], spec['ret'])
        cont0 = spec['container'] or ''
        if not (cont0.startswith('trait ') or ' for ' in cont0):
            sig_text = 'pub ' + sig_text
        body_tag = {'fn': fnid, 'section': 'body', 'label': 'body', 'props': spec['props']}
        hoisted = []
        segs = None
        if not is_decl and not stub:
            text = sig_text + ' ' + f['body']
            applied = info['rules']
            if spec['hoist']:
                text, hoisted = rule_r4_hoist(text, spec['hoist'], applied)
            text = rule_r11_unshadow(text, spec['unshadows'], applied)
            text = rule_r12_bind_args(text, spec['bindargs'], applied)
            text = rule_r13_map_err(text, spec['maperr'], applied)
            text = rule_r14_str_slice(text, spec['strslice'], applied)
            text = rule_r10_lift_closure(text, spec['lifts'], applied)
            text = rule_r2_fold(text, spec['folds'], applied)
            text = rule_r7_adapters(text, spec['adapters'], applied)
            text = rule_r8_map_collect(text, spec['mapcollects'], applied)
            text = rule_r8b_extend_map(text, spec['extendmaps'], applied)
            text = rule_r9_tuple_clone(text, spec['tupleclones'], applied)
            text = rule_r1_break_value(text, applied, spec['breaktypes'])
            text = rule_r6_desugar_for(text, spec['desugar_for'], applied)
            text = rule_r3_closures(text, spec['closures'], applied, None)
            text = rule_r5_lettype(text, spec['lettypes'], applied)
            spec_t = spec
            if twin:
                spec_t = dict(spec, ats=spec['ats'] + [{'where': ['body-start'], 'lines': ['assert(false); // vacuity twin']}])
            segs = splice_annotations(text, spec_t)
        for h in hoisted:
            out.emit('pub ' + re.sub(r'#\[derive\([^)]*\)\]\s*', '', h) + '\n', {'fn': fnid, 'section': 'hoisted', 'label': 'hoisted', 'props': []})
        cont = spec['container']
        if cont:
            out.emit(('pub ' if cont.startswith('trait ') else '') + cont + ' {\n', body_tag)
            if spec['container_extra']:
                out.emit('\n'.join(spec['container_extra']) + '\n', {'fn': fnid, 'section': 'container-extra', 'label': 'container-extra', 'props': []})
        if spec['attrs'] and not stub:
            out.emit('\n'.join(spec['attrs']) + '\n', body_tag)
        contract = self._contract_segments(spec, fnid)
        if is_decl:
            out.emit(sig_text + '\n', body_tag)
            for t, tag in contract:
                out.emit(t, tag)
            out.emit(';\n', body_tag)
        elif stub:
            out.emit('#[verifier::external_body]\n' + sig_text + '\n', body_tag)
            for t, tag in contract:
                out.emit(t, dict(tag, section='stub-' + tag['section']))
            out.emit('{ unimplemented!() }\n', body_tag)
        else:
            # split segs at the end of the signature: the first repo segment starts with the signature text
            full = segs
            # find position of body '{' : sig_text is a prefix of the concatenated repo text
            first_text = full[0][0]
            assert first_text.startswith(sig_text) or len(first_text) < len(sig_text), 'signature prefix'
            # locate via lexing of the first segment(s): the body brace is the first '{' at depth 0
            joined = ''.join(t for t, _ in full)
            st = _lex(joined)
            j, d = 0, 0
            while True:
                x = st[j]
                if x.kind == 'punct':
                    if x.text in ('(', '['):
                        d += 1
                    elif x.text in (')', ']'):
                        d -= 1
                    elif d == 0 and x.text == '{':
                        break
                j += 1
            brace_pos = st[j].start
            # emit signature
            acc = 0
            emitted_contract = False
            for t, tag in full:
                a, b = acc, acc + len(t)
                acc = b
                if not emitted_contract:
                    if b <= brace_pos:
                        out.emit(t, body_tag if tag is None else dict(body_tag, section=tag[0], label=tag[1]))
                        continue
                    cut = brace_pos - a
                    out.emit(t[:cut] + '\n', body_tag)
                    for ct, ctag in contract:
                        out.emit(ct, ctag)
                    emitted_contract = True
                    rest = t[cut:]
                    out.emit(rest, body_tag)
                else:
                    out.emit(t, body_tag if tag is None else dict(body_tag, section=tag[0], label=tag[1]))
            out.emit('\n', body_tag)
        if cont:
            out.emit('}\n', body_tag)
        return info

    def emit_item(self, out, item):
        s = self.src(item['file'])
        text, line = s.find_item(item['kind'], item['name'])
        if item['kind'] == 'struct':
            text = publicize_fields(text)
        # attributes of derive macros that were dropped with the derive (thiserror's display text)
        text = re.sub(r'#\[error\([^\]]*\)\]\s*', '', text)
        hdr = ''
        if item['derive']:
            hdr += f"#[derive({item['derive']})]\n"
        if item['attr']:
            hdr += item['attr'] + '\n'
        out.emit(hdr + 'pub ' + text + '\n', {'fn': None, 'section': 'item', 'label': item['name'], 'props': []})
        return {'item': item['name'], 'file': item['file'], 'line': line, 'sha256': hashlib.sha256(text.encode()).hexdigest()}

    def generate(self, unit, twin=False):
        out = Out()
        prelude = open(os.path.join(self.spec_dir, 'prelude.rs'), encoding='utf-8').read()
        out.emit(prelude)
        out.emit('verus! {\n')
        fns, items = [], []
        for kind, c in self.unit_chunks[unit]:
            if kind == 'raw':
                out.emit(c)
            elif kind == 'fn':
                fns.append(self.emit_fn(out, c, stub=c['stub_only'], twin=twin))
            elif kind == 'import':
                only = None
                if isinstance(c, tuple):
                    c, only = c
                if c not in self.registry:
                    raise Undecided(f'unit {unit}: import of unknown fn id {c}')
                spec_i = self.registry[c]
                if only is not None:
                    # import only some ensures sections of the (proved) contract: a weaker contract is still a proved one
                    missing = [l for l in only if l not in [e['label'] for e in spec_i['ensures']]]
                    if missing:
                        raise Undecided(f'unit {unit}: import of {c}: unknown ensures label(s) {missing}')
                    spec_i = dict(spec_i, ensures=[e for e in spec_i['ensures'] if e['label'] in only])
                fns.append(self.emit_fn(out, spec_i, stub=True))
            elif kind == 'item':
                items.append(self.emit_item(out, c))
        out.emit('} // verus!\nfn main() {}\n')
        return out, fns, items
