// ---- vocabulary over parse trees (needs `ContentPart`, `tokenizer`, in scope) ----
/// the tokens of the parts in document order (C10: every token appears exactly once, in order)
pub open spec fn flatten<'a, 'b, 'c, 'd>(parts: Seq<ContentPart<'a, 'b, 'c, 'd>>) -> Seq<tokenizer::Token<'a, 'b, 'c>>
    decreases parts,
{
    if parts.len() == 0 { Seq::empty() } else {
        flatten(parts.drop_last()) + (match parts.last() {
            ContentPart::Text(t) => seq![*t.token],
            ContentPart::Element(el) => seq![*el.start_token] + flatten(el.children@) + seq![*el.end_token],
        })
    }
}
pub proof fn lemma_flatten_add<'a, 'b, 'c, 'd>(a: Seq<ContentPart<'a, 'b, 'c, 'd>>, b: Seq<ContentPart<'a, 'b, 'c, 'd>>)
    ensures flatten(a + b) == flatten(a) + flatten(b),
    decreases b.len(),
{
    if b.len() == 0 {
        assert(a + b =~= a);
        assert(flatten(a) + flatten(b) =~= flatten(a));
    } else {
        assert((a + b).drop_last() =~= a + b.drop_last());
        assert((a + b).last() == b.last());
        lemma_flatten_add(a, b.drop_last());
        let x = match b.last() {
            ContentPart::Text(t) => seq![*t.token],
            ContentPart::Element(el) => seq![*el.start_token] + flatten(el.children@) + seq![*el.end_token],
        };
        assert(flatten(a + b) =~= flatten(a) + flatten(b.drop_last()) + x);
        assert(flatten(a) + flatten(b) =~= flatten(a) + (flatten(b.drop_last()) + x));
    }
}
pub proof fn lemma_flatten_one<'a, 'b, 'c, 'd>(c: ContentPart<'a, 'b, 'c, 'd>)
    ensures flatten(seq![c]) == (match c {
        ContentPart::Text(t) => seq![*t.token],
        ContentPart::Element(el) => seq![*el.start_token] + flatten(el.children@) + seq![*el.end_token],
    }),
{
    assert(seq![c].drop_last() =~= Seq::<ContentPart<'a, 'b, 'c, 'd>>::empty());
    assert(flatten(seq![c].drop_last()) =~= Seq::<tokenizer::Token<'a, 'b, 'c>>::empty());
    assert(seq![c].last() == c);
    let x = match c {
        ContentPart::Text(t) => seq![*t.token],
        ContentPart::Element(el) => seq![*el.start_token] + flatten(el.children@) + seq![*el.end_token],
    };
    assert(Seq::<tokenizer::Token<'a, 'b, 'c>>::empty() + x =~= x);
}
pub proof fn lemma_flatten_singleton<'a, 'b, 'c, 'd>(s: Seq<ContentPart<'a, 'b, 'c, 'd>>, c: ContentPart<'a, 'b, 'c, 'd>)
    requires s.len() == 1, s[0] == c,
    ensures flatten(s) == flatten(seq![c]),
{
    assert(s =~= seq![c]);
}
pub proof fn lemma_flatten_empty<'a, 'b, 'c, 'd>()
    ensures forall|s: Seq<ContentPart<'a, 'b, 'c, 'd>>| s.len() == 0 ==> #[trigger] flatten(s) == Seq::<tokenizer::Token<'a, 'b, 'c>>::empty(),
{}

/// TRUSTED: a Vec<Token> (80-byte elements, one allocation of at most isize::MAX bytes) holds fewer than isize::MAX / 2 elements
#[verifier::external_body]
pub proof fn axiom_token_vec_len(v: &Vec<tokenizer::Token>)
    ensures 2 * v@.len() + 2 <= usize::MAX,
{}
