// ---- element_parser vocabulary: the attribute machine on byte offsets, what parse returns (needs prelude + types.vs) ----
/// ghost mirror of the local `enum State` of parse
pub enum PState { NameBegin, Name(int), NameEnd, ValueBegin, ValueWithNoQuote, ValueWithDoubleQuote(int), ValueWithSingleQuote(int), ParseError }
/// one name[=value] pair as byte offsets into `target`
pub struct POff { pub ns: int, pub ne: int, pub val: Option<(int, int)> }

pub open spec fn set_last_val(offs: Seq<POff>, a: int, b: int) -> Seq<POff> {
    offs.update(offs.len() - 1, POff { val: Some((a, b)), ..offs[offs.len() - 1] })
}
/// one step of the state machine on character c at byte offset pos
pub open spec fn pstep(st: PState, offs: Seq<POff>, pos: int, c: char) -> (PState, Seq<POff>) {
    match st {
        PState::NameBegin => (if c == ' ' || c == '\n' { PState::NameBegin } else if c == '=' || c == '"' || c == '\'' { PState::ParseError } else { PState::Name(pos) }, offs),
        PState::Name(start) => if c == ' ' || c == '\n' { (PState::NameEnd, offs.push(POff { ns: start, ne: pos, val: None })) }
            else if c == '=' { (PState::ValueBegin, offs.push(POff { ns: start, ne: pos, val: None })) } else { (st, offs) },
        PState::NameEnd => (if c == ' ' || c == '\n' { PState::NameEnd } else if c == '=' { PState::ValueBegin } else { PState::Name(pos) }, offs),
        PState::ValueBegin => (if c == ' ' || c == '\n' { PState::ValueBegin } else if c == '"' { PState::ValueWithDoubleQuote(pos + 1) }
            else if c == '\'' { PState::ValueWithSingleQuote(pos + 1) } else { PState::ValueWithNoQuote }, offs),
        PState::ValueWithDoubleQuote(start) => if c == '"' { (PState::NameBegin, set_last_val(offs, start, pos)) } else { (st, offs) },
        PState::ValueWithSingleQuote(start) => if c == '\'' { (PState::NameBegin, set_last_val(offs, start, pos)) } else { (st, offs) },
        PState::ValueWithNoQuote => (if c == ' ' { PState::NameBegin } else { st }, offs),
        PState::ParseError => (st, offs),
    }
}
pub open spec fn pscan(cs: Seq<char>, n: int) -> (PState, Seq<POff>)
    decreases n,
{
    if n <= 0 { (PState::NameBegin, Seq::empty()) } else {
        let p = pscan(cs, n - 1);
        pstep(p.0, p.1, char_byte_pos(cs, n - 1), cs[n - 1])
    }
}
/// the pairs after the final flush of a pending name
pub open spec fn pfinal(cs: Seq<char>) -> (PState, Seq<POff>) {
    let p = pscan(cs, cs.len() as int);
    match p.0 { PState::Name(start) => (p.0, p.1.push(POff { ns: start, ne: encode_utf8(cs).len() as int, val: None })), _ => p }
}
/// the collected (name, value) slices are the byte ranges the machine recorded
pub open spec fn pair_ok(p: (&str, Option<&str>), o: POff, tb: Seq<u8>) -> bool {
    &&& p.0.spec_bytes() == tb.subrange(o.ns, o.ne)
    &&& (p.1 is Some) == (o.val is Some)
    &&& p.1 matches Some(v) ==> v.spec_bytes() == tb.subrange((o.val->0).0, (o.val->0).1)
}
pub open spec fn pairs_ok(ps: Seq<(&str, Option<&str>)>, offs: Seq<POff>, tb: Seq<u8>) -> bool {
    ps.len() == offs.len() && forall|i: int| 0 <= i < ps.len() ==> pair_ok(#[trigger] ps[i], offs[i], tb)
}
pub open spec fn attr_ok(a: crate::element_parser::Attribute, o: POff, tb: Seq<u8>) -> bool {
    &&& a.name.spec_bytes() == tb.subrange(o.ns, o.ne)
    &&& (a.value is Some) == (o.val is Some)
    &&& a.value matches Some(v) ==> v.spec_bytes() == tb.subrange((o.val->0).0, (o.val->0).1)
}
/// C09: the element's name is the first recorded range, its attributes are the remaining ones, in order
pub open spec fn element_ok(e: crate::element_parser::Element, offs: Seq<POff>, tb: Seq<u8>) -> bool {
    &&& offs.len() > 0
    &&& e.name.spec_bytes() == tb.subrange(offs[0].ns, offs[0].ne)
    &&& e.attrs@.len() == offs.len() - 1
    &&& forall|i: int| 0 <= i < e.attrs@.len() ==> attr_ok(#[trigger] e.attrs@[i], offs[i + 1], tb)
}
pub open spec fn parse_ok(cs: Seq<char>) -> bool { !(pfinal(cs).0 is ParseError) && pfinal(cs).1.len() > 0 }
pub open spec fn target_of(token: crate::tokenizer::Token) -> Seq<char> {
    match token.kind {
        crate::tokenizer::TokenKind::Element(e) => strip_suffixes(strip_prefixes(token.value@, e.delimiter_start@), e.delimiter_end@),
        _ => Seq::empty(),
    }
}
/// the tag name element_parser::parse yields for a token (None: not a tag token, or its body is rejected):
/// the text of the first range the machine records
#[verifier::opaque]
pub open spec fn ep_name(t: crate::tokenizer::Token) -> Option<Seq<char>> {
    if t.kind is Element && parse_ok(target_of(t)) {
        let o = pfinal(target_of(t)).1[0];
        Some(decode_utf8(encode_utf8(target_of(t)).subrange(o.ns, o.ne)))
    } else {
        None
    }
}
