"""Witness finder (DESIGN 3.8): runs the REAL crate (driver) on a deterministic corpus and evaluates executable
transcriptions of property statements that are certainly right.  It never proves anything; a hit is a concrete
failing input that is written to the replay file and replayed on the real code."""
import itertools, json, random

TL, RM = 'time-limited', 'removal-marker'
DELIMS = [('<', '>'), ('<!-- <', '> -->'), ('/* <', '> */'), ('【', '】'), ('<<', '>>')]
NOW = '2024-06-15T12:00:00+00:00'
PAST, FUTURE = '2020-01-01 00:00:00', '2030-01-01 00:00:00'
WS = ' \t\r\n'      # the only white space the properties know: space, tab, line breaks (NOT U+3000, U+00A0, form feed ...)


def cfg(**kw):
    d = {'current': NOW, 'offset': '+00:00', 'tl_tag': TL, 'rm_tag': RM, 'targets': ['f1']}
    d.update(kw)
    return d


def nonblank_lines(s):
    return [l.strip(WS) for l in s.split('\n') if l.strip(WS)]


# ------------------------------------------------------------------ generators: each yields (request, oracle)
# oracle(resp) -> None (fine) or a string describing the violation

def gen_totality(seed, big):
    """C01: clean/list/list_all (+json) return normally on junk over delimiter atoms"""
    rnd = random.Random(seed)
    out = []
    for ds, de in DELIMS:
        atoms = [ds, de, ds[:1], de[-1:], ' ', '\n', 'a', 'あ', '😀', '=', '"', "'", 'skip', 'unwrap-block', TL, '/' + TL, RM, '/' + RM,
                 f"{ds}{TL} to='{PAST}'{de}", f"{ds}/{TL}{de}", f"{ds}{RM} name='f1' unwrap-block{de}", f"{ds}/{RM}{de}", f"{ds} {de}", f"{ds}\n{de}"]
        n = 400 if big else 120
        for _ in range(n):
            k = rnd.randint(1, 7)
            src = ''.join(rnd.choice(atoms) for _ in range(k))
            for mode in ('clean', 'list', 'list_json', 'list_all', 'list_all_json'):
                req = dict(cfg(), mode=mode, source=src, ds=ds, de=de)
                out.append((req, lambda r: None if r.get('ok') else 'panicked: ' + str(r.get('panic'))[:200]))
    return out


def gen_identity(seed, big):
    """C04: nothing can be ready (tag names not registered, no targets) => output is byte-identical"""
    rnd = random.Random(seed + 1)
    out = []
    for ds, de in DELIMS:
        atoms = [' ', '\n', '  ', '\t', 'a', 'あ', '\n\n', f"{ds}{TL} to='{PAST}'{de}", f"{ds}/{TL}{de}", f"{ds}{RM} name='f1'{de}", f"{ds}/{RM}{de}",
                 f"{ds}{RM} name='f1' unwrap-block{de}", 'x {', '}', ds, de]
        for _ in range(300 if big else 80):
            src = ''.join(rnd.choice(atoms) for _ in range(rnd.randint(1, 10)))
            # (a) unregistered names, (b) registered but unexpired / untargeted
            for c in (cfg(tl_tag='zz-not-used', rm_tag='yy-not-used'), cfg(current='2000-01-01T00:00:00+00:00', targets=[])):
                req = dict(c, mode='clean', source=src, ds=ds, de=de)
                if c['tl_tag'] == TL:
                    # expired markers in atoms use PAST=2020 > current=2000: not expired; targets empty: nothing ready
                    pass
                out.append((req, (lambda s: lambda r: None if r.get('ok') and r.get('output') == s else 'output differs from input although nothing is ready: ' + json.dumps(r, ensure_ascii=False)[:200])(src)))
    return out


def gen_identity_unwrappable(seed, big):
    """C04: a ready unwrap-block that cannot be unwrapped (fewer than two lines between the tags, or on one line) is left
    completely untouched - also the whitespace around it"""
    out = []
    pres = ['a\n\n', 'a\n  \n', '\n\n', 'a\n \n \n', '  a\n\n\n', 'a\n']
    posts = ['\nb\n', 'b\n', '\n\nb\n', '  \n b\n', '']
    bodies = ['', 'one\n', '  one  \n', '\n', '  \n', '\t\n']     # incl. one line that is completely empty / blank
    for pre in pres:
        for post in posts:
            for body in bodies:
                for ind in ('', '  '):
                    src = pre + ind + f"<{RM} name='f1' unwrap-block>\n" + body + ind + f"</{RM}>\n" + post
                    out.append((dict(cfg(), mode='clean', source=src, ds='<', de='>'),
                                (lambda s_: lambda r: None if r.get('ok') and r.get('output') == s_ else 'un-unwrappable ready unwrap-block: output differs from input: ' + json.dumps(r, ensure_ascii=False)[:200])(src)))
            src = pre + f"<{TL} to='{PAST}' unwrap-block>x</{TL}>\n" + post
            out.append((dict(cfg(), mode='clean', source=src, ds='<', de='>'),
                        (lambda s_: lambda r: None if r.get('ok') and r.get('output') == s_ else 'single-line unwrap-block: output differs from input: ' + json.dumps(r, ensure_ascii=False)[:200])(src)))
    return out


def gen_identity_unrecognised(seed, big):
    """C04: expired / targeted elements whose opening tag is NOT recognised by the tokenizer, because the start delimiter
    is directly preceded by a proper prefix of itself (the tokenizer never re-examines the breaking character: this is
    the behaviour proved as tokenize_spec and recorded as known finding K1 for C08). Their closing tags are stray, no
    element exists, nothing is ready: the output must be the input."""
    rnd = random.Random(seed + 12)
    out = []
    for ds, de in DELIMS:
        if len(ds) < 2 or ds[0] in ds[1:]:
            continue
        for _ in range(60 if big else 20):
            k = rnd.randint(1, len(ds) - 1)
            pre = ds[:k]
            kind = rnd.choice(['tl', 'rm', 'unwrap'])
            open_tag = {'tl': f"{ds}{TL} to='{PAST}'{de}", 'rm': f"{ds}{RM} name='f1'{de}", 'unwrap': f"{ds}{RM} name='f1' unwrap-block{de}"}[kind]
            close = f"{ds}/{TL if kind == 'tl' else RM}{de}"
            lead = rnd.choice(['', 'setup();\n', '\nsetup();\n', '  '])
            body = rnd.choice(['\n  legacy();\n', ' x ', '\nif a {\n  b\n}\n', '\n'])
            tail = rnd.choice(['', '\n', '\n\nteardown();\n'])
            src = lead + pre + open_tag + body + close + tail
            out.append((dict(cfg(), mode='clean', source=src, ds=ds, de=de),
                        (lambda s_: lambda r: None if r.get('ok') and r.get('output') == s_ else 'a tag the tokenizer does not recognise was treated as an element (output differs from input): ' + json.dumps(r, ensure_ascii=False)[:200])(src)))
    # an EMPTY tag (start delimiter directly followed by the end delimiter) is not a tag: a tag has at least one body
    # character, so the end delimiter is looked for behind it and the span runs on to the end of the NEXT tag - the
    # opening tag of the expired / targeted element behind it is swallowed, its closing tag is stray, nothing is ready
    for ds, de in DELIMS + [('<!--', '-->'), ('// --', '-- //')]:
        if ds.startswith(de[:1]):
            continue
        for open_tag, close in ((f"{ds}{TL} to='{PAST}'{de}", f"{ds}/{TL}{de}"), (f"{ds}{RM} name='f1'{de}", f"{ds}/{RM}{de}"),
                                (f"{ds}{RM} name='f1' unwrap-block{de}", f"{ds}/{RM}{de}")):
            for lead, gap in (('a\n', ''), ('a\n  ', ' '), ('', ''), ('x = 1; ', '')):
                src = lead + ds + de + gap + open_tag + '\nold();\n  more();\n  end();\n' + close + '\nb\n'
                out.append((dict(cfg(), mode='clean', source=src, ds=ds, de=de),
                            (lambda s_: lambda r: None if r.get('ok') and r.get('output') == s_ else 'an empty tag in front of an opening tag swallows it (a tag has at least one body character), so nothing is ready - yet the output differs from the input: ' + json.dumps(r, ensure_ascii=False)[:200])(src)))
    # a closing tag is `/name`: with a blank or a line break between the slash and the name the tag's name is `/`, it closes
    # nothing, the opening tag stays unclosed, nothing is ready
    for ds, de in (('<', '>'), ('<!--', '-->'), ('/* <', '> */')):
        for open_tag, nm in ((f"{ds}{TL} to='{PAST}'{de}", TL), (f"{ds} {RM} name='f1' {de}", RM), (f"{ds}{RM} name='f1' unwrap-block{de}", RM)):
            for gap in (' ', '\n', '\t', '  '):
                for lead, body in (('a ', ' b '), ('a\n', '\nold();\n'), ('', '\nif x {\n  y\n}\n')):
                    src = lead + open_tag + body + f"{ds}/{gap}{nm}{de}" + ' KEEP\n'
                    out.append((dict(cfg(), mode='clean', source=src, ds=ds, de=de),
                                (lambda s_: lambda r: None if r.get('ok') and r.get('output') == s_ else 'a tag with a blank between the slash and the name is not a closing tag, so nothing is ready - yet the output differs from the input: ' + json.dumps(r, ensure_ascii=False)[:200])(src)))
    # the file ends inside the end delimiter of the closing tag: the closing tag does not exist, nothing is ready
    for ds, de in DELIMS + [('<!--', '-->'), ('// --', '-- //')]:
        if len(de) < 2:
            continue
        for k in range(1, len(de)):
            for open_tag, close in ((f"{ds}{TL} to='{PAST}'{de}", f"{ds}/{TL}{de}"), (f"{ds}{RM} name='f1'{de}", f"{ds}/{RM}{de}"),
                                    (f"{ds} {TL} to='{PAST}' {de}", f"{ds} /{TL} {de}"), (f"{ds} {RM} name='f1' {de}", f"{ds} /{RM} {de}")):
                for lead in ('keep();\n', ''):
                    src = lead + open_tag + '\nold();\n' + close[:-k]
                    out.append((dict(cfg(), mode='clean', source=src, ds=ds, de=de),
                                (lambda s_: lambda r: None if r.get('ok') and r.get('output') == s_ else 'a closing tag cut off at the end of the file was treated as a closing tag (output differs from input): ' + json.dumps(r, ensure_ascii=False)[:200])(src)))
    return out


def check_partition(src, ds, de):
    def oracle(r):
        if not r.get('ok'):
            return 'tokenize panicked: ' + str(r.get('panic'))[:200]
        toks = r['output']
        if src == '':
            return None if toks == [] else 'tokens for empty source'
        pos_b = pos_c = 0
        prev_text = False
        for t in toks:
            v = t['value']
            if not v:
                return 'empty token'
            if t['byte_start'] != pos_b or t['start'] != pos_c:
                return f'token not contiguous at byte {pos_b}: {t}'
            if t['byte_end'] - t['byte_start'] != len(v.encode()) or t['end'] - t['start'] != len(v):
                return f'offsets do not describe the token text: {t}'
            if src.encode()[t['byte_start']:t['byte_end']].decode(errors='replace') != v:
                return f'token text is not the source slice: {t}'
            if t['element'] and not (v.startswith(ds) and v.endswith(de)):
                return f'tag token does not begin/end with the delimiters: {t}'
            if not t['element'] and prev_text:
                return 'two adjacent text tokens'
            prev_text = not t['element']
            pos_b, pos_c = t['byte_end'], t['end']
        if pos_b != len(src.encode()) or pos_c != len(src):
            return 'tokens do not end at the source length'
        return None
    return oracle


def gen_partition(seed, big):
    """C07"""
    rnd = random.Random(seed + 2)
    out = []
    for ds, de in DELIMS + [('aab', 'bba'), ('// --', '-- //'), ('「「', '」」'), ('/* «', '» */'), ('«<', '>»'), ('é<', '>é'), ('<%#', '-%>'), ('@@', '@@'), ('#', '##'), ('##', '#'), ('|', '|')]:
        atoms = sorted(set(list(ds) + list(de) + [' ', '\n', 'x', 'あ', '😀', 'é', ds, de]))
        for _ in range(500 if big else 150):
            src = ''.join(rnd.choice(atoms) for _ in range(rnd.randint(0, 9)))
            out.append((dict(mode='tokenize', source=src, ds=ds, de=de), check_partition(src, ds, de)))
    return out


def ref_tokenize(src, ds, de):
    """the recognition automaton (no backtracking) as the proved spec function tokenize_spec defines it"""
    toks, state, rem, start = [], 'T', None, 0
    def check_start(c):
        return ('S', ds[1:]) if c == ds[0] else ('T', None)
    for i, c in enumerate(src):
        kind = None
        if state == 'T':
            ns, r = check_start(c)
            if ns == 'S':
                kind, state, rem = False, 'S', r
        elif state == 'S':
            if rem:
                if c == rem[0]: rem = rem[1:]
                else: state, rem = 'T', None
            else:
                state = 'I'
        elif state == 'I':
            if c == de[0]: state, rem = 'E', de[1:]
        elif state == 'E':
            if rem:
                if c == rem[0]: rem = rem[1:]
                else: state, rem = 'I', None
            else:
                kind = True
                state, rem = check_start(c)
        if kind is not None:
            if i > start: toks.append((kind, start, i))
            start = i
    if src:
        last_kind = (state == 'E' and not rem)
        toks.append((last_kind, start, len(src)))
    merged = []
    for k, a, b in toks:
        if merged and not merged[-1][0] and not k:
            merged[-1] = (False, merged[-1][1], b)
        else:
            merged.append((k, a, b))
    return merged


def gen_recognition(seed, big):
    """C08 (conformance): tag tokens are exactly the spans the recognition automaton finds (the behaviour that is proved
    equal to tokenize_spec; the gap to leftmost-shortest matching is known finding K1 and is NOT tested here)"""
    rnd = random.Random(seed + 7)
    out = []
    for ds, de in DELIMS + [('aab', 'bba'), ('// --', '-- //'), ('「「', '」」'), ('/* «', '» */'), ('«<', '>»'), ('é<', '>é'), ('<%#', '-%>'), ('@@', '@@'), ('#', '##'), ('##', '#'), ('|', '|'),
                            # delimiters longer than a handful of characters: the whole delimiter counts, however long
                            ('<!-- chiritori:', '-->'), ('/* <', '> end-of-tag */'), ('/* feature: <', '> */'), ('0123456789abcdefXYZ', 'ZYXfedcba9876543210'), ('<<<<<<<<<<<<', '>>>>>>>>>>>>')]:
        pref = [d[:k] for d in (ds, de) for k in (len(d) - 1, len(d) // 2, 7, 8, 9, 15, 16, 17) if 1 < k < len(d)]
        atoms = sorted(set(list(ds) + list(de) + pref + [' ', 'x', 'あ', '\\', '\n', '"', ds, de, ds + 'r' + de, ds + de]
                           + [chr(0x0400 | ord(c)) for c in ds + de if ord(c) < 0x80] + [chr(0x6500 | ord(c)) for c in (ds + de)[:2] if ord(c) < 0x80]))
        for _ in range(500 if big else 150):
            src = ''.join(rnd.choice(atoms) for _ in range(rnd.randint(0, 8)))
            want = ref_tokenize(src, ds, de)
            def oracle(r, want=want, src=src):
                if not r.get('ok'):
                    return 'tokenize panicked: ' + str(r.get('panic'))[:160]
                got = [(t['element'], t['start'], t['end']) for t in r['output']]
                if got != want:
                    return f'recognised spans differ for {src!r}: expected {want} got {got}'
                return None
            out.append((dict(mode='tokenize', source=src, ds=ds, de=de), oracle))
    return out


def gen_expiry(seed, big):
    """C05: removed exactly when now >= to (read at the configured offset); malformed never ready"""
    out = []
    import datetime
    base = datetime.datetime(2024, 2, 29, 23, 59, 59)
    offs = [(-12, 0), (-5, 0), (-3, 30), (0, 0), (5, 45), (9, 0), (14, 0)]
    # besides the leap-day base: wall clocks in the first and last seconds/hours of a year, where the year of the instant
    # differs between the configured offset, UTC and the process's local zone
    bases = [base, datetime.datetime(2025, 1, 1, 0, 0, 0), datetime.datetime(2024, 12, 31, 23, 59, 59), datetime.datetime(2025, 1, 1, 6, 30, 0), datetime.datetime(2000, 1, 1, 0, 0, 0)]
    for base, ((h, m), colon) in itertools.product(bases, itertools.product(offs, (True, False))):
        sign = '-' if (h < 0) else '+'
        o = f"{sign}{abs(h):02d}{':' if colon else ''}{m:02d}"
        delta = datetime.timedelta(hours=h, minutes=(m if h >= 0 else -m))
        to_utc = base - delta      # wall clock `base` at offset o is this UTC instant
        for d in (-1, 0, 1):
            cur = (to_utc + datetime.timedelta(seconds=d)).strftime('%Y-%m-%dT%H:%M:%S+00:00')
            src = f"A\n<{TL} to='{base.strftime('%Y-%m-%d %H:%M:%S')}'>\nB\n</{TL}>\nC\n"
            exp = 'A\nC\n' if d >= 0 else src
            out.append((dict(cfg(current=cur, offset=o), mode='clean', source=src, ds='<', de='>'),
                        (lambda e, dd, oo: lambda r: None if r.get('ok') and r.get('output') == e else f'expiry decision wrong at now - to = {dd}s, offset {oo}: ' + json.dumps(r, ensure_ascii=False)[:160])(exp, d, o)))
    # the current instant may carry a fraction of a second: any instant before `to` keeps the element, `to` itself and
    # anything later removes it - no rounding to whole seconds
    base = bases[0]
    for o, secs in (('+00:00', 0), ('+0900', 9 * 3600), ('-03:30', -(3 * 3600 + 30 * 60))):
        to_utc = base - datetime.timedelta(seconds=secs)
        for ms, ready in ((-1, False), (-500, False), (-999, False), (-1001, False), (0, True), (1, True), (999, True)):
            c = to_utc + datetime.timedelta(milliseconds=ms)
            cur = c.strftime('%Y-%m-%dT%H:%M:%S') + f'.{c.microsecond // 1000:03d}+00:00'
            src = f"A\n<{TL} to='{base.strftime('%Y-%m-%d %H:%M:%S')}'>\nB\n</{TL}>\nC\n"
            exp = 'A\nC\n' if ready else src
            out.append((dict(cfg(current=cur, offset=o), mode='clean', source=src, ds='<', de='>'),
                        (lambda e, dd, oo: lambda r: None if r.get('ok') and r.get('output') == e else f'expiry decision wrong at now - to = {dd} ms, offset {oo}: ' + json.dumps(r, ensure_ascii=False)[:160])(exp, ms, o)))
    # dates far from today: the decision is the same comparison (no 64-bit-nanosecond or 32-bit-second window)
    for to, cur, ready in (('1600-01-01 00:00:00', NOW, True), ('0001-01-01 00:00:00', NOW, True), ('1677-09-21 00:12:43', NOW, True), ('1901-12-13 20:45:51', NOW, True),
                           ('2299-12-31 23:59:59', '2300-01-01T00:00:00+00:00', True), ('2262-04-11 23:47:17', '2262-04-12T00:00:00+00:00', True), ('2038-01-19 03:14:08', '2038-01-19T03:14:08+00:00', True),
                           ('2300-01-01 00:00:01', '2300-01-01T00:00:00+00:00', False), ('9999-12-31 23:59:59', NOW, False), ('2038-01-19 03:14:08', '2038-01-19T03:14:07+00:00', False)):
        src = f"A\n<{TL} to='{to}'>\nB\n</{TL}>\nC\n"
        exp = 'A\nC\n' if ready else src
        out.append((dict(cfg(current=cur), mode='clean', source=src, ds='<', de='>'),
                    (lambda e, t, c: lambda r: None if r.get('ok') and r.get('output') == e else f'expiry decision wrong for a far-away date to={t} now={c}: ' + json.dumps(r, ensure_ascii=False)[:160])(exp, to, cur)))
    # second 60 (a leap second, which chrono accepts) lies AFTER second 59: the element is not ready at ...:59 and at
    # ...:59.750, it is ready at the next full second
    for to, cur, ready in (('2016-12-31 23:59:60', '2016-12-31T23:59:59+00:00', False), ('2016-12-31 23:59:60', '2016-12-31T23:59:59.750+00:00', False),
                           ('2016-12-31 23:59:60', '2017-01-01T00:00:00+00:00', True), ('2024-06-30 23:59:60', '2024-06-30T23:59:58+00:00', False)):
        src = f"A\n<{TL} to='{to}'>\nB\n</{TL}>\nC\n"
        exp = 'A\nC\n' if ready else src
        out.append((dict(cfg(current=cur), mode='clean', source=src, ds='<', de='>'),
                    (lambda e, t, c: lambda r: None if r.get('ok') and r.get('output') == e else f'expiry decision wrong around a leap second to={t} now={c}: ' + json.dumps(r, ensure_ascii=False)[:160])(exp, to, cur)))
    # spellings chrono's "%Y-%m-%d %H:%M:%S" accepts besides the canonical one (fields without zero padding): a date is a
    # date however it is spelled
    # ... and is compared as an instant, not as text
    for to, cur, ready in (('2024-1-5 3:04:05', '2024-02-01T00:00:00+00:00', True), ('2024-9-30 00:00:00', '2024-10-05T00:00:00+00:00', True), ('2024-9-30 00:00:00', '2024-09-29T23:59:59+00:00', False),
                           ('2024-12-1 00:00:00', '2024-11-30T23:59:59+00:00', False), ('2024-2-01 9:00:00', '2024-02-01T10:00:00+00:00', True), ('2024-2-01 11:00:00', '2024-02-01T10:00:00+00:00', False),
                           ('2024-02-1 9:00:00', '2024-02-01T08:59:59+00:00', False), ('2024-02-1 9:00:00', '2024-02-01T09:00:00+00:00', True)):
        src = f"A\n<{TL} to='{to}'>\nB\n</{TL}>\nC\n"
        exp = 'A\nC\n' if ready else src
        out.append((dict(cfg(current=cur), mode='clean', source=src, ds='<', de='>'),
                    (lambda e, t, c: lambda r: None if r.get('ok') and r.get('output') == e else f'a date written without zero padding (to={t}) is compared as an instant with now={c}: ' + json.dumps(r, ensure_ascii=False)[:160])(exp, to, cur)))
    for to in ('2020-1-5 9:00:00', '2020-1-05 09:0:0', '2020-01-5 9:5:7'):
        src = f"A\n<{TL} to='{to}'>\nB\n</{TL}>\nC\n"
        out.append((dict(cfg(), mode='clean', source=src, ds='<', de='>'),
                    (lambda t: lambda r: None if r.get('ok') and r.get('output') == 'A\nC\n' else f'an expired element whose date is written without zero padding ({t}) is still expired: ' + json.dumps(r, ensure_ascii=False)[:160])(to)))
    # years outside chrono's range or spelled with a sign are malformed or never reached: not ready, and no panic at any offset
    for to in ('-262143-01-01 00:00:00', '+262142-12-31 23:59:59', '262142-12-31 23:59:59', '-0001-01-01 00:00:00', '10000-01-01 00:00:00'):
        for o in ('+09:00', '-01:00', '+14:00', '-12:00'):
            src = f"A\n<{TL} to='{to}'>\nB\n</{TL}>\nC\n"
            out.append((dict(cfg(offset=o), mode='clean', source=src, ds='<', de='>'),
                        (lambda t, oo: lambda r: ('clean panicked on an extreme `to`: ' + str(r.get('panic'))[:120]) if not r.get('ok') else None)(to, o)))
    bad_to = ['2024/01/01 00:00:00', '2020-01-01', '2020-13-01 00:00:00', '2020-01-01 25:00:00', '2020-01-01 00:00:00 +09:00', '', 'yesterday',
              # days that do not exist in that month are not dates: never ready (not "the last day of the month")
              '2020-02-30 23:59:59', '2021-04-31 00:00:00', '2023-02-29 00:00:00', '1900-02-29 00:00:00', '2020-06-31 12:00:00', '2020-01-32 00:00:00', '2020-01-00 00:00:00', '2020-00-10 00:00:00',
              '2020-01-01 24:00:00', '2020-01-01 00:60:00', '2020-01-01 00:00:61']
    bad_off = ['', '0900', '+09', 'Z', 'JST', '+25:00', '+09:00:00', '+0900 JST', '+09:00Z', '+00:00 UTC', '-0330x', '+09000', '+09:00 ', '+9:00']
    for t in bad_to:
        src = f"A\n<{TL} to='{t}'>\nB\n</{TL}>\nC\n"
        out.append((dict(cfg(), mode='clean', source=src, ds='<', de='>'), (lambda s: lambda r: None if r.get('ok') and r.get('output') == s else 'malformed `to` made the element ready: ' + json.dumps(r, ensure_ascii=False)[:160])(src)))
    for o in bad_off:
        src = f"A\n<{TL} to='{PAST}'>\nB\n</{TL}>\nC\n"
        out.append((dict(cfg(offset=o), mode='clean', source=src, ds='<', de='>'), (lambda s: lambda r: None if r.get('ok') and r.get('output') == s else 'malformed offset made the element ready: ' + json.dumps(r, ensure_ascii=False)[:160])(src)))
    for attrs in ('', 'to', 'from="x"'):
        src = f"A\n<{TL} {attrs}>\nB\n</{TL}>\nC\n"
        out.append((dict(cfg(), mode='clean', source=src, ds='<', de='>'), (lambda s: lambda r: None if r.get('ok') and r.get('output') == s else 'missing/valueless `to` made the element ready')(src)))
    # the FIRST attribute named `to` decides (a later duplicate is ignored), also when the tag is spread over several lines
    for attrs, ready in ((f"to to='{PAST}'", False), (f"to=2000-01-01 to='{PAST}'", False), (f"to='{FUTURE}' to='{PAST}'", False),
                         (f"to='{PAST}' to='{FUTURE}'", True), (f"TO='{PAST}'", False), (f"To='{PAST}'", False), (f"TO='{FUTURE}' to='{PAST}'", True), (f"tO='{PAST}' x='1'", False), (f"to=''\n  to='{PAST}'", False), (f"to\n  to='{PAST}'", False), (f"x='to' to='{PAST}'", True)):
        src = f"A\n<{TL} {attrs}>\nB\n</{TL}>\nC\n"
        exp = 'A\nC\n' if ready else src
        out.append((dict(cfg(), mode='clean', source=src, ds='<', de='>'), (lambda e, a: lambda r: None if r.get('ok') and r.get('output') == e else f'duplicate `to` attributes [{a}]: the first one must decide: ' + json.dumps(r, ensure_ascii=False)[:160])(exp, attrs)))
    return out


def gen_marker(seed, big):
    """C06: exact whole-string membership; skip by attribute name wins; quoted skip has no effect; unregistered names"""
    out = []
    def doc(attrs, tag=RM):
        return f"A\n<{tag} {attrs}>\nB\n</{tag}>\nC\n"
    removed = 'A\nC\n'
    cases = [
        ("name='f1'", ['f1'], True), ("name=\"f1\"", ['f1'], True), ("name='f1'", ['F1'], False), ("name='f1'", ['f'], False),
        ("name='f1'", ['f12'], False), ("name='f1'", [], False), ("name='f1'", ['', 'x'], False), ("name", [''], False), ("name", ['name'], False),
        ("name=f1", ['f1'], False), ("name=f1", [''], False), ("other='f1'", ['f1'], False), ("name='f1' skip", ['f1'], False), ("skip name='f1'", ['f1'], False),
        ("name='f1' skip='true'", ['f1'], False), ("name='f1' skip=\"no\"", ['f1'], False), ("name='f1' note='skip'", ['f1'], True),
        ("name='f1' note=\"please skip this\"", ['f1'], True), ("name='f1'\nskip", ['f1'], False), ("name='vec![]'", [], False),
        ("name='f1' x='unwrap-block'", ['f1'], True),
        ("name=\"f1\" note=\"don't skip this one\"", ['f1'], True), ("name='f1' note='say \"skip\" twice'", ['f1'], True),
        ("name=\"it's\"", ["it's"], True), ("name=\"it's\"", ['it'], False), ("name='a\"b'", ['a"b'], True), ("name='a\"b'", ['a'], False),
        ("name='C:\\'", ['C:\\'], True), ("name='f1\\' other='x'", ['f1\\'], True),
        # target names are compared as whole strings: padding counts on either side
        ("name='f1'", ['f1 '], False), ("name='f1'", [' f1'], False), ("name=' f1'", [' f1'], True), ("name='f1 '", ['f1'], False),
        ("name=''", [' '], False), ("name=' '", [' '], True), ("name='f1'", ['f1\n'], False), ("name='f1'", ['\tf1'], False),
        # target sets with several members: membership, nothing else (no ordering, no length relation between members)
        ("name='feature10'", ['feature10', 'feature2'], True), ("name='feature2'", ['feature10', 'feature2'], True), ("name='f1'", ['f1', 'v2'], True),
        ("name='removal-marker'", ['removal-marker', 'time-limited'], True), ("name='b'", ['a', 'b', 'c'], True), ("name='bb'", ['a', 'bbb', 'c'], False),
        ("name='zz'", ['a', 'b'], False), ("name='long-feature-name'", ['z', 'long-feature-name', 'm'], True), ("name=''", ['', 'a'], True),
        # attribute names are case-sensitive words
        ("NAME='f1'", ['f1'], False), ("Name='f1'", ['f1'], False), ("name='f1' SKIP", ['f1'], True), ("name='f1' Skip", ['f1'], True), ("NAME='zz' name='f1'", ['f1'], True),
        # a name is one string, not a list
        ("name='f1,f2'", ['f1'], False), ("name='f1,f2'", ['f1', 'f2'], False), ("name='f1,f2'", ['f1,f2'], True), ("name='a,'", ['', 'b'], False),
        ("name=','", [''], False), ("name='f1 f2'", ['f1'], False), ("name='f1;f2'", ['f2'], False), ("name='f1|f2'", ['f1'], False),
        # the FIRST attribute called `name` decides
        ("name name='f1'", ['f1'], False), ("name=f2 name='f1'", ['f1'], False), ("name='zz' name='f1'", ['f1'], False), ("name='f1' name='zz'", ['f1'], True),
        ("name=''\n  name='f1'", ['f1'], False), ("name\n name=\"f1\"", ['f1', ''], False),
    ]
    for attrs, targets, ready in cases:
        src = doc(attrs)
        exp = removed if ready else src
        out.append((dict(cfg(targets=targets), mode='clean', source=src, ds='<', de='>'),
                    (lambda e, a, t: lambda r: None if r.get('ok') and r.get('output') == e else f'marker/skip decision wrong for attrs [{a}] targets {t}: ' + json.dumps(r, ensure_ascii=False)[:160])(exp, attrs, targets)))
    # skip + unwrap-block, expired + skip, unregistered tag name
    src = "A\n<%s name='f1' skip unwrap-block>\nif x {\n  B\n}\n</%s>\nC\n" % (RM, RM)
    out.append((dict(cfg(), mode='clean', source=src, ds='<', de='>'), (lambda s: lambda r: None if r.get('ok') and r.get('output') == s else 'element with skip and unwrap-block was changed')(src)))
    src = f"A\n<{TL} to='{PAST}' skip>\nB\n</{TL}>\nC\n"
    out.append((dict(cfg(), mode='clean', source=src, ds='<', de='>'), (lambda s: lambda r: None if r.get('ok') and r.get('output') == s else 'expired element with skip was removed')(src)))
    # ... and a skipped element does not protect the ready elements AROUND it: they go, and it goes with them
    for inner in (f"{RM} skip name='f1'", f"{TL} to='{PAST}' skip", f"{RM} name='zz' skip"):
        close = inner.split(' ')[0]
        src = f"A<{RM} name='f1'>B<div><{inner}>C</{close}></div>D</{RM}>E\n"
        out.append((dict(cfg(), mode='clean', source=src, ds='<', de='>'), (lambda k: lambda r: None if r.get('ok') and r.get('output') == 'AE\n' else f'a ready element that contains a skipped one [{k}] is still removed as a whole: ' + json.dumps(r, ensure_ascii=False)[:200])(inner)))
    # skip protects the element itself ("on its own account"), not the ready elements nested in it
    for skipper in (f"{TL} to='{PAST}' skip", f"{RM} name='f1' skip", f"{RM} skip='yes' name='zz'", "section skip"):
        close = skipper.split(' ')[0]
        src = f"top\n<{skipper}>\nkeep\n<{RM} name='f1'>\ngone\n</{RM}>\ntail\n</{close}>\nend\n"
        exp = f"top\n<{skipper}>\nkeep\ntail\n</{close}>\nend\n"
        out.append((dict(cfg(), mode='clean', source=src, ds='<', de='>'), (lambda e, k: lambda r: None if r.get('ok') and r.get('output') == e else f'a targeted element nested in an element with skip [{k}] must still be removed, the skipped element itself stays: ' + json.dumps(r, ensure_ascii=False)[:200])(exp, skipper)))
    # tag names that merely begin or end like a registered one are unregistered; so are names that differ in Unicode
    # normalisation from a configured one
    for tag in (TL + '2', 'x' + TL, TL + '-old', RM + 's', 'my-' + RM, RM[:-1], TL[1:], TL + '\u0301'):
        src = doc(f"name='f1' to='{PAST}'", tag=tag)
        out.append((dict(cfg(), mode='clean', source=src, ds='<', de='>'), (lambda s_, t: lambda r: None if r.get('ok') and r.get('output') == s_ else f'an element with the unregistered tag name {t!r} was changed: ' + json.dumps(r, ensure_ascii=False)[:160])(src, tag)))
    for nm, tg, ready in (('caf\u00e9', 'cafe\u0301', False), ('cafe\u0301', 'caf\u00e9', False), ('caf\u00e9', 'caf\u00e9', True), ('\uff46\uff11', 'f1', False), ('f1\u200b', 'f1', False)):
        src = doc(f"name='{nm}'")
        exp = removed if ready else src
        out.append((dict(cfg(targets=[tg]), mode='clean', source=src, ds='<', de='>'), (lambda e, a, t: lambda r: None if r.get('ok') and r.get('output') == e else f'name {a!r} against target {t!r}: names are compared code point by code point: ' + json.dumps(r, ensure_ascii=False)[:160])(exp, nm, tg)))
    # a doubled quote is not an escape: the value ends at the first quote, the second one is a syntax error of the tag,
    # the tag is no tag and nothing is ready
    for attrs in ("c=\"a\"\"b\" name='f1'", "name='f1' c='it''s'", "name='f1''"):
        src = doc(attrs)
        out.append((dict(cfg(), mode='clean', source=src, ds='<', de='>'), (lambda s_, a: lambda r: None if r.get('ok') and r.get('output') == s_ else f'a doubled quote is not an escape ([{a}] is malformed, nothing is ready): ' + json.dumps(r, ensure_ascii=False)[:160])(src, attrs)))
    src = doc("name='f1' to='%s'" % PAST, tag='other-tag')
    out.append((dict(cfg(), mode='clean', source=src, ds='<', de='>'), (lambda s: lambda r: None if r.get('ok') and r.get('output') == s else 'unregistered tag name was removed')(src)))
    return out


def gen_grammar(seed, big):
    """C09: well-formed tags parse to exactly their name and attributes; quoted values are opaque"""
    rnd = random.Random(seed + 3)
    out = []
    values = ['v', 'a b', 'x=y', "it's", 'say "hi"', 'line\nbreak', 'skip', 'unwrap-block', '<', '', ' padded ', 'あ=い', 'C:\\legacy\\', 'a\\', '\\', 'x\\y']
    seps = [' ', '  ', '\n', '\n  ', ' \n ']
    for _ in range(400 if big else 150):
        name = rnd.choice(['tag', 'time-limited', 'a', 'x-y', 'タグ', '2fa-rollout', '#region', '@todo', '-x', '9', '24h', '_p', '*', '!doctype', '?xml', '$v', '.cls', '+1', '~', 'é', '٣x', '(a)', '[b]', '{c}', 'a/b', 'x:y', '&amp;'])
        n = rnd.randint(0, 4)
        attrs, text = [], name
        for i in range(n):
            an = rnd.choice(['to', 'name', 'k%d' % i, 'skip', 'キー'])
            kind = rnd.choice(['bare', 'dq', 'sq'])
            text += rnd.choice(seps)
            if kind == 'bare':
                attrs.append([an, None]); text += an
            else:
                q = '"' if kind == 'dq' else "'"
                v = rnd.choice([x for x in values if q not in x])
                eq = rnd.choice(['=', ' =', '= ', ' = '])
                attrs.append([an, v]); text += an + eq + q + v + q
        pad_l, pad_r = rnd.choice(['', ' ', '  ']), rnd.choice(['', ' '])
        for ds, de in (('<', '>'), ('<!-- <', '> -->'), ('【', '】')):
            if any(ch in text for ch in set(ds + de)):
                continue
            src = ds + pad_l + text + pad_r + de
            def oracle(r, name=name, attrs=attrs, src=src):
                if not r.get('ok'):
                    return 'parse panicked: ' + str(r.get('panic'))[:160]
                els = [e for e in r['output'] if e is not None]
                if len(r['output']) != 1 or len(els) != 1:
                    return f'well-formed tag not recognised as one element: {src!r} -> {r["output"]}'
                e = els[0]
                if e['name'] != name or e['attrs'] != attrs:
                    return f'tag {src!r} parsed to {e} instead of name={name!r} attrs={attrs}'
                return None
            out.append((dict(mode='element', source=src, ds=ds, de=de), oracle))
    return out


def attr_variants(kind, rnd, multiline=False):
    """opening-tag attribute lists with the same decision: the first `to` / `name` attribute decides, quotes of either kind,
    values with the other quote or a trailing backslash, unrelated attributes before / behind, `skip` anywhere"""
    V = {
        'tl_past': [[f"to='{PAST}'"], [f'to="{PAST}"'], [f"to='{PAST}'", f"to='{FUTURE}'"], ["x='1'", f"to='{PAST}'"], [f"to='{PAST}'", "note='skip it'"],
                    [f"to='{PAST}'", 'c="a\\"', "d='x'"], [f"to='{PAST}'", 'to'], ["c='it\"s'", f"to='{PAST}'"]],
        'tl_future': [[f"to='{FUTURE}'"], [f"to='{FUTURE}'", f"to='{PAST}'"], ['to', f"to='{PAST}'"], ['to=2000-01-01', f"to='{PAST}'"], ["to=''"], [f"from='{PAST}'"]],
        'rm_hit': [["name='f1'"], ['name="f1"'], ["name='f1'", "name='zz'"], ["y='name'", "name='f1'"], ["name='f1'", 'note="don\'t skip"'], ["name='f1'", "c='a\\'", "d='x'"]],
        'rm_miss': [["name='zz'"], ["name='zz'", "name='f1'"], ['name', "name='f1'"], ['name=f1', "name='f1'"], ["name='F1'"], ["name='f1 '"], ["nam='f1'"]],
        'skip': [["name='f1'", 'skip'], ['skip', "name='f1'"], ["name='f1'", "skip='no'"], ["name='f1'", "c='x'", 'skip']],
        'unreg': [["name='f1'"], [f"to='{PAST}'"]],
    }
    attrs = rnd.choice(V[kind])
    sep = rnd.choice([' ', ' ', '  ', '\n  ', '\n']) if multiline else rnd.choice([' ', ' ', '  '])
    return sep.join(attrs)


def gen_blocks(seed, big):
    """C02/C03/C11: block documents from a small AST; the non-blank lines of the output are exactly the lines that
    survive by the property statements (default strategy: whole element; unwrap: two tag lines + two wrapper lines)"""
    rnd = random.Random(seed + 4)
    out = []
    counter = [0]
    def line():
        counter[0] += 1
        # now and then a blank-looking character that is NOT white space (U+3000, U+00A0): it must survive like a letter
        return rnd.choice([f'L{counter[0]} é'] * 5 + [f'L{counter[0]}\u3000é', f'\u00a0L{counter[0]} é', f'L{counter[0]} é\u3000', f'L{counter[0]}\x00é', f'\x00L{counter[0]} \x7f'])
    def elem(depth, ind):
        kind = rnd.choice(['tl_past', 'tl_future', 'rm_hit', 'rm_miss', 'skip', 'unreg'])
        unwrap = rnd.random() < 0.35
        tag, ready = {'tl_past': (TL, True), 'tl_future': (TL, False), 'rm_hit': (RM, True), 'rm_miss': (RM, False), 'skip': (RM, False), 'unreg': ('other', False)}[kind]
        attrs = attr_variants(kind, rnd, multiline=ready)
        body = []   # list of (text_line, survives_if_parent_alive)
        nbody = rnd.randint(2, 4) if unwrap else rnd.randint(0, 3)
        inner = []
        for _ in range(nbody):
            c_ = rnd.random()
            if depth < 2 and c_ < 0.3:
                inner.append(('elem', elem(depth + 1, ind + '  ')))
            elif c_ < 0.42:
                # an empty line or a line of indentation only (compared lines are the non-blank ones)
                inner.append(('line', rnd.choice(['', ind + '  ', ind + '    ', '\t'])))
            else:
                inner.append(('line', ind + '  ' + line()))
        return dict(tag=tag, attrs=attrs + (' unwrap-block' if unwrap else ''), ready=ready, unwrap=unwrap, inner=inner, ind=ind)
    def render(e, ds, de, alive, src, exp):
        # alive: ancestors do not delete this region
        body_lines = []
        src.append(f"{e['ind']}{ds}{e['tag']} {e['attrs']}{de}")
        gone_all = e['ready'] and not e['unwrap']
        if not (alive and not e['ready']):
            pass
        if alive and not e['ready']:
            exp.append(src[-1].strip(WS))
        inner = e['inner']
        can_unwrap = e['unwrap'] and len(inner) >= 2 and inner[0][0] == 'line' and inner[-1][0] == 'line'
        for i, (k, x) in enumerate(inner):
            if k == 'line':
                src.append(x)
                wrapper = e['unwrap'] and e['ready'] and can_unwrap and i in (0, len(inner) - 1)
                if alive and not gone_all and not wrapper and x.strip(WS):
                    exp.append(x.strip(WS))
            else:
                render(x, ds, de, alive and not gone_all, src, exp)
        src.append(f"{e['ind']}{ds}/{e['tag']}{de}")
        if alive and not e['ready']:
            exp.append(src[-1].strip(WS))
        return can_unwrap
    for _ in range(800 if big else 250):
        ds, de = rnd.choice([('<', '>'), ('<!-- <', '> -->'), ('/* <', '> */')])
        src, exp = [], []
        ok = True
        for _ in range(rnd.randint(1, 3)):
            if rnd.random() < 0.5:
                l = line(); src.append(l); exp.append(l)
            e = elem(0, rnd.choice(['', '  ']))
            # keep to the property's document space: an unwrap element needs line wrappers (no tags on wrapper lines)
            def legal(e):
                if e['unwrap'] and not (len(e['inner']) >= 2 and e['inner'][0][0] == 'line' and e['inner'][-1][0] == 'line'):
                    return False
                return all(legal(x) for k, x in e['inner'] if k == 'elem')
            if not legal(e):
                ok = False
                break
            render(e, ds, de, True, src, exp)
        l = line(); src.append(l); exp.append(l)
        if not ok:
            continue
        text = '\n'.join(src) + '\n'
        def oracle(r, exp=exp, text=text):
            if not r.get('ok'):
                return 'clean panicked: ' + str(r.get('panic'))[:160]
            got = nonblank_lines(r['output'])
            if got != exp:
                return f'surviving lines differ: expected {exp} got {got}'
            return None
        out.append((dict(cfg(), mode='clean', source=text, ds=ds, de=de), oracle))
    return out


def gen_list_all(seed, big):
    """C17: list_all items are in source order and its Ready items equal the plain list"""
    out = []
    docs = [
        "<%(rm)s name='p'>\na\n</%(rm)s>\n<%(rm)s name='p'>\nb\n</%(rm)s>\n<%(rm)s name='f1'>\nc\n</%(rm)s>\n",
        "<%(rm)s name='f1'>\n<%(rm)s name='p'>\na\n</%(rm)s>\n<%(rm)s name='p'>\nb\n</%(rm)s>\nc\n</%(rm)s>\nz\n",
        "x\n<%(rm)s name='f1' unwrap-block>\nif a {\n  <%(rm)s name='p'>\n  k\n  </%(rm)s>\n  m\n}\n</%(rm)s>\nz\n",
        "<%(rm)s name='p'>\n<%(rm)s name='f1'>\na\n</%(rm)s>\n</%(rm)s>\n<%(rm)s name='p' unwrap-block>\nif {\n}\n</%(rm)s>\n",
        "<%(rm)s name='p' unwrap-block>\none line\n</%(rm)s>\nq\n",
        # skip wins over a condition that does not hold as well: neither status
        "<%(rm)s name='p' skip>\nx\n</%(rm)s>\nq\n",
        "<%(tl)s skip to='2999-01-01 00:00:00'>\nx\n</%(tl)s>\n<%(rm)s name='f1'>\ny\n</%(rm)s>\n",
        "x\n<%(rm)s name='f1' unwrap-block>\nif a {\n  <%(rm)s name='p' skip>\n  k\n  </%(rm)s>\n  m\n}\n</%(rm)s>\nz\n",
        "<%(rm)s name='p'>\n<%(tl)s to='2999-01-01 00:00:00' skip>\na\n</%(tl)s>\n</%(rm)s>\n<other name='f1'>\nb\n</other>\n",
        # a pending element that opens in the kept body of a ready unwrap-block and closes on the closing wrapper line
        # straddles the closing part: it does not lie wholly inside a Ready region, so it is listed
        "<%(tl)s to='2000-01-01 00:00:00' unwrap-block>\nif (r) {\n  run();\n  <%(rm)s name='p'>\n  legacy();\n} </%(rm)s>\n</%(tl)s>\ndone();\n",
        # a skip attribute that carries a value is a skip attribute all the same
        "a\n<%(tl)s to='2001-01-01 00:00:00' skip=\"true\">\nb\n</%(tl)s>\nc\n",
        "a\n<%(rm)s name='p' skip='yes'>\nb\n</%(rm)s>\n<%(rm)s name='f1'>\ny\n</%(rm)s>\n",
        "<%(rm)s name='f1' skip=''>\nx\n<%(rm)s name='f1'>\ny\n</%(rm)s>\nz\n</%(rm)s>\n",
        # a ready unwrap-block that cannot be unwrapped appears in neither status, but pending elements inside it do
        "before\n<%(tl)s to='2001-01-01 00:00:00' unwrap-block>\n<%(rm)s name='p'> legacy(); </%(rm)s>\n</%(tl)s>\nafter\n",
        "x <%(tl)s to='2001-01-01 00:00:00' unwrap-block><%(rm)s name='p'>y</%(rm)s></%(tl)s> z\n",
        # a pending unwrap-block has two pending regions (head, tail); pending elements in its body are regions of their own
        "start()\n<%(tl)s to='2999-12-31 23:59:59' unwrap-block>\nif (r) {\n  a()\n  <%(rm)s name='p'>\n  b()\n  </%(rm)s>\n  c()\n}\n</%(tl)s>\nend()\n",
        "<%(rm)s name='p' unwrap-block>\n{\n  <%(rm)s name='p'>\n  x\n  </%(rm)s>\n  m\n  <%(tl)s to='2999-01-01 00:00:00' unwrap-block>\n  {\n    y\n  }\n  </%(tl)s>\n}\n</%(rm)s>\n",
    ]
    expect = [(2, 1), (0, 1), (1, 2), None, None, (0, 0), (0, 1), (0, 2), (1, 0), (1, 2), (0, 0), (0, 1), (0, 1), (1, 0), (1, 0), (3, 0), (5, 0)]
    for d, e in zip(docs, expect):
        src = d % {'rm': RM, 'tl': TL}
        out.append((dict(cfg(), mode='list_all_json', source=src, ds='<', de='>', _pair='list_json'), ('LIST_ALL', src, e)))
    # many pending elements under a wrapper that is in neither status (unregistered / skipped / ready unwrap body),
    # behind pending siblings: all listed, in source order
    six = ''.join("<%(rm)s name='off'>\nflag " + str(i) + "\n</%(rm)s>\n" for i in range(6))
    nine = ''.join("<%(rm)s name='off'>\nflag " + str(i) + "\n</%(rm)s>\n" for i in range(9))
    for d, e in (("<%(rm)s name='off'>\nhead\n</%(rm)s>\n<section>\n" + six + "</section>\ntail\n", (7, 0)),
                 ("<%(rm)s name='off'>\nh1\n</%(rm)s>\n<%(rm)s name='off'>\nh2\n</%(rm)s>\n<%(tl)s skip to='2001-01-01 00:00:00'>\n" + nine + "</%(tl)s>\n", (11, 0)),
                 ("<%(tl)s to='2000-01-01 00:00:00'>\n<%(rm)s name='off'>\ninner\n</%(rm)s>\n</%(tl)s>\n<section>\n<div>\n" + six + "</div>\n</section>\n", (6, 1)),
                 ("<%(rm)s name='off'>\nhead\n</%(rm)s>\n<%(rm)s name='f1' unwrap-block>\n{\n" + six + "}\n</%(rm)s>\n", (7, 2))):
        src = d % {'rm': RM, 'tl': TL}
        out.append((dict(cfg(), mode='list_all_json', source=src, ds='<', de='>', _pair='list_json'), ('LIST_ALL', src, e)))
    # an EMPTY target set (the command line's default): removal-markers are still registered elements - all Pending
    for d, e in (("head\n<%(rm)s name='f1'>\nbody\n</%(rm)s>\ntail\n", (1, 0)),
                 ("<%(rm)s name='a'>\nx\n</%(rm)s>\n<%(tl)s to='2001-01-01 00:00:00'>\ny\n</%(tl)s>\n<%(rm)s name='b' unwrap-block>\n{\n  <%(tl)s to='2999-01-01 00:00:00'>\n  z\n  </%(tl)s>\n}\n</%(rm)s>\n", (4, 1))):
        src = d % {'rm': RM, 'tl': TL}
        out.append((dict(cfg(targets=[]), mode='list_all_json', source=src, ds='<', de='>', _pair='list_json'), ('LIST_ALL', src, e)))
    return out


def strip_ws(t):
    return ''.join(ch for ch in t if ch not in WS)


def gen_inline(seed, big):
    """C02/C03/C14: inline and mixed layouts; the non-whitespace text of the output is the non-whitespace text of the
    input minus the removable extents of the ready (default strategy) elements"""
    rnd = random.Random(seed + 5)
    out = []
    words = ['abc', 'x = 1;', 'これは期間限定', 'é', '😀 ok', '}', 'if (a) {', '', 'a\u3000b', '\u00a0;', 'a\x00b', '\x00']
    blanks = ['', ' ', '  ', '\t', '\n', '\n  ', ' \n', '\n\n']
    for _ in range(1500 if big else 500):
        ds, de = rnd.choice([('<', '>'), ('<!-- <', '> -->'), ('/* <', '> */')])
        parts, keep = [], []
        for _ in range(rnd.randint(1, 3)):
            pre = rnd.choice(words) + rnd.choice(blanks)
            parts.append(pre); keep.append(pre)
            ready = rnd.random() < 0.6
            kind_ = rnd.choice(['tl_past', 'rm_hit']) if ready else rnd.choice(['tl_future', 'rm_miss', 'skip'])
            tag, attrs = (TL if kind_.startswith('tl') else RM), attr_variants(kind_, rnd, multiline=True)
            body = rnd.choice(blanks) + rnd.choice(words) + rnd.choice(blanks)
            el = f"{ds}{tag} {attrs}{de}{body}{ds}/{tag}{de}"
            parts.append(el)
            if not ready:
                keep.append(el)
            if rnd.random() < 0.15:
                ob = f"{ds}{TL} to='{PAST}' unwrap-block{de}"
                cb_ = f"{ds}/{TL}{de}"
                inner_ready = f"{ds}{RM} name='f1'{de}GONE{ds}/{RM}{de}"
                a_, b_ = rnd.choice([' a ', 'é', '']), rnd.choice([' b ', 'ü', ''])
                parts.append(ob + a_ + inner_ready + b_ + cb_)
                keep.append(ob + a_ + b_ + cb_)
            # further ready elements directly behind this one (no byte between them)
            for _k in range(rnd.choice([0, 0, 0, 1, 1, 2])):
                tag2, attrs2 = rnd.choice([(TL, f"to='{PAST}'"), (RM, "name='f1'")])
                parts.append(f"{ds}{tag2} {attrs2}{de}{rnd.choice(words)}{ds}/{tag2}{de}")
            post = rnd.choice(blanks) + rnd.choice(words)
            parts.append(post); keep.append(post)
            parts.append('\n'); keep.append('\n')
        has_unwrap = rnd.random() < 0.3
        if has_unwrap:
            # a ready unwrap-block behind everything else: its two tag lines and two wrapper lines go, the body stays
            bodyl = [rnd.choice(['s1', 'これ', 'x = "é";']) for _ in range(rnd.randint(1, 3))]
            ub = [f"{ds}{TL} to='{PAST}' unwrap-block{de}", '{'] + ['  ' + b_ for b_ in bodyl] + ['}', f"{ds}/{TL}{de}"]
            parts.append('\n'.join(ub) + '\n'); keep.append(''.join(bodyl))
            tailw = rnd.choice(['', 'c\n'])
            parts.append(tailw); keep.append(tailw)
        elif rnd.random() < 0.25:
            # the document begins with a tag (drop the leading text) and / or ends with one (drop everything behind the last element)
            while parts and not parts[0].startswith(ds):
                if parts[0] in keep: keep.remove(parts[0])
                parts.pop(0)
        if not has_unwrap and rnd.random() < 0.25:
            while parts and not parts[-1].endswith(de):
                x = parts.pop()
                for i in range(len(keep) - 1, -1, -1):
                    if keep[i] == x:
                        del keep[i]; break
        src = ''.join(parts)
        import re as _re2
        if rnd.random() < 0.25 and not _re2.search(_re2.escape(ds) + r'[^\n]*\n[^\n]*?' + _re2.escape(de), src.replace(de + '\n', de + ' ')):
            # CRLF text - but not when a tag is spread over several lines: inside a tag only ' ' and LF separate
            # attributes, a CR would become part of an attribute name
            src = src.replace('\n', '\r\n')
        exp = strip_ws(''.join(keep))
        if any(d in exp.replace(ds + TL, '').replace(ds + RM, '').replace(ds + '/', '') for d in ()):
            continue
        def oracle(r, exp=exp, src=src):
            if not r.get('ok'):
                return 'clean panicked: ' + str(r.get('panic'))[:160]
            got = strip_ws(r['output'])
            if got != exp:
                return f'non-whitespace text differs: expected {exp!r} got {got!r}'
            return None
        out.append((dict(cfg(), mode='clean', source=src, ds=ds, de=de), oracle))
    return out


def gen_dedent(seed, big):
    """C12: unwrap-block (not on the first line) dedents every inner line by (first inner indent - tag indent), exactly"""
    rnd = random.Random(seed + 6)
    out = []
    for _ in range(800 if big else 250):
        unit = rnd.choice(['  ', '    ', '\t'])
        t = rnd.randint(0, 2)
        f = max(0, t + rnd.randint(-2, 2))
        n = rnd.randint(1, 4)
        levels = [f] + [max(0, f + rnd.randint(-2, 2)) for _ in range(n - 1)]
        shift = max(0, f - t)
        extras = None
        texts = [rnd.choice(['x();', 'これ', 'y = 2; // é', '\u00a0nbsp();', '\u3000wide();', '\u00a0\u00a0two', 'cr();\r', '\x0bvt']) + str(i) + rnd.choice(['', '', '', '  ', '\t', ' \t ']) for i in range(n)]
        if rnd.random() < 0.3:
            # the same text on several lines of the body (also as the tail of a deeper line): every line is shifted by
            # where IT stands, not by where its text first occurs
            n = rnd.randint(2, 5)
            levels = [f] + [max(0, f + rnd.randint(-1, 2)) for _ in range(n - 1)]
            texts = [rnd.choice(['push(1);', '次();']) for _ in range(n)]
        final_nl = rnd.random() < 0.7
        tail = rnd.random() < 0.7
        src = 'q\n' + unit * t + f"<{RM} name='f1' unwrap-block>\n" + unit * t + 'if a {\n'
        exp = 'q\n'
        for lv, tx in zip(levels, texts):
            src += unit * lv + tx + '\n'
            exp += unit * (lv if lv <= t else max(t, lv - shift)) + tx + '\n'
        src += unit * t + '}\n' + unit * t + f"</{RM}>"
        if tail:
            src += '\nz' + ('\n' if final_nl else '')
            exp += 'z' + ('\n' if final_nl else '')
        elif final_nl:
            src += '\n'
        def oracle(r, exp=exp):
            if not r.get('ok'):
                return 'clean panicked: ' + str(r.get('panic'))[:160]
            if r['output'].rstrip('\n') != exp.rstrip('\n'):
                return f'dedent differs: expected {exp!r} got {r["output"]!r}'
            return None
        out.append((dict(cfg(), mode='clean', source=src, ds='<', de='>'), oracle))
    return out


def gen_dedent_nested(seed, big):
    """C12 at nesting depth 1..3: regular documents (every unwrap body is indented one unit deeper than its tag, wrapper
    lines at tag level), with default-strategy ready elements before the blocks and inside the bodies (so that an
    enclosing block is not the first marker of its level). Every surviving line must come out with its indentation
    reduced by one unit per enclosing unwrapped block and its text intact, in order."""
    rnd = random.Random(seed + 11)
    out = []
    for _ in range(500 if big else 160):
        unit = rnd.choice(['  ', '    ', '\t'])
        cnt = [0]
        def text(ind, k, src, exp):
            cnt[0] += 1
            tx = rnd.choice(['x();', 'これ', 'y = 2; // é', 'b("📌");']) + str(cnt[0])
            src.append(unit * ind + tx)
            exp.append(unit * (ind - k) + tx)
        def removed(ind, src):
            src.append(unit * ind + f"<{RM} name='f1'>")
            for _ in range(rnd.randint(0, 2)):
                cnt[0] += 1
                src.append(unit * (ind + rnd.randint(0, 1)) + f'old{cnt[0]}();')
            src.append(unit * ind + f"</{RM}>")
        def unwrap(ind, k, depth, src, exp):
            src.append(unit * ind + f"<{RM} name='f1' unwrap-block>")
            # the opening wrapper line may itself hold a ready default-strategy element (it goes with the wrapper line)
            src.append(unit * ind + 'if a {' + (f" <{RM} name='f1'> legacy(); </{RM}>" if rnd.random() < 0.3 else ''))
            first = rnd.choice(['text', 'text', 'text', 'removed', 'nested', 'empty'])
            if first == 'empty':
                # the first inner line is empty: its indentation is 0, the shift of THIS block is 0
                src.append('')
                k = k - 1
            elif first == 'removed':
                removed(ind + 1, src)
            elif first == 'nested' and depth < 3:
                unwrap(ind + 1, k + 1, depth + 1, src, exp)
            text(ind + 1, k + 1, src, exp)
            for _ in range(rnd.randint(0, 3)):
                c = rnd.random()
                if c < 0.35 and depth < 3:
                    unwrap(ind + 1, k + 1, depth + 1, src, exp)
                    if rnd.random() < 0.5:
                        # a line indented deeper than the nested block's tag, behind the nested block
                        text(ind + 1, k + 1, src, exp)
                        text(ind + 2, k + 1, src, exp)
                elif c < 0.6:
                    removed(ind + 1, src)
                text(ind + 1, k + 1, src, exp)
            # ... and so may the closing wrapper line
            src.append(unit * ind + '}' + (f" <{RM} name='f1'> legacy2(); </{RM}>" if rnd.random() < 0.3 else ''))
            src.append(unit * ind + f"</{RM}>")
        src, exp = ['q'], ['q']
        base = rnd.randint(0, 2)
        if rnd.random() < 0.6:
            removed(base, src)
            text(base, 0, src, exp)
        for _ in range(rnd.randint(1, 2)):
            unwrap(base, 0, 1, src, exp)
            text(base, 0, src, exp)
        source = '\n'.join(src) + ('\n' if rnd.random() < 0.7 else '')
        def oracle(r, exp=exp, source=source):
            if not r.get('ok'):
                return 'clean panicked: ' + str(r.get('panic'))[:160]
            got = [l for l in r['output'].split('\n') if l.strip(WS)]
            if got != exp:
                k = next((i for i, (a, b) in enumerate(zip(got, exp)) if a != b), min(len(got), len(exp)))
                return f'nested unwrap: surviving line {k} is {got[k] if k < len(got) else None!r}, expected {exp[k] if k < len(exp) else None!r} (source {source!r})'
            return None
        out.append((dict(cfg(), mode='clean', source=source, ds='<', de='>', _exp=exp), oracle))
    return out


def gen_nested_text_survives(seed, big):
    """C02 on the nested unwrap documents of gen_dedent_nested (removed elements and blank lines inside unwrapped bodies,
    depth 1..3): the text of every surviving line is still there, in order - indentation is not looked at here"""
    out = []
    for req, _ in gen_dedent_nested(seed + 200, big):
        want = [l.strip(WS) for l in req['_exp']]
        def oracle(r, want=want, src=req['source']):
            if not r.get('ok'):
                return 'clean panicked: ' + str(r.get('panic'))[:160]
            got = [l.strip(WS) for l in r['output'].split('\n') if l.strip(WS)]
            if got != want:
                return f'text outside the removed extents is missing or changed: lines {got}, expected {want} (source {src!r})'
            return None
        out.append(({k: v for k, v in req.items() if k != '_exp'}, oracle))
    return out


def gen_unwrap_lines_intact(seed, big):
    """C14 inside an unwrapped body: the documents of gen_dedent (inner lines indented below / at / above the first inner
    line), oracle = every surviving line, trimmed, appears verbatim and in order (only blanks are ever consumed)"""
    out = []
    for req, _ in gen_dedent(seed + 100, big):
        src = req['source']
        want = [l.strip(WS) for l in src.split('\n') if l.strip(WS) and 'unwrap-block' not in l and l.strip(WS) not in ('if a {', '}', f'</{RM}>')]
        def oracle(r, want=want, src=src):
            if not r.get('ok'):
                return 'clean panicked: ' + str(r.get('panic'))[:160]
            got = [l.strip(WS) for l in r['output'].split('\n') if l.strip(WS)]
            if got != want:
                return f'unwrapped body: trimmed surviving lines are {got}, expected {want} (source {src!r})'
            return None
        out.append((req, oracle))
    return out


def gen_unwrap_wrappers(seed, big):
    """C11: a ready unwrap-block removes exactly four lines - tag line, opening wrapper line, closing wrapper line, tag
    line - whatever the wrapper lines contain: multi-byte text, tabs, trailing blanks, no indentation at all. Every
    inner line and both neighbours survive (compared trimmed, in order)."""
    rnd = random.Random(seed + 13)
    out = []
    w1s = ['if (x) {', 'if (released) { // é', '{', '\tif a {', 'match x { // 日本語', 'begin -- ü  ', '\t', '\t\t', ' ', '']
    w2s = ['}', '} // 終了', '}  ', '\t}', '}; // é', 'end 📌', '\t', ' ', '']
    for _ in range(300 if big else 100):
        ind = rnd.choice(['', '  ', '\t', '    '])
        pre = rnd.choice(['before', 'é();', '  x'])
        post = rnd.choice(['after', 'ü = 1;', '  y', ''])
        body = [ind + '  ' + rnd.choice(['inner();', 'これ', 'a = "é";']) + str(i) for i in range(rnd.randint(1, 4))]
        w1, w2 = ind + rnd.choice(w1s), ind + rnd.choice(w2s)
        tag = rnd.choice([f"{RM} name='f1' unwrap-block", f"{TL} to='{PAST}' unwrap-block", f"{RM} name='f1' c=\"moved from C:\\legacy\\\" unwrap-block",
                          f"{TL} to='{PAST}' note='it''s' unwrap-block".replace("''", '"'), f"{RM} name='f1'\n  unwrap-block",
                          f"{RM} name='f1' unwrap-block=\"true\"", f"{TL} unwrap-block='' to='{PAST}'",
                          f"{TL} to = '{PAST}' unwrap-block", f"{RM} name ='f1' unwrap-block", f"{TL} unwrap-block to  =  '{PAST}'"])
        close = RM if tag.startswith(RM) else TL
        lines = [pre, ind + f'<{tag}>', w1] + body + [w2, ind + f'</{close}>'] + ([post] if post else [])
        src = '\n'.join(lines) + ('\n' if rnd.random() < 0.7 else '')
        want = [pre.strip(WS)] + [l.strip(WS) for l in body] + ([post.strip(WS)] if post else [])
        def oracle(r, want=want, src=src):
            if not r.get('ok'):
                return 'clean panicked: ' + str(r.get('panic'))[:160]
            got = [l.strip(WS) for l in r['output'].split('\n') if l.strip(WS)]
            if got != want:
                return f'unwrap-block: surviving lines (trimmed) are {got}, expected {want} (source {src!r})'
            return None
        out.append((dict(cfg(), mode='clean', source=src, ds='<', de='>'), oracle))
    return out


def gen_dedent_crlf(seed, big):
    """C12 on CRLF text, with empty and whitespace-only inner lines (also as the first inner line): CR is not
    indentation - the shift is (blanks of the first inner line - tag indent), every non-blank inner line moves by exactly
    that much (not left of the tag column), and every line break of the output is still CR LF."""
    rnd = random.Random(seed + 14)
    out = []
    for _ in range(400 if big else 120):
        unit = rnd.choice(['  ', '    ', '\t'])
        t = rnd.randint(0, 2)
        n = rnd.randint(2, 5)
        kinds = [rnd.choice(['text', 'text', 'empty', 'blank']) for _ in range(n)]
        if 'text' not in kinds:
            kinds[-1] = 'text'
        levels = [max(0, t + rnd.randint(-1, 2)) for _ in range(n)]
        first_blanks = 0 if kinds[0] == 'empty' else levels[0]
        shift = max(0, first_blanks - t)
        src = ['q', unit * t + f"<{RM} name='f1' unwrap-block>", unit * t + 'if a {']
        exp = ['q']
        for i, (k, lv) in enumerate(zip(kinds, levels)):
            if k == 'empty':
                src.append('')
            elif k == 'blank':
                src.append(unit * lv)
            else:
                tx = rnd.choice(['x();', 'これ', 'y = 2; // é']) + str(i)
                src.append(unit * lv + tx)
                exp.append(unit * (lv if lv <= t else max(t, lv - shift)) + tx)
        src += [unit * t + '}', unit * t + f"</{RM}>", 'z']
        exp.append('z')
        source = '\r\n'.join(src) + '\r\n'
        def oracle(r, exp=exp, source=source):
            if not r.get('ok'):
                return 'clean panicked: ' + str(r.get('panic'))[:160]
            o = r['output']
            got = [l.rstrip('\r') for l in o.split('\n') if l.strip(WS)]
            if got != exp:
                return f'CRLF unwrap-block: non-blank lines are {got}, expected {exp} (source {source!r})'
            if o.count('\r\n') != o.count('\n') or o.count('\r') != o.count('\n'):
                return f'CRLF unwrap-block: a line break of the output is no longer CR LF: {o!r} (source {source!r})'
            return None
        out.append((dict(cfg(), mode='clean', source=source, ds='<', de='>'), oracle))
    return out


def gen_unwrap_lines_intact_crlf(seed, big):
    """C14 inside an unwrapped body, CRLF text: the documents of gen_dedent_crlf (2-5 inner lines, empty and blank ones
    included), oracle = every surviving non-blank line, trimmed, appears verbatim and in order"""
    out = []
    for req, _ in gen_dedent_crlf(seed + 101, big):
        src = req['source']
        ls = src.split('\r\n')
        want = [l.strip(WS) for l in ls if l.strip(WS) and 'unwrap-block' not in l and l.strip(WS) not in ('if a {', '}', f'</{RM}>')]
        def oracle(r, want=want, src=src):
            if not r.get('ok'):
                return 'clean panicked: ' + str(r.get('panic'))[:160]
            got = [l.strip(WS) for l in r['output'].split('\n') if l.strip(WS)]
            if got != want:
                return f'unwrapped body (CRLF): trimmed surviving lines are {got}, expected {want} (source {src!r})'
            return None
        out.append((req, oracle))
    return out


def gen_unwrap_four_lines(seed, big):
    """C11, counted in lines: a ready unwrap-block between two non-blank neighbour lines loses exactly its four lines -
    every inner line, blank ones included (also as first or last inner line), is still there, in order (lines compared
    trimmed; the neighbours are non-blank so that no blank-line tidying outside the element interferes)."""
    rnd = random.Random(seed + 15)
    out = []
    for _ in range(300 if big else 100):
        ind = rnd.choice(['', '  ', '\t'])
        n = rnd.randint(1, 5)
        body = []
        for i in range(n):
            k = rnd.choice(['text', 'text', 'empty', 'blank'])
            body.append('' if k == 'empty' else (ind + '  ' if k == 'blank' else ind + '  ' + rnd.choice(['x();', 'これ', 'a = "é";']) + str(i)))
        w1, w2 = ind + rnd.choice(['if (x) {', '{', 'begin // é']), ind + rnd.choice(['}', '} // 終了', 'end'])
        tag = rnd.choice([f"{RM} name='f1' unwrap-block", f"{TL} to='{PAST}' unwrap-block"])
        close = RM if tag.startswith(RM) else TL
        lines = ['before();', ind + f'<{tag}>', w1] + body + [w2, ind + f'</{close}>', 'after();']
        src = '\n'.join(lines) + '\n'
        want = ['before();'] + [l.strip(WS) for l in body] + ['after();']
        def oracle(r, want=want, src=src):
            if not r.get('ok'):
                return 'clean panicked: ' + str(r.get('panic'))[:160]
            o = r['output']
            got = [l.strip(WS) for l in (o[:-1] if o.endswith('\n') else o).split('\n')]
            if got != want:
                return f'unwrap-block: the output has lines {got}, expected exactly the input minus four lines {want} (source {src!r})'
            return None
        out.append((dict(cfg(), mode='clean', source=src, ds='<', de='>'), oracle))
    return out


def gen_unwrap_crlf_text(seed, big):
    """C02/C03/C11 on CRLF text: a ready unwrap-block (documents of gen_dedent_crlf: 2-5 inner lines) loses its two tag
    lines and two wrapper lines and nothing else - every other non-blank line is still there, trimmed, in order"""
    out = []
    for req, _ in gen_dedent_crlf(seed + 300, big):
        src = req['source']
        want = [l.strip(WS) for l in src.split('\r\n') if l.strip(WS) and 'unwrap-block' not in l and l.strip(WS) not in ('if a {', '}', f'</{RM}>')]
        def oracle(r, want=want, src=src):
            if not r.get('ok'):
                return 'clean panicked: ' + str(r.get('panic'))[:160]
            got = [l.strip(WS) for l in r['output'].split('\n') if l.strip(WS)]
            if got != want:
                return f'CRLF unwrap-block: the non-blank lines of the output are {got}, expected the input minus tag and wrapper lines {want} (source {src!r})'
            return None
        out.append((req, oracle))
    return out


def gen_odd_whitespace_lines(seed, big):
    """C02/C13: only spaces, tabs and line breaks are white space. A line made of other blank-looking characters
    (U+3000, U+00A0, U+2003, form feed) next to a removed block is a surviving non-blank line: it stays, byte for byte."""
    out = []
    odd = ['\u3000', '\u00a0', '\u2003', '\x0c', '\u3000\u3000', ' \u3000', '\u00a0\t', '\u2028', '\u0085', '\ufeff', '\x0b', '\u200b', '\x00']
    for S in odd:
        for ind in ('', '  ', '\t'):
            blk = [ind + f"<{RM} name='f1'>", ind + '  removed', ind + f"</{RM}>"]
            docs = [(['foo', S] + blk + ['bar'], ['foo', S, 'bar']),
                    (['foo'] + blk + [S, 'bar'], ['foo', S, 'bar']),
                    (['foo', S] + blk + [S, 'bar'], ['foo', S, S, 'bar']),
                    (['foo', S, ''] + blk + ['bar'], ['foo', S, 'bar']),
                    ([f"<{RM} name='zz'>", S] + blk + [S, f"</{RM}>", 'bar'], [f"<{RM} name='zz'>", S, S, f"</{RM}>", 'bar'])]
            for lines, want in docs:
                src = '\n'.join(lines) + '\n'
                def oracle(r, want=want, src=src):
                    if not r.get('ok'):
                        return 'clean panicked: ' + str(r.get('panic'))[:160]
                    got = [l for l in r['output'].split('\n') if l.strip(' \t') != '']
                    if got != want:
                        return f'a line of non-space/tab blank characters is not white space and must survive intact: lines {got!r}, expected {want!r} (source {src!r})'
                    return None
                out.append((dict(cfg(), mode='clean', source=src, ds='<', de='>'), oracle))
    return out


def gen_identity_unexpired(seed, big):
    """C04 at the expiry boundary: the documents of gen_expiry whose element is NOT yet expired (one second before `to`,
    at offsets from -12:00 to +14:00 incl. negative half-hour ones) come back byte-identical"""
    res = []
    import datetime
    base = datetime.datetime(2024, 2, 29, 23, 59, 59)
    for (h, m) in [(-12, 0), (-9, 30), (-3, 30), (-0, 45), (0, 0), (5, 45), (14, 0)]:
        for neg in ((True,) if (h == 0 and m == 45) else (h < 0,)):
            sign = '-' if neg else '+'
            for colon in (True, False):
                o = f"{sign}{abs(h):02d}{':' if colon else ''}{m:02d}"
                secs = (abs(h) * 3600 + m * 60) * (-1 if neg else 1)
                to_utc = base - datetime.timedelta(seconds=secs)
                for d in (-1, -60, -3599):
                    cur = (to_utc + datetime.timedelta(seconds=d)).strftime('%Y-%m-%dT%H:%M:%S+00:00')
                    src = f"<div>\n  <{TL} to='{base.strftime('%Y-%m-%d %H:%M:%S')}'>\n    <p>sale</p>\n  </{TL}>\n\n\n  <p>keep</p>\n</div>\n"
                    res.append((dict(cfg(current=cur, offset=o), mode='clean', source=src, ds='<', de='>'),
                                (lambda s_, dd, oo: lambda r: None if r.get('ok') and r.get('output') == s_ else f'nothing is ready {-dd}s before `to` at offset {oo}, yet the output differs from the input: ' + json.dumps(r, ensure_ascii=False)[:160])(src, d, o)))
    return res


def gen_identity_decisions(seed, big):
    """C04 on the decision tables of C05 / C06: every document of gen_marker / gen_expiry whose element is NOT ready
    (first `name` valueless or unquoted or not a target, padded targets, skip, malformed `to` or offset, ...) comes back
    byte-identical"""
    out = []
    for req, orc in gen_marker(seed, big) + gen_expiry(seed, big):
        src = req['source']
        if orc({'ok': True, 'output': src}) is None and orc({'ok': True, 'output': 'A\nC\n'}) is not None:      # the generator's own oracle demands "unchanged": nothing is ready
            out.append((req, (lambda s_: lambda r: None if r.get('ok') and r.get('output') == s_ else 'nothing is ready, yet the output differs from the input: ' + json.dumps(r, ensure_ascii=False)[:200])(src)))
    return out


def gen_opaque_decisions(seed, big):
    """C09, second sentence: the text of a QUOTED value changes no removal decision and no removal strategy - keywords
    (skip, unwrap-block), look-alike attributes (to=..., name=...), the start delimiter, line breaks inside quotes"""
    out = []
    for ds, de in (('<', '>'), ('/* <', '> */'), ('<!--', '-->')):
        def doc(tag, attrs):
            return f"before\n{ds}{tag} {attrs}{de}\nif (x) {{\n  body();\n}}\n{ds}/{tag}{de}\nafter\n"
        gone = 'before\nafter\n'
        cases = [
            (TL, f"to='{PAST}' c=\"drop this, no unwrap-block here\"", True), (TL, f"c='unwrap-block' to='{PAST}'", True),
            (RM, "name='f1' c='unwrap-block'", True), (RM, "c=\"x unwrap-block y\" name='f1'", True),
            (TL, f"to='{PAST}' c='skip'", True), (RM, "name='f1' c=\" skip \"", True), (RM, "c='skip' name='f1'", True),
            (TL, f"c=\"to='{FUTURE}'\" to='{PAST}'", True), (TL, f"c='to=\"{PAST}\"' to='{FUTURE}'", False),
            (RM, "c=\"name='f1'\" name='zz'", False), (RM, "name='zz' c='f1'", False), (RM, "c=\"f1\" name='zz' d='f1'", False), (TL, f"c='{PAST}' to='{FUTURE}'", False), (RM, "c=\"name='zz'\" name='f1'", True),
            (TL, f"to='{PAST}' c='a\n * b unwrap-block\n * skip'", True), (RM, f"name='f1' c='{ds.strip() or ds}'", True),
            (TL, f"to='{PAST}'\nc='{ds.strip() or ds}'", True), (RM, f"name='f1'\n  c=\"{ds.strip() or ds} x\"", True), (RM, f"c='see\n{ds.strip() or ds} old'\n name='f1'", True),
            (TL, f"to='{PAST}' c='= \" ='", True), (RM, "name='f1' c=\"it's = 'skip'\"", True),
        ]
        for tag, attrs, ready in cases:
            if de.strip() in attrs or (de == '>' and '>' in attrs):
                continue
            src = doc(tag, attrs)
            exp = gone if ready else src
            out.append((dict(cfg(), mode='clean', source=src, ds=ds, de=de),
                        (lambda e, a: lambda r: None if r.get('ok') and r.get('output') == e else f'the text of a quoted value changed a removal decision or strategy (attributes [{a}]): ' + json.dumps(r, ensure_ascii=False)[:200])(exp, attrs)))
    return out


def gen_tag_whitespace(seed, big):
    """C02/C04/C06: inside a tag only spaces and line breaks separate words. A tab, CR, U+3000 or U+00A0 between the tag
    name and the first attribute is part of the NAME (an unregistered name: never ready); behind an unquoted value only a
    space ends the value, so a line break glues the next attribute to it. Nothing is ready: the output is the input."""
    out = []
    for ds, de in (('<', '>'), ('<!--', '-->'), ('/* <', '> */')):
        pad = '' if ds == '<' else ' '
        for sep in ('\t', '\u3000', '\u00a0', '\r', '\x0c'):
            docs = [f"before\n{ds}{pad}{TL}{sep}to='{PAST}'{pad}{de}\nkeep_me();\n{ds}{pad}/{TL}{pad}{de}\nafter\n",
                    f"before\n{ds}{pad}{RM}{sep}name='f1'{pad}{de}\nkeep_me();\n{ds}{pad}/{RM}{pad}{de}\nafter\n",
                    f"a {ds}{pad}{RM} c=\"x\"{sep}name='f1'{pad}{de}keep{ds}{pad}/{RM}{pad}{de} b\n"]
            for src in docs:
                out.append((dict(cfg(), mode='clean', source=src, ds=ds, de=de),
                            (lambda s_, q: lambda r: None if r.get('ok') and r.get('output') == s_ else f'{q!r} inside a tag is not a separator: the tag name / attribute is a different one and nothing is ready, yet the output differs from the input: ' + json.dumps(r, ensure_ascii=False)[:200])(src, sep)))
        for src in (f"before\n{ds}{pad}{TL} rev=12\nto='{PAST}'{pad}{de}\nkeep_me();\n{ds}{pad}/{TL}{pad}{de}\nafter\n",
                    f"before\n{ds}{pad}{RM} rev=12\nname='f1'{pad}{de}\nkeep_me();\n{ds}{pad}/{RM}{pad}{de}\nafter\n"):
            out.append((dict(cfg(), mode='clean', source=src, ds=ds, de=de),
                        (lambda s_: lambda r: None if r.get('ok') and r.get('output') == s_ else 'an unquoted value ends at a space only; the attribute behind the line break is part of it and nothing is ready, yet the output differs from the input: ' + json.dumps(r, ensure_ascii=False)[:200])(src)))
    return out


def gen_closer_attrs(seed, big):
    """C03/C10: a closing tag is recognised by its NAME (`/name`); words behind the name do not stop it from closing"""
    out = []
    cases = [(('<', '>'), f"foo<{TL} to='{PAST}'>bar</{TL} end>baz", 'foobaz'),
             (('<!--', '-->'), f"a\n<!-- {TL} to=\"{PAST}\" -->\n  <p>SECRET</p>\n<!-- /{TL} campaign-2019 -->\nb\n", 'a\nb\n'),
             (('/* <', '> */'), f"x /* <{RM} name=\"f1\"> */ legacy(); /* </{RM} name=\"f1\"> */ y\n", None),
             (('<', '>'), f"p\n<{RM} name='zz'>\n<{RM} name='f1'>\nold\n</{RM} x='1'>\nkeep\n</{RM} skip>\nq\n", f"p\n<{RM} name='zz'>\nkeep\n</{RM} skip>\nq\n"),
             # an opening tag that ends in a lone `/` word is an ordinary opening tag (there is no self-closing form)
             (('<', '>'), f"foo<{TL} to='{PAST}' />bar</{TL}>baz", 'foobaz'),
             (('<!--', '-->'), f"a\n<!-- {RM} name='f1' / -->\n  old\n<!-- /{RM} -->\nb\n", 'a\nb\n')]
    for (ds, de), src, exp in cases:
        def oracle(r, exp=exp, src=src):
            if not r.get('ok'):
                return 'clean panicked: ' + str(r.get('panic'))[:160]
            o = r['output']
            if exp is not None and o != exp:
                return f'a closing tag with words behind its name must still close its element: output {o!r}, expected {exp!r}'
            if exp is None and ('legacy' in o or RM in o):
                return f'a closing tag with words behind its name must still close its element: output {o!r}'
            return None
        out.append((dict(cfg(), mode='clean', source=src, ds=ds, de=de), oracle))
    return out


ENV_ODD = {'NO_COLOR': '1', 'CLICOLOR': '0', 'CLICOLOR_FORCE': '0', 'TERM': 'dumb', 'TZ': 'Pacific/Kiritimati', 'LANG': 'ja_JP.UTF-8', 'LC_ALL': 'C'}


def gen_env_independent_list(seed, big):
    """C15, purity clause: the listing does not depend on the process environment (NO_COLOR, CLICOLOR, TERM, TZ, LANG):
    the listing cases again, in a driver process started with such variables"""
    return [(dict(req, env=ENV_ODD), orc) for req, orc in gen_list_regions(seed, big)[:(80 if big else 30)]]


def gen_env_independent_expiry(seed, big):
    """C05: the expiry decision depends on the configured instant and offset only, not on TZ / LANG of the process"""
    return [(dict(req, env=ENV_ODD), orc) for req, orc in gen_expiry(seed, big)[:(60 if big else 24)]]


def gen_recognition_entry(seed, big):
    """C08 at the entry points: clean scans for the delimiters exactly as configured - leading / trailing blanks of a
    delimiter are part of it. Tags written without those blanks are not tags (output == input); tags written with them are."""
    out = []
    for ds, de in (('<!-- ', ' -->'), ('< ', ' >'), ('/* ', ' */'), ('\t<', '>\t')):
        tight = (ds.strip(), de.strip())
        src = f"a\n{tight[0]}{RM} name=\"f1\"{tight[1]}\nb\n{tight[0]}/{RM}{tight[1]}\nc\n"
        out.append((dict(cfg(), mode='clean', source=src, ds=ds, de=de),
                    (lambda s_, d: lambda r: None if r.get('ok') and r.get('output') == s_ else f'with delimiters {d!r} a tag written without the blanks of the delimiters is not a tag, yet the output differs from the input: ' + json.dumps(r, ensure_ascii=False)[:200])(src, (ds, de))))
        src2 = f"a\n{ds}{RM} name=\"f1\"{de}\nb\n{ds}/{RM}{de}\nc\n"
        out.append((dict(cfg(), mode='clean', source=src2, ds=ds, de=de),
                    (lambda d: lambda r: None if r.get('ok') and 'b' not in r.get('output', 'b') and RM not in r.get('output', RM) else f'with delimiters {d!r} a targeted element written with exactly these delimiters must be removed: ' + json.dumps(r, ensure_ascii=False)[:200])((ds, de))))
    return out


def gen_large_documents(seed, big):
    """C02/C03/C15 on large inputs (no bound on size, count or depth is part of any statement): documents of several
    hundred to a few thousand lines and more than 64 KiB, with dozens to hundreds of ready / pending blocks, long lines
    (> 300 characters), line numbers above 255 and 65535-byte offsets: surviving lines exact (clean), line ranges exact (list)"""
    rnd = random.Random(seed + 21)
    out = []
    for nblocks, filler in ((40, 3), (300, 2)) if not big else ((40, 3), (300, 2), (1200, 4)):
        lines, keep, regions = [], [], []
        for b in range(nblocks):
            for k in range(filler):
                t = f'line {b}.{k} ' + ('x' * rnd.choice([0, 5, 40, 320])) + ' é'
                lines.append(t); keep.append(t)
            kind = rnd.choice(['ready', 'ready', 'pending', 'unwrap'])
            if kind == 'ready':
                first = len(lines) + 1
                lines += [f"<{TL} to='{PAST}'>", f'  gone {b}', f"</{TL}>"]
                regions.append((first, len(lines)))
            elif kind == 'pending':
                blk = [f"<{RM} name='zz'>", f'  kept {b}', f"</{RM}>"]
                lines += blk; keep += blk
            else:
                first = len(lines) + 1
                lines += [f"<{RM} name='f1' unwrap-block>", 'if x {', f'  body {b}', '}', f"</{RM}>"]
                keep.append(f'body {b}')
                regions.append((first, first + 1)); regions.append((len(lines) - 1, len(lines)))
        lines.append('end'); keep.append('end')
        src = '\n'.join(lines) + '\n'
        def oracle(r, keep=keep, n=len(lines)):
            if not r.get('ok'):
                return 'clean panicked: ' + str(r.get('panic'))[:160]
            got = [l.strip(WS) for l in r['output'].split('\n') if l.strip(WS)]
            want = [l.strip(WS) for l in keep]
            if got != want:
                k = next((i for i, (a, b) in enumerate(zip(got, want)) if a != b), min(len(got), len(want)))
                return f'large document ({n} lines): surviving line {k} is {got[k][:60] if k < len(got) else None!r}, expected {want[k][:60] if k < len(want) else None!r}'
            return None
        out.append((dict(cfg(), mode='clean', source=src, ds='<', de='>'), oracle))
        def oracle_json(r, regions=regions, n=len(lines)):
            if not r.get('ok'):
                return 'list (JSON) panicked: ' + str(r.get('panic'))[:160]
            try:
                items = json.loads(r['output'])
            except Exception as ex:
                return 'list --list-json did not return valid JSON: ' + repr(ex)[:80]
            got = [tuple(it['line_range']) for it in items]
            if got != regions:
                k = next((i for i, (a, b) in enumerate(zip(got, regions)) if a != b), min(len(got), len(regions)))
                return f'large document ({n} lines): listed region {k} is {got[k] if k < len(got) else None}, expected {regions[k] if k < len(regions) else None} ({len(got)} listed, {len(regions)} expected)'
            return None
        out.append((dict(cfg(), mode='list_json', source=src, ds='<', de='>'), oracle_json))
    return out


def gen_large_clean(seed, big):
    """the clean half of gen_large_documents"""
    return [c for c in gen_large_documents(seed, big) if c[0]['mode'] == 'clean']


def gen_large_list(seed, big):
    """the list half of gen_large_documents"""
    return [c for c in gen_large_documents(seed, big) if c[0]['mode'] != 'clean']


def gen_doubled_delims(seed, big):
    """C03 (as the crate reads tags): a start delimiter written twice directly in front of a tag belongs to the tag -
    every leading copy is stripped before the name is read - so the element is a ready element and goes completely"""
    out = []
    cases = [(('<', '>'), f"a = b <<{TL} to='{PAST}'>OLD</{TL}> c;\n", 'a = b  c;\n'),
             (('<!--', '-->'), f"x\n<!--<!-- {TL} to=\"{PAST}\" -->\nOLD\n<!-- /{TL} -->\ny\n", 'x\ny\n'),
             (('/*', '*/'), f"p /* {RM} name='zz' */ q /* {RM} name='f1' */OLD/*/* /{RM}*/ r /* /{RM} */ s\n", f"p /* {RM} name='zz' */ q  r /* /{RM} */ s\n")]
    for (ds, de), src, exp in cases:
        out.append((dict(cfg(), mode='clean', source=src, ds=ds, de=de),
                    (lambda e: lambda r: None if r.get('ok') and r.get('output') == e else f'a tag behind a doubled start delimiter is still that tag: expected {e!r}, got ' + json.dumps(r, ensure_ascii=False)[:200])(exp)))
    return out


def gen_unwrap_comments(seed, big):
    """C11/C02 with delimiters that ordinary comments also use (`/* */`, `<!-- -->`): every comment in the body of a ready
    unwrap-block is a never-closed tag, i.e. plain text; two or more of them nest in the parser and the closing tag has
    to be handed up through all of them. Exactly the four lines go, the comments stay."""
    out = []
    for ds, de, c1, c2, c3 in (('/*', '*/', '/* first step */', '/* second step */', '/* third */'), ('<!--', '-->', '<!-- banner -->', '<!-- caption -->', '<!-- x -->')):
        for ncomments in (1, 2, 3):
            body = []
            for i, c in enumerate((c1, c2, c3)[:ncomments]):
                body += ['  ' + c, f'  step{i}();']
            for tag in (f"{TL} to=\"{PAST}\" unwrap-block", f"{RM} name=\"f1\" unwrap-block"):
                close = tag.split(' ')[0]
                lines = ['start();', f'{ds} {tag} {de}', 'if (released) {'] + body + ['}', f'{ds} /{close} {de}', 'end();']
                src = '\n'.join(lines) + '\n'
                want = ['start();'] + [l.strip(WS) for l in body] + ['end();']
                def oracle(r, want=want, src=src):
                    if not r.get('ok'):
                        return 'clean panicked: ' + str(r.get('panic'))[:160]
                    got = [l.strip(WS) for l in r['output'].split('\n') if l.strip(WS)]
                    if got != want:
                        return f'unwrap-block with ordinary comments in its body: lines {got}, expected {want} (source {src!r})'
                    return None
                out.append((dict(cfg(), mode='clean', source=src, ds=ds, de=de), oracle))
    return out


def gen_totality_extreme_dates(seed, big):
    """C01: no `to` value, however extreme, and no offset makes clean / list / list_all panic"""
    out = []
    tos = ['-262143-01-01 00:00:00', '+262142-12-31 23:59:59', '262142-12-31 23:59:59', '-0001-01-01 00:00:00', '0000-01-01 00:00:00', '10000-01-01 00:00:00',
           '1600-01-01 00:00:00', '2299-12-31 23:59:59', '9999-12-31 23:59:59', '0001-01-01 00:00:00', '2024-02-30 00:00:00', '2024-12-31 23:59:60',
           '2020-01-01\u300000:00:00', '2020-01-0\uff11 00:00:00', 'next Mont\u00e1g', '\u00e9\u00e9\u00e9\u00e9\u00e9\u00e9', '\uff12\uff10\uff12\uff10-01-01 00:00:00', '2020-01-01T00:00:00',
           '2020-01-01 00:00:0\u00e9', '\U0001f600', '2020-01-01 \U0001f55b', 'x' * 9 + '\u3042', 'x' * 10 + '\u3042', 'x' * 17 + '\u3042', 'x' * 18 + '\u3042']
    for to in tos:
        for o in ('+09:00', '-01:00', '+14:00', '-12:00', '+00:00'):
            src = f"A\n<{TL} to='{to}'>\nB\n</{TL}>\nC\n"
            for mode in ('clean', 'list', 'list_all_json'):
                out.append((dict(cfg(offset=o), mode=mode, source=src, ds='<', de='>'),
                            (lambda t, oo, m: lambda r: None if r.get('ok') else f'{m} panicked on to={t!r} offset {oo}: ' + str(r.get('panic'))[:160])(to, o, mode)))
    return out


def gen_case_sensitive(seed, big):
    """C02/C04/C06/C10: tag names are compared as they are written - `TIME-LIMITED` is not `time-limited`, `</Marker>`
    does not close `<marker>`: an upper-case opener is an unregistered tag, an upper-case closer is a stray closing tag
    (its opener stays unclosed, i.e. text). Nothing is ready in these documents: output == input."""
    out = []
    up = lambda t: t.upper()
    cap = lambda t: t[0].upper() + t[1:]
    for ds, de in (('<', '>'), ('<!--', '-->')):
        pad = '' if ds == '<' else ' '
        docs = []
        for f in (up, cap):
            docs += [f"keep0\n{ds}{pad}{TL} to='{PAST}'{pad}{de}\nkeep1\n{ds}{pad}/{f(TL)}{pad}{de}\nkeep2\n",
                     f"keep0\n{ds}{pad}{f(TL)} to='{PAST}'{pad}{de}\nkeep1\n{ds}{pad}/{TL}{pad}{de}\nkeep2\n",
                     f"keep0\n{ds}{pad}{f(TL)} to='{PAST}'{pad}{de}\nkeep1\n{ds}{pad}/{f(TL)}{pad}{de}\nkeep2\n",
                     f"a {ds}{pad}{RM} name='f1'{pad}{de}B{ds}{pad}/{f(RM)}{pad}{de} c\n"]
        for src in docs:
            out.append((dict(cfg(), mode='clean', source=src, ds=ds, de=de),
                        (lambda s_: lambda r: None if r.get('ok') and r.get('output') == s_ else 'tag names are case-sensitive: nothing is ready here, yet the output differs from the input: ' + json.dumps(r, ensure_ascii=False)[:200])(src)))
    return out


def gen_equal_tag_names(seed, big):
    """C04/C06 when BOTH kinds of element are configured under the same tag name (the statements are silent about this
    configuration; the expectation is how the crate resolves it: the removal-marker reading wins, i.e. `name` and the
    target set decide, `to` is just another attribute)"""
    out = []
    for ds, de in (('<', '>'), ('<!-- <', '> -->')):
        def doc(attrs):
            return f"a\n{ds}temp {attrs}{de}\nb\n{ds}/temp{de}\nc\n"
        for attrs, targets, ready in ((f"to=\"{PAST}\"", ['f1'], False), (f"to=\"{PAST}\"", [], False), ("name='f1'", ['f1'], True), (f"name='zz' to='{PAST}'", ['f1'], False),
                                      (f"name='f1' to='{FUTURE}'", ['f1'], True), (f"to='{PAST}' unwrap-block", ['f1'], False)):
            src = doc(attrs)
            exp = 'a\nc\n' if ready else src
            out.append((dict(cfg(tl_tag='temp', rm_tag='temp', targets=targets), mode='clean', source=src, ds=ds, de=de),
                        (lambda e, a, t: lambda r: None if r.get('ok') and r.get('output') == e else f'both tag names configured as `temp`, attributes [{a}], targets {t}: the removal-marker reading decides: ' + json.dumps(r, ensure_ascii=False)[:160])(exp, attrs, targets)))
    return out


def gen_unwrap_inline_mix(seed, big):
    """C02/C14: an indented unwrap-block (not on the first line) whose body mixes code lines, lines that hold only a
    removed inline element (indented deeper, with trailing blanks), lines that begin with a removed element and go on with
    code, whitespace-only lines and empty lines. The non-white-space text of the output is the text of the code pieces,
    in order - nothing outside the removed extents is lost."""
    rnd = random.Random(seed + 23)
    out = []
    R = lambda k: rnd.choice([f"<{RM} name='f1'> old{k}() </{RM}>", f"<{TL} to='{PAST}'>o{k}</{TL}>"])
    for case in range(600 if big else 200):
        ind = rnd.choice(['  ', '    ', '\t'])
        lines, keep = ['fn main() {'], ['fn main() {']
        lines += [ind + f"<{TL} to='{PAST}' unwrap-block>", ind + 'if (released) {']
        prev = None
        for k in range(rnd.randint(2, 6)):
            kind = rnd.choice(['code', 'code', 'only_removal', 'removal_then_code', 'code_then_removal', 'blank', 'empty'])
            if prev == 'only_removal' and rnd.random() < 0.6:
                kind = 'removal_then_code'
            if prev is None:
                kind = 'code'
            # body lines sit at two units; a line that holds only a removed element (or only blanks) is often deeper
            deep = ind * 2 + (ind * rnd.randint(0, 2) if kind in ('only_removal', 'blank') else '')
            trail = rnd.choice(['', '', '  ', '\t'])
            prev = kind
            if kind == 'code':
                t = f'code{k}();'; lines.append(deep + t + trail); keep.append(t)
            elif kind == 'only_removal':
                lines.append(deep + R(k) + trail)
            elif kind == 'removal_then_code':
                t = f'rest{k}();'; lines.append(deep + R(k) + ' ' + t + trail); keep.append(t)
            elif kind == 'code_then_removal':
                t = f'pre{k}();'; lines.append(deep + t + ' ' + R(k) + trail); keep.append(t)
            elif kind == 'blank':
                lines.append(deep)
            else:
                lines.append('')
        lines += [ind + '}', ind + f"</{TL}>", ind + 'after_block();', '}']
        keep += ['after_block();', '}']
        src = '\n'.join(lines) + '\n'
        want = strip_ws(''.join(keep))
        def oracle(r, want=want, src=src):
            if not r.get('ok'):
                return 'clean panicked: ' + str(r.get('panic'))[:160]
            got = strip_ws(r['output'])
            if got != want:
                return f'non-whitespace text differs: expected {want!r} got {got!r} (source {src!r})'
            return None
        out.append((dict(cfg(), mode='clean', source=src, ds='<', de='>'), oracle))
    return out


def gen_unwrap_backslash(seed, big):
    """C11 in texts with backslash line continuations (shell, C macros): a line is a physical line. The line behind the
    opening tag and the line in front of the closing tag go, every other inner line stays - also when lines end in `\\`."""
    out = []
    for ds, de in (('# <', '>'), ('<', '>')):
        tag = f'{TL} to="{PAST}" unwrap-block'
        docs = [(['echo start', f'{ds}{tag}{de}', 'if [ -n "$A" ] && \\', '   [ -n "$B" ]; then', '  echo released', 'fi', f'{ds}/{TL}{de}', 'echo end'],
                 ['echo start', '[ -n "$B" ]; then', 'echo released', 'echo end']),
                (['a', f'{ds}{tag}{de}', '{', '  one \\', '  two \\', '  three \\', '}', f'{ds}/{TL}{de}', 'z'], ['a', 'one \\', 'two \\', 'three \\', 'z']),
                (['a', f'{ds}{tag}{de}', 'first \\', 'second', f'{ds}/{TL}{de}', 'z'], ['a', 'z']),
                (['a \\', f'{ds}{tag}{de}', '{ \\', '  keep', '} \\', f'{ds}/{TL}{de}', 'z'], ['a \\', 'keep', 'z'])]
        for lines, want in docs:
            src = '\n'.join(lines) + '\n'
            def oracle(r, want=want, src=src):
                if not r.get('ok'):
                    return 'clean panicked: ' + str(r.get('panic'))[:160]
                got = [l.strip(WS) for l in r['output'].split('\n') if l.strip(WS)]
                if got != want:
                    return f'unwrap-block in a text with backslash continuations: lines {got}, expected {want} (source {src!r})'
                return None
            out.append((dict(cfg(), mode='clean', source=src, ds=ds, de=de), oracle))
    return out


def gen_blanklines(seed, big):
    """C13: block-style removal with b blank lines before and a after leaves a+b-[a>0 and b>0] blank lines; lines intact -
    whatever the neighbour lines contain (a statement, a lone closing or opening bracket, a comment, multi-byte text)"""
    out = []
    for ind in ('', '  ', '\t'):
        for b in range(0, 4):
            for a in range(0, 4):
                for blank in ('', '  ', '\t', ' \t'):
                    for X, Y in (('X é', 'Y'), ('foo()', '}'), ('if (a) {', ')'), ('[', '];'), ('// c', '} // 終'),
                                 # neighbour lines made only of multi-byte characters (2, 3 and 4 bytes each), with and without blanks
                                 ('🎉🎉', '𝕏'), ('𠮷 😀', '\U0010FFFF'), ('éé', 'ß'), ('日本', '語 '), ('😀\t', '🎉 🎉')):
                        if (X, Y) != ('X é', 'Y') and (blank in ('\t', ' \t') or b == 3 or a == 3):
                            continue
                        src = ind + X + '\n' + (blank + '\n') * b + ind + f"<{RM} name='f1'>\n" + ind + '  gone\n' + ind + f"</{RM}>\n" + (blank + '\n') * a + ind + Y + '\n'
                        want = a + b - (1 if a > 0 and b > 0 else 0)
                        def oracle(r, want=want, ind=ind, X=X, Y=Y):
                            if not r.get('ok'):
                                return 'clean panicked: ' + str(r.get('panic'))[:160]
                            lines = r['output'].split('\n')
                            nb = [l for l in lines if l.strip(WS)]
                            if nb != [ind + X, ind + Y]:
                                return f'surviving lines not intact: {nb}'
                            i0 = lines.index(ind + X); i1 = len(lines) - 1 - lines[::-1].index(ind + Y)
                            if i1 - i0 - 1 != want:
                                return f'{i1 - i0 - 1} blank lines remain between {X!r} and {Y!r}, expected {want}: {r["output"]!r}'
                            return None
                        out.append((dict(cfg(), mode='clean', source=src, ds='<', de='>'), oracle))
    return out


def gen_blanklines_dedented(seed, big):
    """C13, blank-line count when the neighbour lines are indented differently from the removed block's tags (the line
    behind the block is shallower or deeper than the tags): still a + b - 1 (both > 0), a, or b"""
    out = []
    for iX, iT, iY in (('  ', '  ', ''), ('\t', '\t\t', '\t'), ('', '    ', '  '), ('  ', '  ', '    '), ('    ', '  ', ''), ('', '  ', '')):
        for b in range(0, 4):
            for a in range(0, 3):
                for blank in ('', '  ', '\t'):
                    src = '<div>\n' + iX + '<p>keep</p> é\n' + (blank + '\n') * b + iT + f"<{RM} name='f1'>\n" + iT + '<p>old</p>\n' + iT + f"</{RM}>\n" + (blank + '\n') * a + iY + '</div>\n'
                    want = a + b - (1 if a > 0 and b > 0 else 0)
                    def oracle(r, want=want, iX=iX, iY=iY):
                        if not r.get('ok'):
                            return 'clean panicked: ' + str(r.get('panic'))[:160]
                        lines = r['output'].split('\n')
                        nb = [l for l in lines if l.strip(WS)]
                        if nb != ['<div>', iX + '<p>keep</p> é', iY + '</div>']:
                            return f'surviving lines not intact: {nb}'
                        i0 = lines.index(iX + '<p>keep</p> é'); i1 = len(lines) - 1 - lines[::-1].index(iY + '</div>')
                        if i1 - i0 - 1 != want:
                            return f'{i1 - i0 - 1} blank lines remain, expected {want} (neighbour indents {iX!r} / {iY!r}): {r["output"]!r}'
                        return None
                    out.append((dict(cfg(), mode='clean', source=src, ds='<', de='>'), oracle))
    return out


def gen_blanklines_wide(seed, big):
    """C13, second half, with indentation and whitespace-only lines wider than any fixed scan window (65, 70, 130, 300
    blanks; tabs too): with b blank lines before and a behind a removed block, a + b - 1 (both > 0) remain"""
    out = []
    for width, ch in ((65, ' '), (70, '\t'), (130, ' '), (300, ' '), (64, ' '), (63, ' ')):
        I = ch * width
        for a, b in ((1, 1), (2, 1), (1, 2), (0, 1), (1, 0)):
            for blank in ('', I):
                src = 'top\n' + I + 'keep\n' + (blank + '\n') * b + I + f"<{TL} to='{PAST}'>\n" + I + 'x\n' + I + f"</{TL}>\n" + (blank + '\n') * a + I + 'after\n'
                want = a + b - (1 if a > 0 and b > 0 else 0)
                def oracle(r, want=want, I=I, width=width):
                    if not r.get('ok'):
                        return 'clean panicked: ' + str(r.get('panic'))[:160]
                    lines = r['output'].split('\n')
                    nb = [l for l in lines if l.strip(WS)]
                    if nb != ['top', I + 'keep', I + 'after']:
                        return f'surviving lines not intact with indentation width {width}: {[l.strip(WS) for l in nb]}'
                    i0 = lines.index(I + 'keep'); i1 = lines.index(I + 'after')
                    if i1 - i0 - 1 != want:
                        return f'{i1 - i0 - 1} blank lines remain, expected {want} (indentation width {width})'
                    return None
                out.append((dict(cfg(), mode='clean', source=src, ds='<', de='>'), oracle))
    return out


def gen_lines_intact(seed, big):
    """C13 (first half): block-style removal leaves every surviving non-blank line byte-for-byte (indentation included),
    also when the file starts with empty lines (the indented tag is then on line 2 or later)"""
    out = []
    for k in (1, 2):
        for ind in ('  ', '\t', '    ', ' \t', '\t \t', '  \t\t'):
            for ind2 in ('', '  ', '\t', ' \t'):
                for a in (0, 1, 2):
                    for blank in ('', ' ', '\t'):
                        src = '\n' * k + ind + f"<{RM} name='f1'>\n" + ind + '  gone\n' + ind + f"</{RM}>\n" + (blank + '\n') * a + ind2 + 'keep(); é\n'
                        def oracle(r, ind2=ind2):
                            if not r.get('ok'):
                                return 'clean panicked: ' + str(r.get('panic'))[:160]
                            nb = [l for l in r['output'].split('\n') if l.strip(WS)]
                            if nb != [ind2 + 'keep(); é']:
                                return f'surviving line not intact: {nb} (output {r["output"]!r})'
                            return None
                        out.append((dict(cfg(), mode='clean', source=src, ds='<', de='>'), oracle))
    # the last surviving line ends in blanks and the file has no final line break: the line stays byte for byte
    for ind in ('', '  '):
        for last in ('last line  ', 'last line\t', '  x  \t '):
            for where in ('before', 'after'):
                blk = ind + f"<{TL} to='{PAST}'>\n" + ind + "expired\n" + ind + f"</{TL}>\n"
                src = ('first line\n' + blk + last) if where == 'before' else ('first line\n' + 'mid  \n' + blk + last)
                want = [l for l in src.replace(blk, '').split('\n') if l.strip(WS)]
                def oracle(r, want=want, src=src):
                    if not r.get('ok'):
                        return 'clean panicked: ' + str(r.get('panic'))[:160]
                    nb = [l for l in r['output'].split('\n') if l.strip(WS)]
                    if nb != want:
                        return f'surviving lines (trailing blanks included) are {nb!r}, expected {want!r} (source {src!r})'
                    return None
                out.append((dict(cfg(), mode='clean', source=src, ds='<', de='>'), oracle))
    # runs of 2-5 removed sibling blocks on directly adjacent lines (their tidy intervals chain up), indented or not,
    # at top level or inside a pending parent; the lines around the run survive byte for byte
    for n in (2, 3, 4, 5):
        for ind in ('', '  ', '\t', ' \t'):
            for parent in (None, f"{RM} name='zz'", 'region', f"{TL} to='{PAST}' skip"):
                for sep in ('', '\n'):
                    blocks = []
                    for i in range(n):
                        tag, close = ((f"{TL} to='{PAST}'", TL) if i % 2 == 0 else (f"{RM} name='f1'", RM))
                        blocks.append(ind + f"<{tag}>\n" + ind + f"gone{i}();\n" + ind + f"</{close}>\n")
                    head = (f"<{parent}>\n" if parent else '') + ind + 'before(); é\n'
                    tail = ind + 'after_the_blocks();\n' + 'tail();\n' + (f"</{parent.split(' ')[0]}>\n" if parent else '')
                    src = head + sep.join(blocks) + tail
                    want = [l for l in (head + tail).split('\n') if l.strip(WS)]
                    def oracle(r, want=want, src=src):
                        if not r.get('ok'):
                            return 'clean panicked: ' + str(r.get('panic'))[:160]
                        nb = [l for l in r['output'].split('\n') if l.strip(WS)]
                        if nb != want:
                            return f'run of adjacent removed blocks: surviving lines {nb}, expected {want} (source {src!r})'
                        return None
                    out.append((dict(cfg(), mode='clean', source=src, ds='<', de='>'), oracle))
    return out


def gen_list_regions(seed, big):
    """C15: the Ready items of `list` are the regions clean deletes: same count, first/last line, highlighted text == region text"""
    import re as _re
    rnd = random.Random(seed + 8)
    out = []
    for _ in range(200 if big else 60):
        lines, regions = [], []          # regions: (first_line, last_line, text)
        nblocks = rnd.randint(1, 3)
        final_nl = rnd.random() < 0.6
        for bi in range(nblocks):
            for _ in range(rnd.randint(0, 2)):
                lines.append(rnd.choice(['a();', '  b = 1; // é', '\tc', 'これ', '\x0bold_style();', '\x0c', 'x\x0b\x0b', '\x0b', "const sep = 'a\u2028b';", '\u0085', 'x\u2029y', '// \u0085 NEL \u2028 LS']))
            ind = rnd.choice(['', '  ', '\t'])
            kind = rnd.choice(['block', 'inline', 'inline_multi', 'pending', 'unwrap', 'unwrap_nested'])
            if kind == 'unwrap_nested':
                # ready elements inside the kept body of a ready unwrap-block: the items come in the order of the source -
                # opening part, the regions in the body, closing part
                first = len(lines) + 1
                lines += [ind + f"<{RM} name='f1' unwrap-block>", ind + 'if x {']
                regions.append((first, first + 1, f"<{RM} name='f1' unwrap-block>\n" + ind + 'if x {'))
                for _ in range(rnd.randint(1, 2)):
                    lines.append(ind + '  keep();')
                    if rnd.random() < 0.5:
                        bf = len(lines) + 1
                        blk = [ind + '  ' + f"<{TL} to='{PAST}'>", ind + '    temp();', ind + '  ' + f"</{TL}>"]
                        lines += blk
                        regions.append((bf, len(lines), '\n'.join(blk)[len(ind) + 2:]))
                    else:
                        el = f"<{RM} name='f1'>old()</{RM}>"
                        lines.append(ind + '  y = ' + el + ';')
                        regions.append((len(lines), len(lines), el))
                lines += [ind + '  keep2();', ind + '}', ind + f"</{RM}>"]
                regions.append((len(lines) - 1, len(lines), ind + '}\n' + ind + f"</{RM}>"))
            elif kind == 'unwrap':
                first = len(lines) + 1
                body = [rnd.choice([ind + '  keep1();', ind + '  é();', '', ind + '  ']) for _ in range(rnd.randint(0, 3))]
                lines += [ind + f"<{RM} name='f1' unwrap-block>", ind + 'if x {'] + body + [ind + '}', ind + f"</{RM}>"]
                regions.append((first, first + 1, f"<{RM} name='f1' unwrap-block>\n" + ind + 'if x {'))
                regions.append((len(lines) - 1, len(lines), ind + '}\n' + ind + f"</{RM}>"))
            elif kind == 'inline':
                pre, post = rnd.choice(['x = ', 'é ', '']), rnd.choice([';', ' // t', ''])
                body = rnd.choice(['1', 'old()', 'ü'])
                el = f"<{RM} name='f1'>{body}</{RM}>"
                if rnd.random() < 0.4:
                    # a second ready element directly behind the first one (no byte between them): still two regions
                    el2 = rnd.choice([f"<{TL} to='{PAST}'>b</{TL}>", f"<{RM} name='f1'>ü2</{RM}>"])
                    lines.append(ind + pre + el + el2 + post)
                    regions.append((len(lines), len(lines), el))
                    regions.append((len(lines), len(lines), el2))
                else:
                    lines.append(ind + pre + el + post)
                    regions.append((len(lines), len(lines), el))
            elif kind == 'inline_multi':
                # a ready element that starts and ends in the middle of a line and spans several lines
                pre, post = rnd.choice(['x = ', 'é ', 'let a = 1; ']), rnd.choice([';', ' let b = 2;', ' // tü'])
                first = len(lines) + 1
                mids = [ind + '  ' + rnd.choice(['older();', 'é = 2;', 'これ', 'older();   ', 'これ \t']) for _ in range(rnd.randint(0, 3))]
                o, c = f"<{RM} name='f1'>old();", f"last();</{RM}>"
                lines += [ind + pre + o] + mids + [ind + c + post]
                regions.append((first, len(lines), '\n'.join([o] + mids + [ind + c])))
            elif kind == 'block':
                first = len(lines) + 1
                # (lines of the region may end in blanks or be blank: those blanks belong to the region's text like any other byte)
                inner = [ind + '  ' + rnd.choice(['gone();', 'é = 2;', 'trail();  ', 'tab();\t', '  ', '']) for _ in range(rnd.randint(0, 2))]
                blk = [ind + f"<{TL} to='{PAST}'>"] + inner + [ind + f"</{TL}>"]
                lines += blk
                text = '\n'.join(blk)[len(ind):]
                regions.append((first, len(lines), text))
            else:
                lines += [ind + f"<{RM} name='zz'>", ind + '  kept', ind + f"</{RM}>"]
        if rnd.random() < 0.7:
            lines.append('tail')
        src = '\n'.join(lines) + ('\n' if final_nl else '')
        bom = rnd.random() < 0.15
        if bom:
            # a byte order mark is an ordinary (3-byte) character of line 1
            src = '\ufeff' + src
            pass
        crlf = rnd.random() < 0.3
        if crlf:
            src = src.replace('\n', '\r\n')      # CRLF text: line numbers and regions must be the same
        def oracle(r, regions=regions, src=src):
            if not r.get('ok'):
                return 'list panicked: ' + str(r.get('panic'))[:160]
            items = _re.split(r'\n-------- \[ \d+ \]  Ready  --------\n', r['output'])[1:]
            if len(items) != len(regions):
                return f'{len(items)} Ready items listed, {len(regions)} regions are deleted by clean'
            for it, (f, l, text) in zip(items, regions):
                hl = '\n'.join(_re.findall(r'\x1b\[31m(.*?)\x1b\[0m', it)).replace('\r', '')
                nums = [int(x) for x in _re.findall(r'^\s*(\d+) \|', it, flags=_re.M)]
                if hl != text.replace('\t', '    '):
                    return f'highlighted text {hl!r} differs from the region text {text!r}'
                if not nums or nums[0] != f or nums[-1] != l:
                    return f'line numbers {nums[:1]}..{nums[-1:]} differ from the region lines {f}..{l} (source {src!r})'
            return None
        out.append((dict(cfg(), mode='list', source=src, ds='<', de='>'), oracle))
        def oracle_json(r, regions=regions, src=src):
            if not r.get('ok'):
                return 'list (JSON) panicked: ' + str(r.get('panic'))[:160]
            try:
                items = json.loads(r['output'])
            except Exception as ex:
                return 'list --list-json did not return valid JSON: ' + repr(ex)[:80]
            got = [tuple(it['line_range']) for it in items if it.get('current_status') == 'Ready']
            want = [(f, l) for f, l, _ in regions]
            if got != want or len(items) != len(regions):
                return f'JSON line ranges {got} differ from the lines of the regions clean deletes {want} (source {src!r})'
            return None
        out.append((dict(cfg(), mode='list_json', source=src, ds='<', de='>'), oracle_json))
    return out


def gen_pairing(seed, big):
    """C10: tags pair by name with stack discipline. Reference: the plain stack machine of the property statement
    (closing tag closes the innermost open element of that name; elements opened after it are demoted to text and their
    children hoisted; stray closers and never-closed openers are text). All sequences up to length 5 (6 in the thorough
    tier) over {open a, open b, close a, close b, close of unknown name, text}, plus random longer ones."""
    import itertools
    rnd = random.Random(seed + 10)
    alphabet = ['<a>', '<b>', '</a>', '</b>', '</z>', 'T']
    def ref(pieces):
        # pieces: list of (start_offset, text)
        base, st = [], []          # st: list of [start, name, kids]
        def push(x):
            (st[-1][2] if st else base).extend(x)
        def demote():
            f = st.pop(); push([f[0]] + f[2])
        for off, tx in pieces:
            if not tx.startswith('<'):
                push([off]); continue
            name = tx[1:-1]
            if name.startswith('/'):
                pair = name.lstrip('/')
                d = max([i for i, f in enumerate(st) if f[1] == pair], default=-1)
                if d < 0:
                    push([off]); continue
                while len(st) - 1 > d:
                    demote()
                f = st.pop(); push([[f[0], off, f[2]]])
            else:
                st.append([off, name, []])
        while st:
            demote()
        return base
    seqs = []
    for n in range(1, (7 if big else 6)):
        for tup in itertools.product(alphabet, repeat=n):
            if any(tup[i] == 'T' and tup[i + 1] == 'T' for i in range(n - 1)):
                continue
            seqs.append(tup)
    if not big:
        rnd.shuffle(seqs); seqs = seqs[:2500]
    # names that are suffixes / prefixes of one another pair by whole-name equality only
    alphabet2 = ['<ab>', '<b>', '</ab>', '</b>', '<a>', '</a>', 'T']
    seqs2 = []
    for n in range(2, (6 if big else 5)):
        for tup in itertools.product(alphabet2, repeat=n):
            if any(tup[i] == 'T' and tup[i + 1] == 'T' for i in range(n - 1)):
                continue
            seqs2.append(tup)
    if not big:
        rnd.shuffle(seqs2); seqs2 = seqs2[:1200]
    seqs += seqs2
    long_alpha = alphabet + ['<a x="1">', '<c>', '</c>', '<//a>', '</a x>', '</b y="1">', '<A>', '</A>', '</B>', '<ab>', '</ab>', '<ba>', '</ba>', '<aa>', '</aa>',
                             # an opening tag may end in a lone `/` word (`<a />`): it is an ordinary opening tag named a; `<a/>` is an
                             # opening tag named `a/`; `</ a>` has the name `/` - a closing tag for the empty name, i.e. stray
                             '<a />', "<a x='1' />", '<b />', '<a/>', '</a/>', '</ a>', '</ b>', '</\na>']
    alphabet3 = ['<a />', '<a>', '</a>', '</ a>', '<a/>', '</a/>', 'T']
    for n in range(2, 5):
        for tup in itertools.product(alphabet3, repeat=n):
            if any(tup[i] == 'T' and tup[i + 1] == 'T' for i in range(n - 1)) or not any(c in ('<a />', '</ a>', '<a/>', '</a/>') for c in tup):
                continue
            seqs.append(tup)
    for _ in range(600 if big else 200):
        n = rnd.randint(6, 14)
        tup = []
        for _ in range(n):
            c = rnd.choice(long_alpha)
            if c == 'T' and tup and tup[-1] == 'T':
                continue
            tup.append(c)
        seqs.append(tuple(tup))
    # long documents: many never-closed openers / stray closers in front of a well-formed element, deep nesting,
    # deep nesting closed from the outside (no bound on the number of open tags)
    for n in (40, 70, 130) if not big else (40, 63, 64, 65, 70, 130, 300):
        seqs.append(tuple(['<b>'] * n + ['<a>', 'T', '</a>']))
        seqs.append(tuple(['</z>'] * n + ['<a>', 'T', '</a>', 'T']))
        seqs.append(tuple(['<a>'] * n + ['T'] + ['</a>'] * n))
        seqs.append(tuple(['<c>'] + ['<b>'] * n + ['T', '</c>', '<a>', 'T', '</a>']))
        seqs.append(tuple((['<a>', '<b>'] * n)[:n] + ['T'] + ['</b>', '</a>'] * (n // 4)))
    out = []
    for tup in seqs:
        pieces, off = [], 0
        for k, c in enumerate(tup):
            tx = f't{k} ' if c == 'T' else c
            pieces.append((off, tx)); off += len(tx)
        src = ''.join(tx for _, tx in pieces)
        want = ref([(o, (tx.replace('\n', ' ').split(' ')[0] + '>') if tx.startswith('<') and (' ' in tx or '\n' in tx) else tx) for o, tx in pieces])
        def oracle(r, want=want, src=src):
            if not r.get('ok'):
                return 'parse panicked: ' + str(r.get('panic'))[:160]
            if r['output'] != want:
                return f'parse tree of {src!r} is {r["output"]}, the stack rule gives {want}'
            return None
        out.append((dict(mode='parse', source=src, ds='<', de='>'), oracle))
    return out


def gen_totality_everywhere(seed, big):
    """C01: every input any other generator produces, in clean / list / list_all (pretty and JSON) mode: the call must
    return normally (the oracles of the other properties look at the value; this one only at `ok`)"""
    out = []
    seen = set()
    for prop, gens in GENERATORS.items():
        if prop == 'C01':
            continue
        for g in gens:
            for i, (req, _) in enumerate(g(seed, big)):
                if req.get('mode') not in ('clean', 'list', 'list_json', 'list_all', 'list_all_json') or (not big and i % 4):
                    continue
                key = (req['source'], req.get('ds'), req.get('de'))
                if key in seen:
                    continue
                seen.add(key)
                for mode in ('clean', 'list_json', 'list_all'):
                    r2 = {k: v for k, v in req.items() if not k.startswith('_')}
                    r2['mode'] = mode
                    out.append((r2, (lambda m: lambda r: None if r.get('ok') else f'{m} panicked: ' + str(r.get('panic'))[:200])(mode)))
    return out


# ---- the same documents under other spellings (delimiters, tag names) -------------------------------------------------
# Every generator above that writes its documents with '<' '>' and the default tag names is ALSO run with the documents
# and the configuration rewritten consistently to other delimiter pairs / tag names; the real crate's answer is mapped
# back before the generator's own oracle looks at it. (This is the C18 idea used as a source of inputs only.)
RESPELL = [('【', '】', '期限', 'マーカー'), ('<!-- <', '> -->', 'tl', 'rm-x'), ('<<', '>>', 'time-limited', 'removal-marker'), ('[% ', ' %]', 'expire', 'flag')]


def respell(req, k):
    """-> (new request, map_back) or None when the document cannot be rewritten unambiguously"""
    if req.get('ds') != '<' or req.get('de') != '>' or req.get('mode') not in ('clean', 'list', 'list_json', 'list_all', 'list_all_json'):
        return None
    if req.get('tl_tag') != TL or req.get('rm_tag') != RM:
        return None
    ds, de, tl, rm = RESPELL[k % len(RESPELL)]
    src = req['source']
    if any(ch in src for ch in set(ds + de) - set('<> /')) or tl in src.replace(TL, '') or rm in src.replace(RM, ''):
        return None
    # tag names only directly behind a delimiter (optionally '/'), delimiters only as delimiters
    import re as _re
    if _re.search(r'(?<![</])(?:' + _re.escape(TL) + '|' + _re.escape(RM) + ')', src):
        return None
    if '\ue000' in src:
        return None
    new = src.replace('</' + TL, '\ue000c' + 'T').replace('</' + RM, '\ue000c' + 'R').replace('<' + TL, '\ue000o' + 'T').replace('<' + RM, '\ue000o' + 'R')
    new = new.replace('<', '\ue000<').replace('>', '\ue000>')
    new = (new.replace('\ue000cT', ds + '/' + tl).replace('\ue000cR', ds + '/' + rm).replace('\ue000oT', ds + tl).replace('\ue000oR', ds + rm)
              .replace('\ue000<', ds).replace('\ue000>', de))
    nreq = dict(req, source=new, ds=ds, de=de, tl_tag=tl, rm_tag=rm)
    def back(text):
        t = text.replace(ds + '/' + tl, '</' + TL).replace(ds + '/' + rm, '</' + RM).replace(ds + tl, '<' + TL).replace(ds + rm, '<' + RM)
        return t.replace(ds, '<').replace(de, '>') if ds != de else _back_same(t, ds)
    return nreq, back


def _back_same(t, d):
    # identical start and end delimiter: occurrences alternate open / close
    parts = t.split(d)
    out = parts[0]
    for i, x in enumerate(parts[1:]):
        out += ('<' if i % 2 == 0 else '>') + x
    return out


GENERATORS = {
    'C01': [gen_totality], 'C04': [gen_identity, gen_identity_unwrappable, gen_identity_unrecognised, gen_identity_unexpired, gen_identity_decisions, gen_tag_whitespace, gen_case_sensitive, gen_equal_tag_names], 'C07': [gen_partition], 'C08': [gen_recognition, gen_recognition_entry], 'C05': [gen_expiry, gen_env_independent_expiry], 'C06': [gen_marker, gen_tag_whitespace, gen_case_sensitive, gen_equal_tag_names],
    'C09': [gen_grammar, gen_opaque_decisions], 'C10': [gen_pairing], 'C02': [gen_blocks, gen_inline, gen_nested_text_survives, gen_unwrap_crlf_text, gen_odd_whitespace_lines, gen_tag_whitespace, gen_large_clean, gen_case_sensitive, gen_unwrap_inline_mix], 'C03': [gen_blocks, gen_inline, gen_nested_text_survives, gen_unwrap_crlf_text, gen_closer_attrs, gen_large_clean, gen_doubled_delims], 'C11': [gen_blocks, gen_unwrap_wrappers, gen_unwrap_four_lines, gen_identity_unwrappable, gen_unwrap_crlf_text, gen_unwrap_comments, gen_unwrap_backslash], 'C17': [gen_list_all],
    'C12': [gen_dedent, gen_dedent_nested, gen_dedent_crlf], 'C13': [gen_blanklines, gen_blanklines_dedented, gen_blanklines_wide, gen_lines_intact, gen_odd_whitespace_lines], 'C14': [gen_inline, gen_dedent_nested, gen_unwrap_lines_intact, gen_unwrap_lines_intact_crlf, gen_unwrap_inline_mix], 'C15': [gen_list_regions, gen_env_independent_list, gen_large_list],
}

GENERATORS['C01'] = GENERATORS['C01'] + [gen_totality_everywhere, gen_totality_extreme_dates]


def run(prop, drive, seed=0, big=False):
    """-> (number of inputs, list of violations {input, observed, why})"""
    hits, n = [], 0
    for g in GENERATORS.get(prop, []):
        cases = g(seed, big)
        n += len(cases)
        reqs = [c[0] for c in cases]
        # every other request keeps a second handle on the source (Rc) alive across the call: `share`
        outs = drive([dict({k: v for k, v in r.items() if not k.startswith('_')}, share=(j % 2 == 1)) for j, r in enumerate(reqs)])
        extra = {}
        pairs = [i for i, c in enumerate(cases) if isinstance(c[1], tuple)]
        if pairs:
            outs2 = drive([dict({k: v for k, v in reqs[i].items() if not k.startswith('_')}, mode=reqs[i]['_pair']) for i in pairs])
            extra = dict(zip(pairs, outs2))
        # respelled variants (every case in the thorough tier, every third one otherwise)
        extra_cases = []
        for i, (req, oracle) in enumerate(cases):
            if isinstance(oracle, tuple) or not (big or i % 3 == 0):
                continue
            rs = respell(req, i + seed)
            if rs:
                extra_cases.append((rs[0], oracle, rs[1], req))
        if extra_cases:
            outs_x = drive([{k: v for k, v in c[0].items() if not k.startswith('_')} for c in extra_cases])
            n += len(extra_cases)
            for (nreq, oracle, back, oreq), resp in zip(extra_cases, outs_x):
                if resp.get('skipped'):
                    continue
                mapped = dict(resp)
                if isinstance(resp.get('output'), str):
                    mapped['output'] = back(resp['output'])
                why = oracle(mapped)
                if why:
                    hits.append({'input': {k: v for k, v in nreq.items() if not k.startswith('_')}, 'observed': resp,
                                 'why': why + f' [document respelled with delimiters {nreq["ds"]!r} {nreq["de"]!r} and tag names {nreq["tl_tag"]!r} {nreq["rm_tag"]!r}; the oracle saw the answer mapped back]'})
                    if len(hits) >= 5:
                        return n, hits
        for i, ((req, oracle), resp) in enumerate(zip(cases, outs)):
            if resp.get('skipped') or (isinstance(oracle, tuple) and extra[i].get('skipped')):
                continue
            if isinstance(oracle, tuple):
                why = None
                if not resp.get('ok') or not extra[i].get('ok'):
                    why = 'list_all/list panicked'
                else:
                    allit = json.loads(resp['output'])
                    plain = json.loads(extra[i]['output'])
                    starts = [it['line_range'][0] for it in allit]
                    if starts != sorted(starts):
                        why = f'list_all items out of source order: {starts}'
                    ready = [it for it in allit if it['current_status'] == 'Ready']
                    if [it['line_range'] for it in ready] != [it['line_range'] for it in plain]:
                        why = 'Ready items of list_all differ from the plain list'
                    for a in allit:
                        if a['current_status'] == 'Pending':
                            for b in ready:
                                if b['line_range'][0] <= a['line_range'][0] and a['line_range'][1] <= b['line_range'][1] and a is not b:
                                    why = f'pending item {a["line_range"]} lies inside ready item {b["line_range"]}'
                    if any(it['annotated_code_block'] == '' for it in allit):
                        why = 'empty item listed'
                    if len(oracle) > 2 and oracle[2] is not None:
                        np_ = sum(1 for it in allit if it['current_status'] == 'Pending')
                        if (np_, len(ready)) != oracle[2]:
                            why = f'expected {oracle[2][0]} pending and {oracle[2][1]} ready items, listed {np_} and {len(ready)}'
            else:
                why = oracle(resp)
            if why:
                hits.append({'input': {k: v for k, v in req.items() if not k.startswith('_')}, 'observed': resp, 'why': why})
                if len(hits) >= 5:
                    return n, hits
    return n, hits
