//@unit tokenizer
// L9: tokenizer.rs (get_state automaton, check_delimiter_start, tokenize)

pub mod tokenizer {
use super::*;
use std::str::Chars;
//@item file=tokenizer.rs kind=enum name=TokenKind derive=PartialEq
//@item file=tokenizer.rs kind=struct name=ElementToken derive=PartialEq
//@item file=tokenizer.rs kind=struct name=Token
//@item file=tokenizer.rs kind=enum name=State

/// ghost view of the automaton state: a partial delimiter match is the sequence of characters still expected
pub enum GState { Text, DelimiterStart(Seq<char>), InDelimiter, DelimiterEnd(Seq<char>) }

#[verifier::prophetic]
pub open spec fn sv(s: State) -> GState {
    match s {
        State::Text => GState::Text,
        State::DelimiterStart(cs) => GState::DelimiterStart(it_rem(cs)),
        State::InDelimiter => GState::InDelimiter,
        State::DelimiterEnd(cs) => GState::DelimiterEnd(it_rem(cs)),
    }
}
#[verifier::prophetic]
pub open spec fn state_ok(s: State) -> bool {
    match s {
        State::DelimiterStart(cs) => it_ok(cs),
        State::DelimiterEnd(cs) => it_ok(cs),
        _ => true,
    }
}
pub open spec fn check_start_spec(c: char, ds: Seq<char>) -> GState {
    if c == ds[0] { GState::DelimiterStart(ds.skip(1)) } else { GState::Text }
}
/// the transition function: (Some(is_element) when a token boundary is emitted BEFORE c, next state)
pub open spec fn get_state_spec(c: char, ds: Seq<char>, de: Seq<char>, g: GState) -> (Option<bool>, GState) {
    match g {
        GState::Text => match check_start_spec(c, ds) {
            GState::DelimiterStart(r) => (Some(false), GState::DelimiterStart(r)),
            _ => (None, GState::Text),
        },
        GState::DelimiterStart(r) => if r.len() > 0 {
            if c == r[0] { (None, GState::DelimiterStart(r.skip(1))) } else { (None, GState::Text) }
        } else { (None, GState::InDelimiter) },
        GState::InDelimiter => if c == de[0] { (None, GState::DelimiterEnd(de.skip(1))) } else { (None, GState::InDelimiter) },
        GState::DelimiterEnd(r) => if r.len() > 0 {
            if c == r[0] { (None, GState::DelimiterEnd(r.skip(1))) } else { (None, GState::InDelimiter) }
        } else { (Some(true), check_start_spec(c, ds)) },
    }
}
pub open spec fn kind_view(k: Option<TokenKind>, ds: &str, de: &str) -> Option<bool> {
    match k {
        Some(TokenKind::Text) => Some(false),
        Some(TokenKind::Element(e)) => if e.delimiter_start == ds && e.delimiter_end == de { Some(true) } else { None },
        None => None,
    }
}

//@fn id=check_delimiter_start file=tokenizer.rs name=check_delimiter_start props=C01,C07,C08
//@ret r
//@requires
    delimiter_start@.len() > 0,
//@ensures label=check_start_exact props=C07,C08
    sv(r) == check_start_spec(*c, delimiter_start@), state_ok(r),
//@at before "if *c == delimiter_start_chars.next().unwrap()"
    let ghost __r0 = it_rem(delimiter_start_chars);
//@end

//@fn id=get_state file=tokenizer.rs name=get_state props=C01,C07,C08
//@ret r
//@requires
    delimiter_start@.len() > 0,
    delimiter_end@.len() > 0,
    state_ok(state),
//@ensures label=get_state_exact props=C07,C08
    (kind_view(r.0, delimiter_start, delimiter_end), sv(r.1)) == get_state_spec(*c, delimiter_start@, delimiter_end@, sv(state)),
    state_ok(r.1),
    r.0 matches Some(TokenKind::Element(e)) ==> e.delimiter_start == delimiter_start && e.delimiter_end == delimiter_end,
//@end

} // mod tokenizer
