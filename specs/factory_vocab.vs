// ---- vocabulary of the strategy factory (inside `mod factory`) ----
/// index of the first strategy whose availability test accepts the element
pub open spec fn first_available(s: Seq<(Box<dyn MarkerAvailability>, Box<dyn MarkerBuilder>)>, el: Element, i: int) -> bool {
    &&& 0 <= i < s.len() && s[i].0.spec_available(el)
    &&& forall|k: int| 0 <= k < i ==> !(#[trigger] s[k]).0.spec_available(el)
}
pub open spec fn create_spec(s: Seq<(Box<dyn MarkerAvailability>, Box<dyn MarkerBuilder>)>, el: Element) -> Option<RemovableRange> {
    if exists|i: int| first_available(s, el, i) {
        Some(s[choose|i: int| first_available(s, el, i)].1.spec_build(el))
    } else { None }
}
pub proof fn lemma_first_available_unique(s: Seq<(Box<dyn MarkerAvailability>, Box<dyn MarkerBuilder>)>, el: Element, i: int, j: int)
    requires first_available(s, el, i), first_available(s, el, j),
    ensures i == j,
{
    if i < j { assert(!s[i].0.spec_available(el)); } else if j < i { assert(!s[j].0.spec_available(el)); }
}

