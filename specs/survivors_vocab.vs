// ---- C02 at the level of its statement: what survives a deletion of ranges, and which non-whitespace bytes survive ----
/// the bytes of b[lo..hi) not covered by any of the ranges, in order
pub open spec fn kept(b: Seq<u8>, m: Seq<Range<usize>>, lo: int, hi: int) -> Seq<u8>
    decreases hi - lo,
{
    if hi <= lo { Seq::empty() } else { kept(b, m, lo, hi - 1) + (if covered(m, hi - 1) { Seq::<u8>::empty() } else { seq![b[hi - 1]] }) }
}
/// the non-whitespace bytes of x[lo..hi), in order
pub open spec fn nw(x: Seq<u8>, lo: int, hi: int) -> Seq<u8>
    decreases hi - lo,
{
    if hi <= lo { Seq::empty() } else { nw(x, lo, hi - 1) + (if is_ws(x[hi - 1]) { Seq::<u8>::empty() } else { seq![x[hi - 1]] }) }
}
/// the non-whitespace bytes of b[lo..hi) that lie outside every range, in order
pub open spec fn nw_outside(b: Seq<u8>, m: Seq<Range<usize>>, lo: int, hi: int) -> Seq<u8>
    decreases hi - lo,
{
    if hi <= lo { Seq::empty() } else { nw_outside(b, m, lo, hi - 1) + (if covered(m, hi - 1) || is_ws(b[hi - 1]) { Seq::<u8>::empty() } else { seq![b[hi - 1]] }) }
}
pub proof fn lemma_kept_split(b: Seq<u8>, m: Seq<Range<usize>>, lo: int, mid: int, hi: int)
    requires lo <= mid <= hi,
    ensures kept(b, m, lo, hi) == kept(b, m, lo, mid) + kept(b, m, mid, hi),
    decreases hi - mid,
{
    if hi == mid { assert(kept(b, m, lo, mid) + kept(b, m, mid, hi) =~= kept(b, m, lo, mid)); }
    else {
        lemma_kept_split(b, m, lo, mid, hi - 1);
        assert(kept(b, m, lo, hi) =~= kept(b, m, lo, mid) + kept(b, m, mid, hi));
    }
}
pub proof fn lemma_kept_uncovered(b: Seq<u8>, m: Seq<Range<usize>>, lo: int, hi: int)
    requires 0 <= lo <= hi <= b.len(), forall|p: int| lo <= p < hi ==> !covered(m, p),
    ensures kept(b, m, lo, hi) == b.subrange(lo, hi),
    decreases hi - lo,
{
    if hi > lo {
        lemma_kept_uncovered(b, m, lo, hi - 1);
        assert(!covered(m, hi - 1));
        assert(kept(b, m, lo, hi) =~= b.subrange(lo, hi));
    } else {
        assert(kept(b, m, lo, hi) =~= b.subrange(lo, hi));
    }
}
pub proof fn lemma_kept_covered(b: Seq<u8>, m: Seq<Range<usize>>, lo: int, hi: int)
    requires lo <= hi, forall|p: int| lo <= p < hi ==> covered(m, p),
    ensures kept(b, m, lo, hi) == Seq::<u8>::empty(),
    decreases hi - lo,
{
    if hi > lo {
        lemma_kept_covered(b, m, lo, hi - 1);
        assert(covered(m, hi - 1));
        assert(kept(b, m, lo, hi) =~= Seq::<u8>::empty());
    }
}
pub open spec fn start_or_len(b: Seq<u8>, m: Seq<Range<usize>>, k: int) -> int { if 0 <= k < m.len() { m[k].start as int } else { b.len() as int } }
/// del_from is "keep the uncovered bytes": the prefix before range k is untouched, the rest is filtered
pub proof fn lemma_del_is_kept(b: Seq<u8>, m: Seq<Range<usize>>, k: int)
    requires wf_ranges(m, b), 0 <= k <= m.len(),
    ensures del_from(b, m, k) == b.subrange(0, start_or_len(b, m, k)) + kept(b, m, start_or_len(b, m, k), b.len() as int),
    decreases m.len() - k,
{
    let len = b.len() as int;
    if k == m.len() {
        assert(kept(b, m, len, len) =~= Seq::<u8>::empty());
        assert(b.subrange(0, len) + Seq::<u8>::empty() =~= b);
    } else {
        lemma_del_is_kept(b, m, k + 1);
        let rest = del_from(b, m, k + 1);
        let x1 = start_or_len(b, m, k + 1);
        let s = m[k].start as int;
        let e = m[k].end as int;
        assert(e <= x1) by { if k + 1 < m.len() { assert(m[k].end <= m[k + 1].start); } }
        assert(s <= e);
        // [s, e) is covered by range k; [e, x1) is covered by nothing
        assert forall|p: int| s <= p < e implies covered(m, p) by { assert(m[k].start <= p < m[k].end); }
        assert forall|p: int| e <= p < x1 implies !covered(m, p) by {
            if covered(m, p) {
                let i = choose|i: int| 0 <= i < m.len() && (#[trigger] m[i]).start <= p < m[i].end;
                if i < k { assert(m[i].end <= m[k].start); }
                else if i > k { if i > k + 1 { assert(m[k + 1].end <= m[i].start); } assert(m[i].start >= x1); }
            }
        }
        lemma_kept_covered(b, m, s, e);
        lemma_kept_uncovered(b, m, e, x1);
        lemma_kept_split(b, m, s, e, len);
        lemma_kept_split(b, m, e, x1, len);
        let tail = kept(b, m, x1, len);
        assert(rest == b.subrange(0, x1) + tail);
        assert(rest.subrange(0, s) =~= b.subrange(0, s));
        assert(rest.subrange(e, rest.len() as int) =~= b.subrange(e, x1) + tail);
        assert(del_from(b, m, k) == rest.subrange(0, s) + rest.subrange(e, rest.len() as int));
        assert(kept(b, m, s, len) =~= b.subrange(e, x1) + tail) by {
            assert(Seq::<u8>::empty() + (b.subrange(e, x1) + tail) =~= b.subrange(e, x1) + tail);
        }
        assert(del_from(b, m, k) =~= b.subrange(0, s) + kept(b, m, s, len));
    }
}
pub proof fn lemma_nw_add(a: Seq<u8>, c: Seq<u8>)
    ensures nw(a + c, 0, (a + c).len() as int) == nw(a, 0, a.len() as int) + nw(c, 0, c.len() as int),
    decreases c.len(),
{
    let x = a + c;
    if c.len() == 0 {
        assert(x =~= a);
        assert(nw(a, 0, a.len() as int) + nw(c, 0, 0) =~= nw(a, 0, a.len() as int));
    } else {
        let c0 = c.drop_last();
        lemma_nw_add(a, c0);
        assert((a + c0) =~= x.drop_last());
        lemma_nw_prefix(x, x.len() - 1);
        lemma_nw_prefix(c, c.len() - 1);
        assert(x[x.len() - 1] == c[c.len() - 1]);
        assert(nw(x, 0, x.len() as int) =~= nw(a, 0, a.len() as int) + nw(c, 0, c.len() as int));
    }
}
/// nw over a prefix only looks at the prefix
pub proof fn lemma_nw_prefix(x: Seq<u8>, n: int)
    requires 0 <= n <= x.len(),
    ensures nw(x, 0, n) == nw(x.subrange(0, n), 0, n),
    decreases n,
{
    if n > 0 {
        lemma_nw_prefix(x, n - 1);
        lemma_nw_prefix(x.subrange(0, n), n - 1);
        assert(x.subrange(0, n).subrange(0, n - 1) =~= x.subrange(0, n - 1));
        assert(x.subrange(0, n)[n - 1] == x[n - 1]);
    }
}
/// non-whitespace bytes of the kept bytes == non-whitespace bytes outside the ranges
pub proof fn lemma_nw_kept(b: Seq<u8>, m: Seq<Range<usize>>, n: int)
    requires 0 <= n <= b.len(),
    ensures nw(kept(b, m, 0, n), 0, kept(b, m, 0, n).len() as int) == nw_outside(b, m, 0, n),
    decreases n,
{
    if n > 0 {
        lemma_nw_kept(b, m, n - 1);
        let k0 = kept(b, m, 0, n - 1);
        if covered(m, n - 1) {
            assert(kept(b, m, 0, n) =~= k0);
            assert(nw_outside(b, m, 0, n) =~= nw_outside(b, m, 0, n - 1));
        } else {
            let one = seq![b[n - 1]];
            assert(kept(b, m, 0, n) =~= k0 + one);
            lemma_nw_add(k0, one);
            assert(nw(one, 0, 1) =~= (if is_ws(b[n - 1]) { Seq::<u8>::empty() } else { one })) by {
                assert(nw(one, 0, 0) =~= Seq::<u8>::empty());
            }
        }
    }
}
/// deleting only whitespace keeps the non-whitespace bytes
pub proof fn lemma_nw_outside_ws(x: Seq<u8>, w: Seq<Range<usize>>, n: int)
    requires 0 <= n <= x.len(), forall|p: int| 0 <= p < n && covered(w, p) ==> is_ws(#[trigger] x[p]),
    ensures nw_outside(x, w, 0, n) == nw(x, 0, n),
    decreases n,
{
    if n > 0 { lemma_nw_outside_ws(x, w, n - 1); }
}
/// C02: after deleting the ranges m from b and then the whitespace-only ranges w from the result, the
/// non-whitespace bytes of the output are exactly the non-whitespace bytes of b outside m, in order
pub proof fn lemma_survivors(b: Seq<u8>, m: Seq<Range<usize>>, w: Seq<Range<usize>>)
    requires
        wf_ranges(m, b), wf_ranges(w, del_from(b, m, 0)),
        forall|p: int| 0 <= p < del_from(b, m, 0).len() && covered(w, p) ==> is_ws(#[trigger] del_from(b, m, 0)[p]),
    ensures ({
        let out = del_from(del_from(b, m, 0), w, 0);
        nw(out, 0, out.len() as int) == nw_outside(b, m, 0, b.len() as int)
    }),
{
    let mid = del_from(b, m, 0);
    let out = del_from(mid, w, 0);
    lemma_del_is_kept(b, m, 0);
    lemma_del_is_kept(mid, w, 0);
    let s0 = start_or_len(b, m, 0);
    assert forall|p: int| 0 <= p < s0 implies !covered(m, p) by {
        if covered(m, p) { let i = choose|i: int| 0 <= i < m.len() && (#[trigger] m[i]).start <= p < m[i].end; if i > 0 { assert(m[0].end <= m[i].start); } }
    }
    lemma_kept_uncovered(b, m, 0, s0);
    lemma_kept_split(b, m, 0, s0, b.len() as int);
    assert(mid == kept(b, m, 0, b.len() as int));
    let t0 = start_or_len(mid, w, 0);
    assert forall|p: int| 0 <= p < t0 implies !covered(w, p) by {
        if covered(w, p) { let i = choose|i: int| 0 <= i < w.len() && (#[trigger] w[i]).start <= p < w[i].end; if i > 0 { assert(w[0].end <= w[i].start); } }
    }
    lemma_kept_uncovered(mid, w, 0, t0);
    lemma_kept_split(mid, w, 0, t0, mid.len() as int);
    assert(out == kept(mid, w, 0, mid.len() as int));
    lemma_nw_kept(mid, w, mid.len() as int);
    lemma_nw_outside_ws(mid, w, mid.len() as int);
    lemma_nw_kept(b, m, b.len() as int);
}
