//@unit glue
// L11: chiritori::clean (and its helpers build_remover, build_formatters) against the contracts of the stages.
// parser::parse is an ASSUMED contract (C10 is not decided): it is the only stub in this unit whose contract is not
// proved in another unit.
//@include types.vs
//@include builders_vocab.vs
//@include attrs_vocab.vs
//@include chrono_standin.vs
//@include formatter_vocab.vs
use crate::parser::*;
//@include stack_vocab.vs
//@include parser_vocab.vs
//@include seam_vocab.vs
//@include block_vocab.vs

pub mod builder {
use super::*;
use crate::parser::Element;
use std::rc::Rc;
//@import trait_marker_builder
//@item file=code/remover/marker/builder/range_marker_builder.rs kind=struct name=RangeMarkerBuilder derive=Default
//@import range_marker_builder
//@item file=code/remover/marker/builder/unwrap_block_marker_builder.rs kind=struct name=UnwrapBlockMarkerBuilder
//@import unwrap_marker_builder
}
pub mod availability {
use super::*;
use crate::parser::Element;
//@import trait_marker_availability
//@item file=code/remover/marker/availability/range_marker_availability.rs kind=struct name=RangeMarkerAvailability derive=Default
//@import range_marker_availability
//@item file=code/remover/marker/availability/unwrap_block_marker_availability.rs kind=struct name=UnwrapBlockMarkerAvailability
//@import unwrap_marker_availability
//@import unwrap_marker_availability_new
}
pub mod factory {
use super::*;
use super::{availability::MarkerAvailability, builder::MarkerBuilder};
use crate::parser::Element;
//@item file=code/remover/marker/factory.rs kind=type name=RemoveStrategies
//@item file=code/remover/marker/factory.rs kind=type name=RemovableRange
//@include factory_vocab.vs
}
pub mod removal_evaluator {
use super::*;
use crate::element_parser::Element;
//@import trait_removal_evaluator
pub mod marker_evaluator {
use super::*;
use super::RemovalEvaluator;
use crate::element_parser::Element;
use std::collections::HashSet;
//@item file=code/remover/removal_evaluator/marker_evaluator.rs kind=struct name=MarkerEvaluator
//@import marker_evaluator
}
pub mod time_limited_evaluator {
use super::*;
use super::RemovalEvaluator;
use crate::element_parser::Element;
use crate::chrono::{DateTime, Local};
//@item file=code/remover/removal_evaluator/time_limited_evaluator.rs kind=struct name=TimeLimitedEvaluator
//@import time_limited_evaluator
}
}

pub mod remover {
use super::*;
use crate::element_parser::Element;
use crate::parser;
use crate::parser::ContentPart;
use crate::factory::{RemovableRange, RemoveStrategies, create_spec};
use crate::removal_evaluator::RemovalEvaluator;
use std::collections::HashMap;
pub use crate::removal_evaluator;
//@item file=code/remover.rs kind=type name=RemoveMarker
//@item file=code/remover.rs kind=type name=RemovalEvaluators
//@item file=code/remover.rs kind=struct name=RemovalRangeTree
//@item file=code/remover.rs kind=struct name=Remover
//@include remover_vocab.vs
//@include collect_vocab.vs
//@include parser_link_vocab.vs
//@import remover_new
//@import remove
//@import get_removed_pos
}

pub mod formatter {
use super::*;
//@import trait_formatter
//@import trait_block_formatter
//@include format_exact_vocab.vs
//@import format
pub mod indent_remover {
use super::*;
use super::Formatter;
//@item file=code/formatter/indent_remover.rs kind=struct name=IndentRemover
//@import indent_remover
}
pub mod empty_line_remover {
use super::*;
use super::Formatter;
//@item file=code/formatter/empty_line_remover.rs kind=struct name=EmptyLineRemover
//@import empty_line_remover
}
pub mod prev_line_break_remover {
use super::*;
use super::Formatter;
//@item file=code/formatter/prev_line_break_remover.rs kind=struct name=PrevLineBreakRemover
//@import prev_remover
}
pub mod next_line_break_remover {
use super::*;
use super::Formatter;
//@item file=code/formatter/next_line_break_remover.rs kind=struct name=NextLineBreakRemover
//@import next_remover
}
pub mod block_indent_remover {
use super::*;
use super::BlockFormatter;
//@item file=code/formatter/block_indent_remover.rs kind=struct name=BlockIndentRemover
//@import block_indent_remover
}
}

pub mod tokenizer_fns {
use super::*;
use crate::tokenizer::*;
//@include tokenizer_vocab.vs
//@include tokenizer_spec_vocab.vs
//@import tokenize
}

pub mod parser_fns {
use super::*;
use crate::tokenizer;
use crate::parser::*;
use crate::tokenizer_fns::{tok_chain, toks_ok, tok_ok};
use crate::remover::{parts_wf, parts_on_b, all_el_wf};
//@import parser_parse_proved

pub proof fn lemma_toks_seq_ok_all(ts: Seq<tokenizer::Token>, cs: Seq<char>)
    ensures forall|ds: &str, de: &str| tok_chain(ts, cs, cs.len() as int) && #[trigger] toks_ok(ts, encode_utf8(cs), ds, de) ==> crate::remover::toks_seq_ok(ts, encode_utf8(cs)),
{
    assert forall|ds: &str, de: &str| tok_chain(ts, cs, cs.len() as int) && #[trigger] toks_ok(ts, encode_utf8(cs), ds, de) implies crate::remover::toks_seq_ok(ts, encode_utf8(cs)) by {
        lemma_toks_seq_ok(ts, cs, ds, de);
    }
}

/// the token chain proved for tokenizer::tokenize (C07) gives the contiguity the parse-tree lemma needs
pub proof fn lemma_toks_seq_ok(ts: Seq<tokenizer::Token>, cs: Seq<char>, ds: &str, de: &str)
    requires tok_chain(ts, cs, cs.len() as int), toks_ok(ts, encode_utf8(cs), ds, de),
    ensures crate::remover::toks_seq_ok(ts, encode_utf8(cs)),
{
    let b = encode_utf8(cs);
    lemma_char_pos_mono(cs, 0, cs.len() as int);
    assert forall|k: int| 0 <= k < ts.len() implies (#[trigger] ts[k]).byte_start < ts[k].byte_end && ts[k].byte_end == crate::remover::tok_pos(ts, b, k + 1)
            && ts[k].byte_end <= b.len() && cb(b, ts[k].byte_start as int) && cb(b, ts[k].byte_end as int) by {
        assert(tok_ok(ts[k], b, ds, de));
        lemma_char_pos_mono(cs, ts[k].start as int, ts[k].end as int);
        if k + 1 < ts.len() { assert(ts[k].end == ts[k + 1].start); assert(tok_ok(ts[k + 1], b, ds, de)); }
        else { assert(ts[ts.len() - 1].end == cs.len()); }
    }
    if ts.len() > 0 { assert(ts[0].start == 0); }
    else { assert(cs.len() == 0); assert(cs.take(0) =~= cs); }
}

}

pub mod chiritori {
use super::*;
use crate::formatter::{self, BlockFormatter, Formatter};
use crate::remover::{self, Remover};
use crate::availability::{RangeMarkerAvailability, UnwrapBlockMarkerAvailability};
use crate::builder::{RangeMarkerBuilder, UnwrapBlockMarkerBuilder};
use crate::factory::RemoveStrategies;
use crate::removal_evaluator::RemovalEvaluator;
use crate::parser_fns as parser;
use crate::tokenizer_fns as tokenizer;
use crate::chrono;
use crate::remover::*;
use std::{collections::{HashMap, HashSet}, rc::Rc};
//@item file=chiritori.rs kind=struct name=ChiritoriConfiguration
//@item file=chiritori.rs kind=struct name=TimeLimitedConfiguration
//@item file=chiritori.rs kind=struct name=RemovalMarkerConfiguration

//@fn id=build_formatters file=chiritori.rs name=build_formatters props=C01,C13,C14
//@ret r
//@ensures label=four_seam_formatters props=C13,C14
    r@.len() == 4,
    forall|b: Seq<u8>, p: int| #![trigger r@[0].spec_format(b, p)] r@[0].spec_format(b, p) == indent_spec(b, p),
    forall|b: Seq<u8>, p: int| #![trigger r@[1].spec_format(b, p)] r@[1].spec_format(b, p) == empty_line_spec(b, p),
    forall|b: Seq<u8>, p: int| #![trigger r@[2].spec_format(b, p)] r@[2].spec_format(b, p) == prev_remover_spec(b, p),
    forall|b: Seq<u8>, p: int| #![trigger r@[3].spec_format(b, p)] r@[3].spec_format(b, p) == next_remover_spec(b, p),
//@end

pub open spec fn has_attr(el: crate::parser::Element, name: Seq<char>) -> bool {
    exists|i: int| 0 <= i < el.start_element.attrs@.len() && (#[trigger] el.start_element.attrs@[i]).name@ == name
}
/// the remover a configuration stands for (C05 / C06 / C03 / C11 at the entry point): the two strategies in
/// their order (unwrap-block when the opening tag has that attribute, else the whole element), and exactly two
/// registered tag names, each with its evaluator built from the configuration (the removal-marker name wins
/// if both tag names are equal, as the later insert does)
pub open spec fn configured(r: Remover, config: ChiritoriConfiguration, b: Seq<u8>) -> bool {
    let s = r.remove_strategies@;
    let tl = crate::removal_evaluator::time_limited_evaluator::TimeLimitedEvaluator { current_time: config.time_limited_configuration.current, time_offset: config.time_limited_configuration.time_offset };
    let rm = crate::removal_evaluator::marker_evaluator::MarkerEvaluator { marker_removal_names: config.removal_marker_configuration.targets };
    let rm_tag = config.removal_marker_configuration.tag_name@;
    let tl_tag = config.time_limited_configuration.tag_name@;
    &&& s.len() == 2
    &&& forall|el: crate::parser::Element| #![trigger s[0].0.spec_available(el)] s[0].0.spec_available(el) == has_attr(el, "unwrap-block"@)
    &&& forall|el: crate::parser::Element| #![trigger s[0].1.spec_build(el)] s[0].1.spec_build(el) == unwrap_spec(b, el)
    &&& forall|el: crate::parser::Element| #![trigger s[1].0.spec_available(el)] s[1].0.spec_available(el)
    &&& forall|el: crate::parser::Element| #![trigger s[1].1.spec_build(el)] s[1].1.spec_build(el) == (Range { start: el.start_token.byte_start, end: el.end_token.byte_end }, None::<Range<usize>>)
    &&& forall|name: Seq<char>| #![trigger str_lookup(r.removal_evaluators@, name)]
            match str_lookup(r.removal_evaluators@, name) {
                Some(ev) => (name == rm_tag || name == tl_tag) && (forall|e: crate::element_parser::Element| #![trigger ev.spec_is_removal(e)]
                    ev.spec_is_removal(e) == (if name == rm_tag { rm.spec_is_removal(e) } else { tl.spec_is_removal(e) })),
                None => name != rm_tag && name != tl_tag,
            }
}

//@fn id=build_remover file=chiritori.rs name=build_remover props=C01,C02,C03,C05,C06,C11
//@ret r
//@ensures label=remover_is_the_configured_one props=C03,C05,C06,C11
    configured(r, config, encode_utf8(content@)),
//@ensures label=strategies_established props=C01,C02,C03,C11
    strategies_ok(r.remove_strategies@),
    strategies_bounded(r.remove_strategies@, encode_utf8(content@)),
    r.remove_strategies@.len() == 2,
//@at body-start
    broadcast use {axiom_string_key_model, axiom_str_lookup_empty, axiom_str_lookup_insert, vstd::std_specs::hash::axiom_random_state_builds_valid_hashers};
//@bindargs "builder_map.insert(" 1 vars="__k1: String; __v1: Box<dyn RemovalEvaluator>"
//@bindargs "builder_map.insert(" 2 vars="__k2: String; __v2: Box<dyn RemovalEvaluator>"
//@at before "let __k1: String" 1
    let ghost __tl = crate::removal_evaluator::time_limited_evaluator::TimeLimitedEvaluator { current_time: config.time_limited_configuration.current, time_offset: config.time_limited_configuration.time_offset };
    let ghost __rm = crate::removal_evaluator::marker_evaluator::MarkerEvaluator { marker_removal_names: config.removal_marker_configuration.targets };
    let ghost __m0 = builder_map@;
//@at before "builder_map.insert(__k1, __v1)"
    let ghost __gk1 = __k1;
    let ghost __gv1 = __v1;
//@at before "let __k2: String" 1
    let ghost __m1 = builder_map@;
//@at before "builder_map.insert(__k2, __v2)"
    let ghost __gk2 = __k2;
    let ghost __gv2 = __v2;
//@at before "let remove_strategy_map: RemoveStrategies"
    let ghost __m2 = builder_map@;
    // (vstd's Map axioms are not instantiated automatically for dyn-typed values: the inserted boxes are named (R12)
    //  and the lookup axioms are called explicitly)
    proof {
        assert(__m0 =~= Map::<String, Box<dyn RemovalEvaluator>>::empty());
        assert(__m1 == __m0.insert(__gk1, __gv1));
        assert(__m2 == __m1.insert(__gk2, __gv2));
        assert forall|e: crate::element_parser::Element| #![trigger __gv1.spec_is_removal(e)] __gv1.spec_is_removal(e) == __tl.spec_is_removal(e) by {}
        assert forall|e: crate::element_parser::Element| #![trigger __gv2.spec_is_removal(e)] __gv2.spec_is_removal(e) == __rm.spec_is_removal(e) by {}
        assert forall|name: Seq<char>| #![trigger str_lookup(__m2, name)]
            str_lookup(__m2, name) == (if name == __gk2@ { Some(__gv2) } else if name == __gk1@ { Some(__gv1) } else { None::<Box<dyn RemovalEvaluator>> }) by {
            axiom_str_lookup_insert(__m1, __gk2, __gv2, name);
            axiom_str_lookup_insert(__m0, __gk1, __gv1, name);
            axiom_str_lookup_empty::<Box<dyn RemovalEvaluator>>(name);
        }
    }
//@at before "Remover::new(builder_map, remove_strategy_map)"
    proof {
        let s = remove_strategy_map@;
        let b = encode_utf8(content@);
        encode_utf8_valid_utf8(content@);
        assert forall|i: int, el: crate::parser::Element| 0 <= i < s.len() && el_wf(el) implies builder_ok(el, #[trigger] s[i].1.spec_build(el)) by {
            if i == 0 { lemma_unwrap_spec_ok(b, el); }
        }
        assert forall|i: int, el: crate::parser::Element| 0 <= i < s.len() && el_wf(el) && el_on_b(el, b) implies range_on_b(#[trigger] s[i].1.spec_build(el), b) by {
            if i == 0 { lemma_unwrap_spec_on_b(b, el); }
        }
        assert(builder_map@ == __m2);
        assert(s.len() == 2);
        assert forall|el: crate::parser::Element| #![trigger s[0].0.spec_available(el)] s[0].0.spec_available(el) == has_attr(el, "unwrap-block"@) by {}
        assert forall|el: crate::parser::Element| #![trigger s[0].1.spec_build(el)] s[0].1.spec_build(el) == unwrap_spec(b, el) by {}
        assert forall|el: crate::parser::Element| #![trigger s[1].0.spec_available(el)] s[1].0.spec_available(el) by {}
        assert forall|el: crate::parser::Element| #![trigger s[1].1.spec_build(el)] s[1].1.spec_build(el) == (Range { start: el.start_token.byte_start, end: el.end_token.byte_end }, None::<Range<usize>>) by {}
    }
//@end

/// positions of the seams in the string left by Remover::remove (what get_removed_pos computes)
pub open spec fn removed_pos_of(mk: Seq<RemoveMarker>) -> Seq<crate::RemovedMarker> {
    Seq::new(mk.len(), |i: int| ((mk[i].0.start - removed_before(mk, i)) as usize, mk[i].1))
}
/// C02 / C03 / C04 / C14 at the entry point: there are a (well-formed, assumed) parse `parts` of the source and the
/// configured remover `r` such that, with M = mm_spec(collect_spec(r, parts).ready) (sorted, disjoint, covering
/// exactly the removable extents of the ready elements, on character boundaries), the result is
/// del(del(source, M), W) for a W that format_post allows (whitespace attached to a seam, or blanks inside an
/// unwrapped pair); and the result is the source itself when M is empty.
pub open spec fn clean_witness(b: Seq<u8>, out: Seq<u8>, r: Remover, parts: Seq<crate::parser::ContentPart>, w: Seq<Range<usize>>) -> bool {
    let f = collect_spec(r, parts, false).0;
    let mk = mm_spec(f);
    let mid = del_from(b, marker_ranges(mk), 0);
    &&& parts_wf(parts, 0, b.len() as int)
    &&& strategies_ok(r.remove_strategies@)
    &&& mm_post(f, mk)
    &&& wf_ranges(marker_ranges(mk), b)
    &&& format_post(mid, removed_pos_of(mk), w, out)
    &&& (mk.len() == 0 ==> out == b)
}
pub open spec fn clean_post(b: Seq<u8>, out: Seq<u8>) -> bool {
    exists|r: Remover, parts: Seq<crate::parser::ContentPart>, w: Seq<Range<usize>>| #[trigger] clean_witness(b, out, r, parts, w)
}
/// The whole pipeline, pinned to the source and the configuration: the tokens are tokenize_spec's (C07/C08) and
/// partition the source; the parse tree holds every token once, in order, paired by the stack rule (C10); the
/// remover is the configured one (C03/C05/C06/C11); and the output is del(del(source, M), W) as in clean_witness.
/// the whitespace pass is configured with the four seam formatters (in their order) and the block indent remover
pub open spec fn configured_formatters(fs: Seq<Box<dyn Formatter>>, sfs: Seq<Box<dyn BlockFormatter>>) -> bool {
    &&& fs.len() == 4
    &&& forall|b: Seq<u8>, p: int| #![trigger fs[0].spec_format(b, p)] fs[0].spec_format(b, p) == indent_spec(b, p)
    &&& forall|b: Seq<u8>, p: int| #![trigger fs[1].spec_format(b, p)] fs[1].spec_format(b, p) == empty_line_spec(b, p)
    &&& forall|b: Seq<u8>, p: int| #![trigger fs[2].spec_format(b, p)] fs[2].spec_format(b, p) == prev_remover_spec(b, p)
    &&& forall|b: Seq<u8>, p: int| #![trigger fs[3].spec_format(b, p)] fs[3].spec_format(b, p) == next_remover_spec(b, p)
    &&& sfs.len() == 1
    &&& forall|b: Seq<u8>, s: int, e: int| #![trigger sfs[0].spec_format(b, s, e)] sfs[0].spec_format(b, s, e) == block_spec(b, s, e)
}
pub open spec fn clean_pipeline(cs: Seq<char>, ds: Seq<char>, de: Seq<char>, config: ChiritoriConfiguration, out: Seq<u8>,
        ts: Seq<crate::tokenizer::Token>, r: Remover, parts: Seq<crate::parser::ContentPart>, w: Seq<Range<usize>>,
        fs: Seq<Box<dyn Formatter>>, sfs: Seq<Box<dyn BlockFormatter>>) -> bool {
    let b = encode_utf8(cs);
    let mk = mm_spec(collect_spec(r, parts, false).0);
    &&& configured_formatters(fs, sfs)
    &&& crate::formatter::format_exact(fs, sfs, del_from(b, marker_ranges(mk), 0), removed_pos_of(mk), w)
    &&& crate::tokenizer_fns::tvs(ts) == crate::tokenizer_fns::tokenize_spec(cs, ds, de)
    &&& crate::tokenizer_fns::tok_chain(ts, cs, cs.len() as int)
    &&& crate::flatten(parts) == ts
    &&& crate::gp(parts) == crate::stack_parse(ts, crate::tok_nm())
    &&& configured(r, config, b)
    &&& clean_witness(b, out, r, parts, w)
}
pub open spec fn clean_post_full(cs: Seq<char>, ds: Seq<char>, de: Seq<char>, config: ChiritoriConfiguration, out: Seq<u8>) -> bool {
    exists|ts: Seq<crate::tokenizer::Token>, r: Remover, parts: Seq<crate::parser::ContentPart>, w: Seq<Range<usize>>,
            fs: Seq<Box<dyn Formatter>>, sfs: Seq<Box<dyn BlockFormatter>>|
        #[trigger] clean_pipeline(cs, ds, de, config, out, ts, r, parts, w, fs, sfs)
}

pub proof fn lemma_mm_post_parts(f: Seq<GTree>, mk: Seq<RemoveMarker>)
    requires mm_post(f, mk),
    ensures markers_sorted(mk), pairs_consistent(mk),
{}
pub proof fn lemma_removed_pos_ok(b: Seq<u8>, mk: Seq<RemoveMarker>, rp: Seq<crate::RemovedMarker>, mid: Seq<u8>)
    requires
        valid_utf8(b), wf_ranges(marker_ranges(mk), b), pairs_consistent(mk), rp == removed_pos_of(mk),
        mid == del_from(b, marker_ranges(mk), 0), mid.len() <= usize::MAX,
    ensures
        forall|i: int| 0 <= i < rp.len() ==> (#[trigger] rp[i]).0 <= mid.len() && cb(mid, rp[i].0 as int),
        forall|i: int| 0 <= i < rp.len() ==> ((#[trigger] rp[i]).1 matches Some(j) ==> j < rp.len()),
{
    let m = marker_ranges(mk);
    assert forall|i: int| 0 <= i < rp.len() implies (#[trigger] rp[i]).0 <= mid.len() && cb(mid, rp[i].0 as int) by {
        lemma_seam_pos(b, m, 0, i);
        lemma_removed_before_is_len_between(mk, i);
        assert(m[i] == mk[i].0);
    }
    assert forall|i: int| 0 <= i < rp.len() implies ((#[trigger] rp[i]).1 matches Some(j) ==> j < rp.len()) by {
        assert(rp[i].1 == mk[i].1);
    }
}
pub proof fn lemma_removed_pos_eq(mk: Seq<RemoveMarker>, rp: Seq<crate::RemovedMarker>)
    requires rp.len() == mk.len(),
        forall|i: int| 0 <= i < rp.len() ==> (#[trigger] rp[i]).0 == mk[i].0.start - removed_before(mk, i) && rp[i].1 == mk[i].1,
    ensures rp == removed_pos_of(mk),
{
    assert(rp =~= removed_pos_of(mk));
}

//@fn id=clean file=chiritori.rs name=clean props=C01,C02,C03,C04,C14
//@ret out
//@requires
    delimiters.0@.len() > 0,
    delimiters.1@.len() > 0,
//@ensures label=clean_post props=C01,C02,C03,C04,C14
    clean_post(encode_utf8(content@), encode_utf8(out@)),
//@ensures label=clean_is_the_configured_pipeline props=C02,C03,C04,C05,C06,C11
    clean_post_full(content@, delimiters.0@, delimiters.1@, config, encode_utf8(out@)),
//@at body-start
    hide(collect_spec); hide(mm_spec); hide(wf_forest); hide(forest_covered); hide(forest_endpoint); hide(forest_size); hide(parts_wf); hide(parts_on_b); hide(all_el_wf); hide(count_elements); hide(mm_post); hide(format_post); hide(wf_ranges); hide(strategies_ok); hide(strategies_bounded); hide(removed_pos_of); hide(markers_sorted); hide(pairs_consistent); hide(del_from); hide(crate::tokenizer_fns::tok_chain); hide(crate::tokenizer_fns::toks_ok); hide(crate::tokenizer_fns::tokenize_spec); hide(crate::stack_parse); hide(crate::gp); hide(crate::flatten); hide(configured);
    let ghost b = encode_utf8(content@);
    let ghost __cfg = config;
    let ghost __ds = delimiters.0@;
    let ghost __de = delimiters.1@;
    proof { encode_utf8_valid_utf8(content@); axiom_rc_string_len_isize(content); }
//@at before "let remover = build_remover"
    proof {
        crate::parser_fns::lemma_toks_seq_ok_all(tokens@, content@);
        assert(toks_seq_ok(tokens@, b));
        assert(tokens@.subrange(0, tokens@.len() as int) =~= tokens@);
        lemma_parts_from_flatten(parsed@, tokens@, b, 0, tokens@.len() as int);
        reveal(parts_wf);
        assert(parts_wf(parsed@, 0, b.len() as int) && parts_on_b(parsed@, b) && all_el_wf(parsed@));
    }
//@at before "let parsed = parser::parse"
    proof { crate::axiom_token_vec_len(&tokens); }
//@at before "let (removed, markers) = remover.remove"
    let ghost parts = parsed@;
    let ghost f = collect_spec(remover, parts, false).0;
    proof {
        lemma_collect_wf(remover, parts, false, 0, b.len() as int);
        lemma_collect_on_b(remover, parts, false, b);
        lemma_collect_size(remover, parts, false);
        lemma_count_elements(parts, 0, b.len() as int);
        assert(wf_forest(f, -1, b.len() as int + 1));
        assert(forest_on_b(f, b));
    }
//@at before "let removed_pos = remover::get_removed_pos"
    let ghost mk = markers@;
    let ghost mid = encode_utf8(removed@);
    proof {
        assert(mm_post(f, mk));
        lemma_mm_post_parts(f, mk);
        reveal(markers_sorted);
    }
//@at before "let formatter = build_formatters();"
    proof {
        axiom_string_len_isize(&removed);
        lemma_removed_pos_eq(mk, removed_pos@);
        lemma_removed_pos_ok(b, mk, removed_pos@, mid);
    }
//@at before "formatter::format(&removed, &removed_pos, &formatter, &structure_formatters)"
    let ghost __rp = removed_pos@;
    proof {
        assert forall|w: Seq<Range<usize>>, o: Seq<u8>| #[trigger] format_post(mid, __rp, w, o) && (__rp.len() == 0 ==> o == mid)
            implies clean_witness(b, o, remover, parts, w) by {
            assert(mk == mm_spec(f));
            assert(mid == del_from(b, marker_ranges(mk), 0));
            assert(__rp == removed_pos_of(mk));
            if mk.len() == 0 { assert(__rp.len() == 0) by { reveal(removed_pos_of); } assert(mid == b); }
        }
        assert(crate::tokenizer_fns::tvs(tokens@) == crate::tokenizer_fns::tokenize_spec(content@, __ds, __de));
        assert(crate::tokenizer_fns::tok_chain(tokens@, content@, content@.len() as int));
        assert(crate::flatten(parts) == tokens@);
        assert(crate::gp(parts) == crate::stack_parse(tokens@, crate::tok_nm()));
        assert(configured(remover, __cfg, b));
        assert(configured_formatters(formatter@, structure_formatters@));
        assert forall|w: Seq<Range<usize>>, o: Seq<u8>| #[trigger] format_post(mid, __rp, w, o) && (__rp.len() == 0 ==> o == mid)
                && crate::formatter::format_exact(formatter@, structure_formatters@, mid, __rp, w)
            implies clean_pipeline(content@, __ds, __de, __cfg, o, tokens@, remover, parts, w, formatter@, structure_formatters@) by {
            assert(clean_witness(b, o, remover, parts, w));
        }
    }
//@end

} // mod chiritori
