//@unit line_map
// L8: code/utils/line_map.rs

//@include line_map_vocab.vs

//@fn id=build_line_map file=code/utils/line_map.rs name=build_line_map props=C01,C15
//@ret r
//@ensures label=line_map_exact props=C15
    r@ == lf_positions(content@, content@.len() as int),
//@fold 1 type="Vec<usize>"
//@desugar-for 1
//@loop 1
//@invariant_except_break
    it_ok(__it1),
    0 <= __n <= content@.len(),
    it_rem(__it1) =~= char_index_seq(content@).skip(__n),
    __acc1@ == lf_positions(content@, __n),
//@loop-ensures
    __acc1@ == lf_positions(content@, content@.len() as int),
//@decreases
    IteratorSpec::decrease(&__it1)->0
//@at before "loop {"
    let ghost mut __n: int = 0;
    proof { assert(char_index_seq(content@).skip(0) =~= char_index_seq(content@)); }
//@at loop 1 start
    let ghost __rest = it_rem(__it1);
//@at before "let mut acc = __acc1;"
    proof {
        assert(__rest[0] == __x1);
        assert(__rest.drop_first() =~= char_index_seq(content@).skip(__n + 1));
        __n = __n + 1;
    }
//@end

//@fn id=find_line file=code/utils/line_map.rs name=find_line props=C01,C15
//@ret r
//@requires
    line_map@.len() < usize::MAX,
//@ensures label=find_line_exact props=C15
    r as int == find_line_spec(line_map@, needle),
//@loop 1
//@invariant_except_break
    it_ok(__itA1),
    __rA1 is None,
    __iA1 == __n,
    0 <= __n <= line_map@.len() < usize::MAX,
    it_rem(__itA1) =~= line_map@.as_ref().skip(__n),
    forall|k: int| 0 <= k < __n ==> (#[trigger] line_map@[k]) <= needle,
//@loop-ensures
    match __rA1 {
        Some(i) => first_gt(line_map@, needle, i as int),
        None => forall|i: int| !first_gt(line_map@, needle, i),
    },
//@decreases
    IteratorSpec::decrease(&__itA1)->0
//@at before "loop {"
    let ghost mut __n: int = 0;
    proof { assert(line_map@.as_ref().skip(0) =~= line_map@.as_ref()); }
//@at loop 1 start
    let ghost __rest = it_rem(__itA1);
//@at before "let v = __xA1;"
    proof {
        assert(__rest[0] == __xA1);
        assert(*__xA1 == line_map@[__n]);
        assert(__rest.drop_first() =~= line_map@.as_ref().skip(__n + 1));
    }
//@at before "__iA1 += 1;"
    proof { __n = __n + 1; }
//@at after-loop 1
    proof {
        if __rA1 is Some {
            assert forall|j: int| first_gt(line_map@, needle, j) implies j == __rA1->0 as int by {
                lemma_first_gt_unique(line_map@, needle, __rA1->0 as int, j);
            }
        }
    }
//@end
