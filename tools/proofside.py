#!/usr/bin/env python3
"""Proof-side-only view of the seeded changes: apply each seeded patch to a scratch COPY of chiritori/src (the driver
and the witness finder keep looking at the unchanged /repo, so they cannot contribute) and record what the deductive
side alone says per property. Usage: tools/proofside.py [seed ids...]  -> /tmp/proofside/<id>.log and a summary."""
import os, subprocess, sys, shutil, json, re
from concurrent.futures import ThreadPoolExecutor
ROOT = os.path.dirname(os.path.dirname(os.path.abspath(__file__)))
OUT = '/tmp/proofside'
os.makedirs(OUT, exist_ok=True)
seeds = sys.argv[1:] or sorted(os.listdir(os.path.join(ROOT, 'seeded')))
# an argument that is a path to a .diff file is taken as a patch of its own (id = file name)
PATCH = {os.path.basename(a)[:-5]: a for a in seeds if a.endswith('.diff')}
seeds = [os.path.basename(a)[:-5] if a.endswith('.diff') else a for a in seeds]

def one(sid):
    d = os.path.join(OUT, sid)
    shutil.rmtree(d, ignore_errors=True)
    os.makedirs(d + '/chiritori')
    shutil.copytree('/repo/chiritori/src', d + '/chiritori/src')
    r = subprocess.run(['patch', '-p1', '-s', '-i', PATCH.get(sid, os.path.join(ROOT, 'seeded', sid, 'patch.diff'))], cwd=d, capture_output=True, text=True)
    if r.returncode:
        return sid, {'error': 'patch failed: ' + r.stdout + r.stderr}
    env = dict(os.environ, CHIRITORI_SRC=d + '/chiritori/src', VERIF_OUT_DIR=d + '/out', VERIF_NO_WITNESS='1')
    r = subprocess.run(['python3', os.path.join(ROOT, 'bin/check'), '--all', '--tier', 'quick'], env=env, capture_output=True, text=True)
    open(os.path.join(OUT, sid + '.log'), 'w').write(r.stdout + r.stderr)
    res = {}
    for line in (r.stdout + r.stderr).splitlines():
        m = re.match(r'(VIOLATION) property=(C\d+).*?(obligation=\S+ \([^)]*\)|failing input)', line)
        if m:
            res.setdefault(m.group(2), []).append(m.group(3))
        m = re.match(r'OK property=(C\d+)', line)
        if m:
            res.setdefault(m.group(1), []).append('OK')
        m = re.match(r'UNDECIDED (?:property=)?(C\d+):? \[(\w+)\] (.*)', line)
        if m:
            res.setdefault(m.group(1), []).append('UNDECIDED[' + m.group(2) + '] ' + m.group(3)[:140])
    shutil.rmtree(d, ignore_errors=True)
    return sid, res

with ThreadPoolExecutor(int(os.environ.get("PROOFSIDE_WORKERS", "3"))) as ex:
    allr = dict(ex.map(one, seeds))
json.dump(allr, open(os.path.join(OUT, 'summary.json'), 'w'), indent=1)
for sid in seeds:
    r = allr[sid]
    target = sid.split('-')[0]
    viol = sorted(k for k, v in r.items() if k != 'error' and any(not x.startswith('UNDECIDED') and x != 'OK' for x in v))
    und = sorted(k for k, v in r.items() if k != 'error' and k not in viol and any(x.startswith('UNDECIDED') for x in v))
    print(sid, 'VIOL:', ' '.join(viol) or '-', '| UNDECIDED:', ' '.join(und) or '-', '|', r.get('error', ''))
